"""Common pipeline of every check (DESIGN §2.1):

  extract -> prove (lake build + axiom audit + forbidden-token grep) -> correspond (model vs real
  code on the same operation lines) -> oracle (the property itself, on the real runs) -> decide.

A property module (harness/props/cXX.py) provides:

  ID                      "C12"
  PROP_MODULES            Lean modules holding its property theorems, e.g. ["WV.Props.C12"]
  cases(rng, tier)        -> list of JSON-able cases (corpus first, then generated)
  run_case(case)          -> Result(lines, expect, violations, tags, nontrivial)   [runs the REAL code]
  search(rng, seconds)    -> optional: extra oracle-only cases for the failing-input search
  TRUSTED                 -> list of strings (modelled, not verified)
"""
import hashlib
import importlib
import json
import os
import random
import re
import subprocess
import sys
import time
import traceback

ROOT = os.path.dirname(os.path.dirname(os.path.abspath(__file__)))
LEAN = os.path.join(ROOT, "lean")
DRIVER = os.path.join(LEAN, ".lake", "build", "bin", "wvdriver")
EVID = os.path.join(ROOT, "evidence")
REPLAYS = os.path.join(ROOT, "replays")
PY = "/venv/bin/python"

FORBIDDEN = re.compile(r"\b(sorry|admit|native_decide|bv_decide|implemented_by|unsafe)\b|^\s*axiom\s|maxHeartbeats\s+0")
ALLOWED_AXIOMS = {"propext", "Classical.choice", "Quot.sound"}


class Result:
    """Outcome of running one case on the real code."""

    def __init__(self, lines=None, expect=None, violations=None, tags=None, nontrivial=True, info=None):
        self.lines = lines or []          # operation lines for the model driver
        self.expect = expect or []        # what the real code did, one canonical line per operation
        self.violations = violations or []  # [(signature, message)] — the property's oracle on the real run
        self.tags = tags or []            # branch / class tags for the distribution report
        self.nontrivial = nontrivial
        self.info = info or {}


def log(*a):
    print(*a, flush=True)


# ---------------------------------------------------------------------------
# step 1: translator

def extract():
    r = subprocess.run([PY, os.path.join(ROOT, "tools", "extract.py")], capture_output=True, text=True)
    if r.returncode != 0:
        return None, r.stdout + r.stderr
    line = [l for l in r.stdout.splitlines() if l.startswith("{")][-1]
    return json.loads(line), ""


# ---------------------------------------------------------------------------
# step 2: prove

def lake(args, timeout=3000):
    env = dict(os.environ)
    # the lakefile globs `WV.Audit.+` and `WV.Gen.+`: both directories are git-ignored and must exist on a fresh checkout
    for d in ("Audit", "Gen"):
        os.makedirs(os.path.join(LEAN, "WV", d), exist_ok=True)
    r = subprocess.run(["lake"] + args, cwd=LEAN, capture_output=True, text=True, timeout=timeout, env=env)
    return r.returncode, r.stdout + r.stderr


class build_lock:
    """checks of several properties may be started at the same time in one checkout: the translator's output and the
    lake build directory are shared, so regenerate-and-build is one critical section (the correspondence runs are not)"""

    def __enter__(self):
        import fcntl
        self.f = open(os.path.join(LEAN, ".verif-build.lock"), "w")
        fcntl.flock(self.f, fcntl.LOCK_EX)
        return self

    def __exit__(self, *a):
        import fcntl
        fcntl.flock(self.f, fcntl.LOCK_UN)
        self.f.close()


def strip_comments(src):
    # remove /- ... -/ (nested not handled beyond one level is fine for our files) and -- line comments
    out = []
    i = 0
    depth = 0
    n = len(src)
    while i < n:
        if src.startswith("/-", i):
            depth += 1
            i += 2
        elif src.startswith("-/", i) and depth > 0:
            depth -= 1
            i += 2
        elif depth > 0:
            if src[i] == "\n":
                out.append("\n")
            i += 1
        elif src.startswith("--", i):
            while i < n and src[i] != "\n":
                i += 1
        elif src[i] == '"':
            # skip string literal
            j = i + 1
            while j < n and src[j] != '"':
                if src[j] == "\\":
                    j += 1
                j += 1
            out.append('""')
            i = j + 1
        else:
            out.append(src[i])
            i += 1
    return "".join(out)


def module_path(mod):
    return os.path.join(LEAN, *mod.split(".")) + ".lean"


# obligations every property carries (see lean/WV/Props/Common.lean)
COMMON_MODULES = ["WV.Props.Common"]


def import_closure(mods):
    seen = []
    todo = list(mods)
    while todo:
        m = todo.pop()
        if m in seen or not m.startswith("WV"):
            continue
        p = module_path(m)
        if not os.path.exists(p):
            continue
        seen.append(m)
        for l in open(p):
            mm = re.match(r"^\s*import\s+(\S+)", l)
            if mm:
                todo.append(mm.group(1))
    return sorted(seen)


def forbidden_hits(mods, native_ok=()):
    """native_ok: modules in which `native_decide` is a declared, disclosed use (DESIGN §4)"""
    hits = []
    for m in import_closure(mods):
        src = strip_comments(open(module_path(m)).read())
        for ln, l in enumerate(src.splitlines(), 1):
            mm = FORBIDDEN.search(l)
            if mm:
                if m in native_ok and mm.group(1) == "native_decide":
                    continue
                hits.append(f"{m}:{ln}: {l.strip()[:120]}")
    return hits


def theorem_names(mod):
    """(namespace-qualified) names of the theorems stated in a Props module."""
    src = strip_comments(open(module_path(mod)).read())
    ns = []
    names = []
    for l in src.splitlines():
        m = re.match(r"^\s*namespace\s+(\S+)", l)
        if m:
            ns.append(m.group(1))
            continue
        m = re.match(r"^\s*end\s+(\S+)", l)
        if m and ns and ns[-1] == m.group(1):
            ns.pop()
            continue
        m = re.match(r"^\s*(?:@\[[^\]]*\]\s*)?(?:private\s+|protected\s+)?theorem\s+([^\s:({\[]+)", l)
        if m:
            names.append(".".join(ns + [m.group(1)]))
    return names


def audit_axioms(prop_id, mods):
    """Writes WV/Audit/<id>.lean (`#print axioms` for every property theorem) and runs it."""
    names = []
    for m in mods:
        names += theorem_names(m)
    os.makedirs(os.path.join(LEAN, "WV", "Audit"), exist_ok=True)
    p = os.path.join(LEAN, "WV", "Audit", prop_id + ".lean")
    body = "".join(f"import {m}\n" for m in mods) + "".join(f"#print axioms {n}\n" for n in names)
    with open(p, "w") as f:
        f.write(body)
    rc, out = lake(["env", "lean", p])
    axioms = {}
    cur = None
    txt = out.replace("\n  ", " ")
    for mm in re.finditer(r"'([^']+)' depends on axioms: \[([^\]]*)\]", txt):
        axioms[mm.group(1)] = [a.strip() for a in mm.group(2).split(",") if a.strip()]
    for mm in re.finditer(r"'([^']+)' does not depend on any axioms", txt):
        axioms[mm.group(1)] = []
    return rc, out, names, axioms


NATIVE_AXIOMS = {"Lean.ofReduceBool", "Lean.trustCompiler"}


def prove(prop_id, mods, extra_targets=("wvdriver",), native_ok=()):
    """Returns dict(ok, build_ok, driver_ok, log, theorems, axioms, bad_axioms, forbidden)."""
    res = dict(ok=False, build_ok=False, driver_ok=False, log="", theorems=[], axioms={}, bad_axioms={}, forbidden=[])
    rc, out = lake(["build"] + list(mods))
    res["build_ok"] = rc == 0
    res["log"] = out[-6000:]
    rc2, out2 = lake(["build"] + list(extra_targets))
    res["driver_ok"] = rc2 == 0
    if rc2 != 0:
        res["log"] += "\n--- driver build ---\n" + out2[-3000:]
    res["forbidden"] = forbidden_hits(list(mods), native_ok)
    if res["build_ok"]:
        rc3, out3, names, axioms = audit_axioms(prop_id, mods)
        res["theorems"] = names
        res["axioms"] = axioms
        missing = [n for n in names if n not in axioms]
        allowed = ALLOWED_AXIOMS | (NATIVE_AXIOMS if native_ok else set())

        def ok_axiom(a):
            # Lean 4.33: each `native_decide` adds an axiom `<theorem>._native.native_decide.ax_*`
            return a in allowed or (bool(native_ok) and re.search(r"\._native\.native_decide\.ax_[0-9_]+$", a) is not None)
        bad = {n: [a for a in ax if not ok_axiom(a)] for n, ax in axioms.items()}
        res["bad_axioms"] = {n: a for n, a in bad.items() if a}
        if rc3 != 0 or missing:
            res["log"] += "\n--- axiom audit ---\n" + out3[-2000:] + f"\nmissing: {missing}"
            res["build_ok"] = False
    res["ok"] = res["build_ok"] and not res["forbidden"] and not res["bad_axioms"]
    return res


def import_closure(mods):
    """the WV.* modules reachable from `mods` through `import` lines (source scan)"""
    seen = []
    todo = list(mods)
    while todo:
        m = todo.pop()
        if m in seen or not m.startswith("WV"):
            continue
        f = os.path.join(LEAN, *m.split(".")) + ".lean"
        if not os.path.exists(f):
            continue
        seen.append(m)
        for l in open(f):
            mm = re.match(r"\s*(?:public\s+)?import\s+(WV[\w.]*)", l)
            if mm:
                todo.append(mm.group(1))
    return sorted(seen)


def recheck(mods, timeout=3000):
    """thorough tier: Lean's independent re-checker replays every declaration of the property's modules and of
    everything of ours they import (generated tables, models, lemmas) through the kernel again"""
    closure = import_closure(mods)
    t0 = time.time()
    rc, out = lake(["env", "leanchecker"] + closure, timeout=timeout)
    return dict(ok=rc == 0, modules=closure, seconds=round(time.time() - t0, 1), log=out[-2000:])


# ---------------------------------------------------------------------------
# step 3: correspondence

def run_driver(model, lines, timeout=600):
    inp = model + "\n" + "\n".join(lines) + "\n"
    r = subprocess.run([DRIVER], input=inp, capture_output=True, text=True, timeout=timeout)
    if r.returncode != 0:
        raise RuntimeError("driver failed: " + r.stderr[-500:])
    out = r.stdout.split("\n")
    if out and out[-1] == "":
        out.pop()
    return out


def correspond(model, results):
    """Runs all cases' lines through the model driver ('reset' between cases; one driver process per
    model — a case may name another model in `info["model"]`) and returns the list of
    (case_index, line_index, op, impl, model) disagreements."""
    groups = {}
    for ci, r in enumerate(results):
        groups.setdefault(r.info.get("model", model), []).append(ci)
    diffs = []
    total = 0
    for mdl, idxs in groups.items():
        lines = []
        spans = []
        for ci in idxs:
            r = results[ci]
            start = len(lines)
            lines.append("reset")
            lines.extend(r.lines)
            spans.append((start, len(lines)))
        if len(lines) == len(idxs):
            continue            # no operation lines at all for this model
        out = run_driver(mdl, lines)
        if len(out) != len(lines):
            raise RuntimeError(f"driver {mdl} produced {len(out)} lines for {len(lines)} operations")
        total += len(lines)
        for ci, (a, b) in zip(idxs, spans):
            r = results[ci]
            got = out[a + 1:b]
            for li, (op, e, g) in enumerate(zip(r.lines, r.expect, got)):
                if e != g:
                    diffs.append(dict(case=ci, line=li, op=op, impl=e, model=g))
                    break
    diffs.sort(key=lambda d: d["case"])
    return diffs, total


# ---------------------------------------------------------------------------
# known findings, replays, evidence

def load_known():
    p = os.path.join(ROOT, "known_findings.json")
    try:
        return json.load(open(p))
    except FileNotFoundError:
        return {"findings": [], "fixed": []}


def write_replay(prop_id, payload):
    os.makedirs(REPLAYS, exist_ok=True)
    h = hashlib.sha256(json.dumps(payload, sort_keys=True, default=str).encode()).hexdigest()[:12]
    p = os.path.join(REPLAYS, f"{prop_id}-{h}.json")
    with open(p, "w") as f:
        json.dump(payload, f, indent=1, sort_keys=True, default=str)
    return p


def write_evidence(prop_id, ev):
    os.makedirs(EVID, exist_ok=True)
    p = os.path.join(EVID, prop_id + ".json")
    with open(p, "w") as f:
        json.dump(ev, f, indent=1, sort_keys=True, default=str)
    return p


def minimise(mod, case, signature, budget_s=10):
    """Delta-debug a failing case with the module's shrinker, if it has one."""
    shrink = getattr(mod, "shrink", None)
    if shrink is None:
        return case
    t0 = time.time()
    cur = case
    progress = True
    while progress and time.time() - t0 < budget_s:
        progress = False
        try:
            for cand in shrink(cur):
                if time.time() - t0 > budget_s:
                    break
                try:
                    r = mod.run_case(cand)
                except Exception:
                    continue
                if any(s == signature for s, _ in r.violations):
                    cur = cand
                    progress = True
                    break
        except Exception:
            # a shrinker that cannot handle this kind of case must not hide the finding: report it unshrunk
            break
    return cur


class CaseTimeout(BaseException):
    """not an Exception: harness code that plays the caller of the real code (`except Exception: go on`) must not swallow it"""


class case_timeout:
    """SIGALRM-based limit for one run of the real code (main thread only; a no-op elsewhere)"""

    def __init__(self, seconds):
        self.seconds = seconds
        self.armed = False

    def __enter__(self):
        import signal
        import threading
        if threading.current_thread() is threading.main_thread() and hasattr(signal, "setitimer"):
            def fire(signum, frame):
                raise CaseTimeout(f"one case ran for more than {self.seconds}s on the real code")
            self.old = signal.signal(signal.SIGALRM, fire)
            signal.setitimer(signal.ITIMER_REAL, self.seconds)
            self.armed = True
        return self

    def __exit__(self, *a):
        if self.armed:
            import signal
            signal.setitimer(signal.ITIMER_REAL, 0)
            signal.signal(signal.SIGALRM, self.old)
        return False


# ---------------------------------------------------------------------------
# the pipeline

def run_check(mod, tier="quick", seed=0, replay=None):
    t0 = time.time()
    pid = mod.ID
    if replay:
        return run_replay(mod, replay)
    log(f"[{pid}] tier={tier} seed={seed}")
    with build_lock():
        summary, err = extract()
        if summary is None:
            log(f"[{pid}] translator failed (cannot import the working tree):\n{err[-2000:]}")
            return 2
        log(f"[{pid}] extract: {summary['machines']} machines, {summary['transitions']} transitions, changed={summary['changed']}")
        for name, why in summary.get("failed_sections", []):
            log(f"[{pid}] translator could not regenerate WV.Gen.{name} from the working tree ({why}); it keeps its previous text and "
                f"WV.Props.Common.translator_covers_everything will not check")
        pr = prove(pid, COMMON_MODULES + list(mod.PROP_MODULES), extra_targets=tuple(["wvdriver"] + list(getattr(mod, "EXTRA_TARGETS", ()))),
                   native_ok=tuple(getattr(mod, "NATIVE_DECIDE_MODULES", ())))
    log(f"[{pid}] prove: build_ok={pr['build_ok']} driver_ok={pr['driver_ok']} theorems={len(pr['theorems'])} "
        f"forbidden={len(pr['forbidden'])} bad_axioms={len(pr['bad_axioms'])}")
    if tier == "thorough" and pr["build_ok"]:
        rk = recheck(COMMON_MODULES + list(mod.PROP_MODULES))
        pr["leanchecker"] = {k: rk[k] for k in ("ok", "modules", "seconds")}
        log(f"[{pid}] leanchecker: ok={rk['ok']} modules={len(rk['modules'])} in {rk['seconds']}s")
        if not rk["ok"]:
            pr["ok"] = False
            pr["build_ok"] = False
            pr["log"] += "\n--- leanchecker ---\n" + rk["log"]
    if not pr["ok"]:
        log(pr["log"][-3000:])
        for h in pr["forbidden"]:
            log("  forbidden token:", h)
        for n, a in pr["bad_axioms"].items():
            log("  non-standard axioms:", n, a)

    rng = random.Random(seed * 1000003 + 17)
    results = []
    cases = []
    harness_errors = []
    # A changed implementation may make a run of the real code very slow or endless (a loop that no longer ends, a
    # container that grows over all cases).  That is a broken tie ("could not observe the implementation"), not a reason
    # to hang: one case gets at most CASE_LIMIT seconds, all cases together RUN_LIMIT (about ten times what the
    # unchanged tree needs); what is left is skipped and reported.
    case_limit = int(os.environ.get("VERIF_CASE_LIMIT", "120" if tier == "quick" else "600"))
    run_limit = int(os.environ.get("VERIF_RUN_LIMIT", "420" if tier == "quick" else "3600"))
    t_cases = time.time()
    skipped = 0
    all_cases = list(mod.cases(rng, tier))
    for idx, case in enumerate(all_cases):
        if time.time() - t_cases > run_limit:
            skipped = len(all_cases) - idx
            harness_errors.append((case, f"TimeoutError: the cases did not finish within {run_limit}s ({skipped} of {len(all_cases)} not run)"))
            break
        try:
            with case_timeout(case_limit):
                r = mod.run_case(case)
        except (Exception, CaseTimeout) as e:  # the harness itself failed: infrastructure, not a verdict
            harness_errors.append((case, traceback.format_exc()))
            continue
        cases.append(case)
        results.append(r)
    if harness_errors:
        # The harness reads the implementation's objects directly; when it can no longer do so the
        # tie between model and code is broken for those cases (not an infrastructure verdict):
        # they are reported like disagreements and the failing-input search runs.
        log(f"[{pid}] harness could not observe the implementation in {len(harness_errors)} case(s); first:\n{harness_errors[0][1][-1200:]}")
        log(json.dumps(harness_errors[0][0], default=str)[:600])
    diffs = []
    model_lines = 0
    corr_ok = False
    corr_err = ""
    if pr["driver_ok"]:
        try:
            diffs, model_lines = correspond(getattr(mod, "MODEL", pid), results)
            corr_ok = not diffs
        except Exception as e:
            corr_err = str(e)
    else:
        corr_err = "driver did not build against the regenerated model"
    log(f"[{pid}] correspond: cases={len(results)} lines={model_lines} disagreements={len(diffs)} {corr_err}")

    violations = []  # (signature, message, case)
    for case, r in zip(cases, results):
        for sig, msg in r.violations:
            violations.append((sig, msg, case))

    if harness_errors:
        corr_ok = False
        corr_err = (corr_err + " " if corr_err else "") + f"harness could not observe the implementation in {len(harness_errors)} case(s): " + harness_errors[0][1].strip().splitlines()[-1][:200]
    tie_broken = (not pr["ok"]) or (not corr_ok)
    searched = 0
    known = load_known()
    known_sigs = {f["signature"]: f for f in known.get("findings", []) if f.get("property") == pid}
    if tie_broken and not any(s not in known_sigs for s, _, _ in violations) and hasattr(mod, "search"):
        # failing-input search on the real code with the property's oracle (DESIGN §5.3); listed
        # known findings do not end it
        budget = 60 if tier == "quick" else 600
        log(f"[{pid}] proof/correspondence broken: searching the real code for a failing input ({budget}s)…")
        seeds = [cases[d["case"]] for d in diffs[:20]]
        found = False
        it = iter(mod.search(rng, budget, seeds))
        while True:
            try:
                case, r = next(it)
            except StopIteration:
                break
            except Exception:
                # the harness cannot observe this implementation on some searched case: that is
                # part of the broken tie, not an infrastructure verdict; the search ends here
                log(f"[{pid}] failing-input search stopped by a harness exception:\n{traceback.format_exc()[-800:]}")
                break
            searched += 1
            for sig, msg in r.violations:
                violations.append((sig, msg, case))
                if sig not in known_sigs:
                    found = True
            if found:
                break

    new_viol = [(s, m, c) for (s, m, c) in violations if s not in known_sigs]
    old_viol = [(s, m, c) for (s, m, c) in violations if s in known_sigs]

    tags = {}
    for r in results:
        for t in r.tags:
            tags[t] = tags.get(t, 0) + 1
    distinct = len({json.dumps(r.info.get("trace", r.expect), default=str) for r in results if r.nontrivial})
    ev = {
        "property_id": pid,
        "tier": tier,
        "seed": seed,
        "level": "proof",
        "coverage": {
            "obligations": max(len(pr["theorems"]), 1) + 1,
            "discharged": (len(pr["theorems"]) if pr["ok"] else 0) + (1 if corr_ok else 0),
            "checker_cmd": "cd lean && lake build " + " ".join(COMMON_MODULES + list(mod.PROP_MODULES)) + " wvdriver && lake env lean WV/Audit/%s.lean" % pid,
            "trusted_base": sorted({a for ax in pr["axioms"].values() for a in ax}) + [
                "Lean 4.33 kernel", "tools/extract.py (translator)", "harness correspondence (differential, bounded by generators)"
            ] + list(getattr(mod, "TRUSTED", [])),
            "theorems": pr["theorems"],
            "axioms_per_theorem": pr["axioms"],
            "explanation": "obligations = property theorems in %s (each re-checked by lake against the regenerated Gen/*) + 1 correspondence obligation (model driver output == real code output on every generated operation line)" % ", ".join(mod.PROP_MODULES),
            "evaluations": len(results),
            "distinct_nontrivial": distinct,
            "rule": getattr(mod, "RULE", "cases from the property module's generators; distinct = distinct canonical output traces of non-trivial cases"),
            "samples": [dict(case=c, ops=r.lines[:6], impl=r.expect[:6]) for c, r in list(zip(cases, results))[:3]],
            "traces_validated_against_impl": len(results) - len({d['case'] for d in diffs}) if pr["driver_ok"] and not corr_err else 0,
            "disagreements_checked": len(diffs),
            "model_operation_lines": model_lines,
            "distribution": dict(sorted(tags.items())),
            "failing_input_search_cases": searched,
            "translator": summary,
        },
        "assumptions": list(getattr(mod, "TRUSTED", [])),
        "wall_s": round(time.time() - t0, 2),
        "violations": len(new_viol),
    }
    if "leanchecker" in pr:
        ev["coverage"]["leanchecker"] = pr["leanchecker"]
    extra = getattr(mod, "evidence_extra", None)
    if extra is not None:
        try:
            ev["coverage"].update(extra())
        except Exception as e:
            ev["coverage"]["evidence_extra_error"] = str(e)
    write_evidence(pid, ev)

    rc = 0
    for s, m, c in old_viol[:1] if False else []:
        pass
    seen = set()
    for s, m, c in old_viol:
        if s in seen:
            continue
        seen.add(s)
        log(f"KNOWN-FINDING: property={pid} {s} {known_sigs[s].get('what', m)}")
    if new_viol:
        s, m, c = new_viol[0]
        c = minimise(mod, c, s)
        path = write_replay(pid, dict(property=pid, kind="failing-input", signature=s, message=m, case=c,
                                      proof_ok=pr["ok"], correspondence_ok=corr_ok))
        log(f"[{pid}] oracle violated on the real code: {s}: {m[:400]}")
        log(f"VIOLATION property={pid} replay={path}")
        rc = 1
    elif tie_broken:
        broken = []
        if not pr["build_ok"]:
            errs = sorted(set(re.findall(r"error: ([\w./]+\.lean):(\d+)", pr["log"])))
            where = ", ".join(f"{f}:{l}" for f, l in errs[:4])
            broken.append("lake build " + " ".join(COMMON_MODULES + list(mod.PROP_MODULES))
                          + " (a theorem no longer checks against the regenerated model" + (": " + where if where else "") + ")")
        if pr["forbidden"]:
            broken.append("forbidden tokens: " + "; ".join(pr["forbidden"][:3]))
        if pr["bad_axioms"]:
            broken.append("non-standard axioms: " + json.dumps(pr["bad_axioms"]))
        if not corr_ok:
            broken.append("correspondence: " + (corr_err or json.dumps(diffs[0])))
        path = write_replay(pid, dict(property=pid, kind="no-failing-input-found", broken=broken,
                                      build_log_tail=pr["log"][-4000:], first_disagreements=diffs[:5],
                                      disagreeing_cases=[cases[d["case"]] for d in diffs[:5]],
                                      search_cases=searched))
        for b in broken:
            log(f"[{pid}] no longer checks: {b[:400]}")
        log(f"VIOLATION property={pid} replay={path} no-failing-input-found")
        rc = 1
    log(f"[{pid}] done in {ev['wall_s']}s rc={rc}")
    return rc


def run_replay(mod, path):
    payload = json.load(open(path))
    case = payload.get("case")
    if case is None:
        log(json.dumps(payload, indent=1)[:4000])
        cs = payload.get("disagreeing_cases") or []
        if not cs:
            return 0
        case = cs[0]
    r = mod.run_case(case)
    log("case:", json.dumps(case, default=str)[:2000])
    try:
        out = run_driver(r.info.get("model", getattr(mod, "MODEL", mod.ID)), ["reset"] + r.lines)[1:]
    except Exception as e:
        out = ["<driver unavailable: %s>" % e] * len(r.lines)
    for op, e, g in zip(r.lines, r.expect, out):
        mark = " " if e == g else "!"
        log(f"{mark} op    {op[:200]}\n{mark} impl  {e[:300]}\n{mark} model {g[:300]}")
    for s, m in r.violations:
        log(f"oracle: {s}: {m}")
    return 1 if r.violations else 0


def load_prop(pid):
    sys.path.insert(0, ROOT)
    return importlib.import_module("harness.props." + pid.lower())
