"""Harness worlds: drive the REAL magic-wormhole code in-process, deterministically."""
from twisted.logger import globalLogBeginner

# Twisted prints log.err() to stderr until logging is begun; the harness records what it needs.
LOGGED = []


def _observer(event):
    if event.get("isError") or event.get("log_failure") is not None:
        LOGGED.append(event)
        if len(LOGGED) > 1000:
            del LOGGED[:500]


try:
    globalLogBeginner.beginLoggingTo([_observer], redirectStandardIO=False, discardBuffer=True)
except Exception:  # already begun (e.g. under pytest)
    pass
