"""Small helpers shared by the harness worlds."""
from automat._methodical import _transitionerFromInstance


def automat_state(obj, attr="m"):
    """Name of the current Automat state of `obj` (machine stored as class attribute `attr`)."""
    mm = getattr(type(obj), attr)
    return _transitionerFromInstance(obj, mm._symbol, mm._automaton)._state.method.__name__


def set_automat_state(obj, name, attr="m"):
    mm = getattr(type(obj), attr)
    tr = _transitionerFromInstance(obj, mm._symbol, mm._automaton)
    for s in mm._automaton.states():
        if s.method.__name__ == name:
            tr._state = s
            return
    raise KeyError(name)
