"""Direct drive: one REAL client fed frame by frame from an abstract event trace (the line syntax of the
CLIENT driver / of `wvsearch`).  Used by the failing-input search of the mailbox-world properties: when a
proof obligation or the correspondence breaks, `wvsearch` looks for a shortest unsafe trace of the
regenerated model, and this module replays it on the real code with a shadow peer that holds real
SPAKE2 / SecretBox state, so a model-level counterexample becomes a concrete replay (or is discarded if
the real code does not misbehave on it)."""
import json
import os
import random
import subprocess
from unittest import mock

from spake2 import SPAKE2_Symmetric
from twisted.internet import defer
from twisted.internet.task import Clock
from twisted.python import failure

import wormhole
from wormhole import _rendezvous
from wormhole._key import derive_phase_key, encrypt_data
from wormhole.eventual import EventualQueue
from wormhole.util import bytes_to_dict, dict_to_bytes, to_bytes

from .core import LEAN
from .mailbox_corr import Observer, exn_name, DOCUMENTED
from .worlds.mailbox import FakeService, Delegate, Client, APPID, MACHINES
from .util import automat_state

SEARCH = os.path.join(LEAN, ".lake", "build", "bin", "wvsearch")
CODE = "4-purple-sausages"


def model_search(mode="", limit=3000000, timeout=600):
    """runs wvsearch on the current (regenerated) model; returns (states, header, [event lines])"""
    r = subprocess.run([SEARCH, str(limit)] + ([mode] if mode else []), capture_output=True, text=True, timeout=timeout)
    lines = r.stdout.strip().splitlines()
    states = None
    header = None
    trace = []
    for l in lines:
        if l.startswith("states "):
            states = int(l.split()[1])
        elif l.startswith("transitions ") or l.startswith("not-closable") or l.startswith("  "):
            continue
        elif l.startswith("unsafe"):
            header = l
        elif header and not header.startswith("unsafe none"):
            trace.append(l)
    return states, header, trace


class _World:
    """just enough of worlds.mailbox.World for a single client"""

    def __init__(self, seed):
        self.clock = Clock()
        self.rng = random.Random(seed)
        self.sent = {0: []}

    def _urandom(self, n):
        return bytes(self.rng.randrange(256) for _ in range(n))


class _Conn:
    def __init__(self, client):
        self.client = client
        self.c2s = _Q(client)
        self.s2c = []


class _Q(list):
    def __init__(self, client):
        super().__init__()
        self.client = client


class _WS:
    def __init__(self, direct):
        self.d = direct

    def sendMessage(self, payload, isBinary):
        if getattr(self.d, "closing", False):
            from autobahn.exception import Disconnected
            raise Disconnected("Attempt to send on a closed protocol")
        m = bytes_to_dict(payload)
        self.d.sent.append(m)
        self.d.client.log.append(("tx", m))


def pake_variants():
    """the bodies an abstract `nofield` / `invalid` PAKE event is concretised with, one list per class; variant 0 is the
    historical one, the others make each statement of the parsing raise each of its exception classes"""
    from .mailbox_corr import unusable_pake_bodies, pake_stage
    nofield, invalid = [b"{}"], [dict_to_bytes({"pake_v1": "53" + "ff" * 32})]
    for k, b in sorted(unusable_pake_bodies().items()):
        st = pake_stage(b)[0]
        if st == "finish":
            invalid.append(b)
        elif st != "accepted":
            nofield.append(b)
    nofield += [b"\xff\xfe", b"[]", b'{"pake_v1": 5}', b'{"pake_v1": "zz"}', b"[" * 5000]
    invalid += [b'{"pake_v1": "00"}', dict_to_bytes({"pake_v1": "53" + "02" + "00" * 31}), "REFLECT"]
    return nofield, invalid


class Direct:
    def __init__(self, match=True, seed=0, variant=0):
        self.match = match
        self.variant = variant
        self.W = _World(seed)
        self.sent = []
        self.patches = [mock.patch.object(_rendezvous.internet, "ClientService", FakeService),
                        mock.patch("os.urandom", self.W._urandom)]

    def __enter__(self):
        for p in self.patches:
            p.start()
        self.client = Client(self.W, 0, True)
        self.c = self.client
        self.W.clients = [self.client]
        self.peer = SPAKE2_Symmetric(to_bytes(CODE if self.match else "4-wrong-words"), idSymmetric=to_bytes(APPID))
        self.peer_msg = self.peer.start()
        self.peer_key = None
        self.open = False
        self.nrx = 0
        return self

    def __exit__(self, *a):
        for p in self.patches:
            p.stop()
        return False

    # ---- frames
    def _frame(self, **kw):
        return dict_to_bytes(kw)

    def _our(self, phase):
        for m in reversed(self.sent):
            if m.get("type") == "add" and m.get("phase") == phase:
                return m
        return None

    def _peer_body(self, phase, good):
        if self.peer_key is None:
            ours = self._our("pake")
            if ours is not None:
                try:
                    el = bytes.fromhex(bytes_to_dict(bytes.fromhex(ours["body"]))["pake_v1"])
                    self.peer_key = self.peer.finish(el)
                except Exception:
                    self.peer_key = None
        if good and self.peer_key is not None:
            pt = dict_to_bytes({}) if phase == "version" else b"msg-" + phase.encode()
            return encrypt_data(derive_phase_key(self.peer_key, "peerside", phase), pt)
        return bytes(self.W.rng.randrange(256) for _ in range(60))

    def event(self, line):
        """apply one abstract event line; returns canonical outcome ('ok', 'api:…', 'internal:…', 'skip')"""
        c = self.client
        w = c.w
        t = line.split()
        try:
            if t[0] == "setcode":
                w.set_code(CODE if t[1] == "1" else "4 purple")
            elif t[0] == "allocate":
                w.allocate_code(2)
            elif t[0] == "inputcode":
                c.helper = w.input_code()
            elif t[0] == "h":
                h = c.helper
                if h is None:
                    return "skip"
                if t[1] == "refresh":
                    h.refresh_nameplates()
                elif t[1] == "npc":
                    h.get_nameplate_completions("")
                elif t[1] == "choosenp":
                    h.choose_nameplate("4" if t[2] == "1" else "x4")
                elif t[1] == "wc":
                    h.get_word_completions("pur")
                elif t[1] == "choosewords":
                    h.choose_words("purple-sausages")
            elif t[0] == "send":
                w.send_message(b"data")
            elif t[0] == "close":
                w.close()
            else:
                return self._env(t)
            return "ok"
        except Exception as e:
            nm = exn_name(e)
            if type(e).__name__ in DOCUMENTED:
                return "api:" + nm
            c.internal.append((type(e).__name__, "api " + line, nm))
            return "internal:" + nm

    def _env(self, t):
        c = self.client
        rc = c.rc

        def guard(f):
            try:
                f()
                return "ok"
            except Exception as e:
                nm = exn_name(e)
                c.internal.append((type(e).__name__, " ".join(t), nm))
                return "internal:" + nm
        k = t[0]
        if k == "wsclosing":
            if not self.open:
                return "skip"
            self.closing = True
            return "ok"
        if k == "tcpup":
            if self.open or c.tcp or not c.svc.started:
                return "skip"
            c.tcp = True
            for d in c.svc.when_connected:
                if not d.called:
                    d.callback(None)
            return "ok"
        if k == "open":
            if self.open or not c.svc.started:
                return "skip"
            c.tcp = False
            self.open = True
            c.conn = object()
            for d in c.svc.when_connected:
                if not d.called:
                    d.callback(None)
            return guard(lambda: rc.ws_open(_WS(self)))
        if k == "drop":
            if not self.open:
                return "skip"
            self.open = False
            self.closing = False
            c.conn = None
            return guard(lambda: rc.ws_close(False, 1006, "dropped"))
        if k == "wsfail":
            if self.open or not c.svc.started:
                return "skip"
            c.tcp = False
            return guard(lambda: rc.ws_close(False, 1006, "handshake failed"))
        if k == "failinitial":
            fired = False
            for d in c.svc.when_connected:
                if not d.called:
                    d.errback(failure.Failure(ConnectionRefusedError("refused")))
                    fired = True
            if not fired:
                return "skip"
            return guard(lambda: self.W.clock.advance(0))
        if k == "svcstopped":
            d = c.svc.stopping
            if d is None or d.called:
                return "skip"
            r = "ok"
            if self.open:
                self.open = False
                c.conn = None
                r = guard(lambda: rc.ws_close(True, 1000, "stopped"))
            elif c.tcp:
                r = guard(lambda: rc.ws_close(False, 1006, "stopped during handshake"))
                c.tcp = False
            def fire():
                for w_ in list(getattr(c.svc, "stop_waiters", [d])):
                    if not w_.called:
                        w_.callback(None)
            r2 = guard(fire)
            return r2 if r2 != "ok" else r
        if not self.open:
            return "skip"
        fr = None
        if k == "welcome":
            fr = self._frame(type="welcome", welcome=({"error": "please upgrade"} if t[1] == "1" else {}))
        elif k == "claimed":
            fr = self._frame(type="claimed", mailbox="mbox1")
        elif k == "released":
            fr = self._frame(type="released")
        elif k == "closed":
            fr = self._frame(type="closed")
        elif k == "allocated":
            fr = self._frame(type="allocated", nameplate="4")
        elif k == "nameplates":
            fr = self._frame(type="nameplates", nameplates=[{"id": "4"}])
        elif k == "error":
            fr = self._frame(type="error", error="crowded", orig={})
        elif k == "ack":
            fr = self._frame(type="ack", id="00")
        elif k == "msg":
            side, ph, new, good = t[1], t[2], t[3] == "1", t[4] == "1"
            if ph == "num":
                self.nrx += 1 if new else 0
                phase = str(max(self.nrx - 1, 0))
            elif ph == "dilate":
                phase = "dilate-0"
            elif ph == "other":
                phase = "foo"
            else:
                phase = ph
            if side == "ours":
                m = self._our(phase) or self._our("0")
                if m is None:
                    return "skip"
                fr = self._frame(type="message", side=c.side, phase=m["phase"], body=m["body"], id="aa")
            else:
                if phase == "pake":
                    pk = t[5] if len(t) > 5 else "good"
                    if pk in ("nofield", "invalid"):
                        bodies = pake_variants()[0 if pk == "nofield" else 1]
                        body = bodies[self.variant % len(bodies)]
                        if body == "REFLECT":
                            ours = self._our("pake")
                            body = bytes.fromhex(ours["body"]) if ours is not None else b"{}"
                    elif good or not self.match:
                        body = dict_to_bytes({"pake_v1": self.peer_msg.hex()})
                    else:       # a stranger's well-formed element
                        body = dict_to_bytes({"pake_v1": SPAKE2_Symmetric(b"9-stranger", idSymmetric=b"x").start().hex()})
                else:
                    body = self._peer_body(phase, good)
                fr = self._frame(type="message", side="peerside", phase=phase, body=body.hex(), id="bb")
        if fr is None:
            return "skip"
        return guard(lambda: rc.ws_message(fr))


def replay_trace(lines, match=True, seed=0, variant=0):
    """replays an abstract trace on a real client; returns a summary like mailbox_corr.summarize"""
    with Direct(match=match, seed=seed, variant=variant) as D:
        outcomes = []
        for l in lines:
            outcomes.append((l, D.event(l)))
        c = D.client
        return dict(events=list(c.events), internal=list(c.internal), outcomes=outcomes,
                    states={k: v for k, v in c.states().items()})
