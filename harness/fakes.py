"""Stand-ins used by the harness worlds (never part of /repo)."""
from zope.interface import implementer
from twisted.internet.interfaces import ITransport, IConsumer
from wormhole._dilation._noise import NoiseInvalidMessage


def toy_tag(n, m):
    """16-byte toy MAC over (nonce, message): detects any single-byte change of m"""
    return bytes([(n * 7 + sum(m) + len(m)) % 256]) * 16


class ToyNoise:
    """Same toy AEAD as `WV.C12.toyNoise`: enc n m = m ++ tag(n, m); dec checks and strips the tag.
    Nonces count per direction like Noise's CipherState.  Handshake message is b"hs"."""

    HS = b"hs"

    def __init__(self):
        self.tx = 0
        self.rx = 0
        self.log = []

    def start_handshake(self):
        self.log.append("start_handshake")

    def set_psks(self, psk):
        self.psk = psk

    def set_as_initiator(self):
        self.initiator = True

    def set_as_responder(self):
        self.initiator = False

    def write_message(self):
        return self.HS

    def read_message(self, frame):
        if frame != self.HS:
            raise NoiseInvalidMessage("bad handshake")
        return b""

    def encrypt(self, m):
        c = m + toy_tag(self.tx, m)
        self.tx += 1
        return c

    def decrypt(self, c):
        if len(c) < 16 or c[-16:] != toy_tag(self.rx, c[:-16]):
            raise NoiseInvalidMessage("bad tag")
        self.rx += 1
        return c[:-16]


@implementer(ITransport, IConsumer)
class FakeTransport:
    def __init__(self):
        self.written = []
        self.lost = 0
        self.producer = None

    def write(self, data):
        self.written.append(bytes(data))

    def loseConnection(self):
        self.lost += 1

    def registerProducer(self, p, streaming):
        self.producer = (p, streaming)

    def unregisterProducer(self):
        self.producer = None

    def getPeer(self):
        return "peer"

    def getHost(self):
        return "host"


def hx(b):
    return b.hex() if b else "-"
