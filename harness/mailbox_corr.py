"""Shared by the mailbox-world properties (C08, C09, C14, C18): guided random schedules in the
mailbox World, translation of what happens to client 0 into event lines for the Lean `CLIENT`
model (control + data layer), and the canonical per-step observation of the real client."""
import json
import random
import re

from automat import NoTransition

from wormhole._key import derive_phase_key, decrypt_data, CryptoError
from wormhole.util import bytes_to_dict, dict_to_bytes

from .worlds.mailbox import World, MACHINES, big_body

WORDS = ["purple-sausages", "acrobat-seabird", "tiger-unicorn"]


def hx(s):
    return s.encode("utf8").hex() if s else "-"


def exn_name(e):
    if isinstance(e, NoTransition):
        try:
            q = e.symbol.method.__qualname__.split(".")[0]
            return f"NoTransition({q}.{e.state.method.__name__}.{e.symbol.method.__name__})"
        except Exception:
            return "NoTransition(?)"
    return type(e).__name__


DOCUMENTED = {"OnlyOneCodeError", "KeyFormatError", "MustChooseNameplateFirstError", "AlreadyChoseNameplateError",
              "AlreadyChoseWordsError"}


def readable(cl):
    """frames queued for this client can be delivered now: connected, something queued, Twisted still reading
    (no stopService() pending) and the websocket not in its closing handshake"""
    return (cl.conn is not None and bool(cl.conn.s2c) and not (cl.svc.stopping is not None and not cl.svc.stopping.called)
            and not getattr(cl.conn, "closing", False))


class Observer:
    """Watches client `ci` of a World and produces (model line, expected line) per op."""

    def __init__(self, world, ci=0):
        self.W = world
        self.ci = ci
        self.c = world.clients[ci]
        self.lines = []
        self.expect = []
        self.nlog = 0
        self.tags = set()
        self.hist = dict(good=False, bad=False, server_error=False, welcome_error=False)
        self.at_closed = None      # snapshot taken when client `ci` notified `closed`
        self._stash = []
        self._prev_st = self.c.states()

    def states(self):
        st = self.c.states()
        return " ".join(f"{k}={st[k]}" for k, _ in MACHINES)

    def outputs(self):
        out = []
        for ent in self.c.log[self.nlog:]:
            if ent[0] == "tx":
                m = ent[1]
                t = m["type"]
                if t == "add":
                    out.append("tx:add:" + m["phase"])
                elif t == "close":
                    out.append("tx:close:" + str(m.get("mood")))
                else:
                    out.append("tx:" + t)
            elif ent[0] == "ev":
                name, val = ent[1], ent[2]
                if name == "message":
                    out.append("ev:received")
                elif name == "closed":
                    v = val
                    if v not in ("happy", "LonelyError", "WrongPasswordError", "ServerError", "WelcomeError",
                                 "ServerConnectionError"):
                        v = "internal"
                    out.append("ev:closed:" + v)
                else:
                    out.append("ev:" + name)
            elif ent[0] == "stopService":
                out.append("stopService")
        self.nlog = len(self.c.log)
        return " ".join(out)

    def pake_kind(self, body):
        """good: parses and SPAKE2 accepts the element; nofield: no usable `pake_v1` (not UTF-8, not JSON, not an object,
        missing, not a string, not ASCII, not hex — whatever the statement that fails raises); invalid: SPAKE2 rejects the
        element (side byte, empty, not on the curve, zero / wrong subgroup, our own reflected).  The statements of
        got_pake / bytes_to_dict / hexstr_to_bytes are re-walked here with the standard library only, and every delivered
        body is tagged `pake-raise:<statement>:<exception class>` for the evidence."""
        stage, exc = pake_stage(body, getattr(self.c.boss._K._SK, "_sp", None))
        if "pake" not in self.c.boss._M._processed:
            self.tags.add("pake-raise:%s:%s" % (stage, exc))
        return "good" if stage == "accepted" else "invalid" if stage == "finish" else "nofield"

    def classify_frame(self, payload):
        """server→client frame → model event line"""
        m = bytes_to_dict(payload)
        t = m.get("type")
        if t == "welcome":
            return "welcome %d" % (1 if "error" in m.get("welcome", {}) else 0)
        if t in ("claimed", "released", "closed", "allocated", "nameplates", "ack", "error"):
            return t
        if t == "message":
            side = "ours" if m["side"] == self.c.side else "theirs"
            phase = m["phase"]
            body = bytes.fromhex(m["body"])
            good = 1
            pk = "good"
            honest = any(m["side"] == cl.side for cl in self.W.clients)
            if phase == "pake":
                pk = self.pake_kind(body) if side == "theirs" else "good"     # our own echo is never handed to Key
                good = 1 if pk == "good" else 0
            else:
                key = self.c.boss._R._key
                if key is not None:
                    try:
                        decrypt_data(derive_phase_key(key, m["side"], phase), body)
                    except Exception:     # CryptoError at HEAD; whatever the implementation raises, it did not open
                        good = 0
                else:
                    # no key yet: whether it will open under the key the holder of our code computes is
                    # all that can be said now — bytes posted by anybody else never will
                    good = 1 if honest else 0
            if side == "theirs" and automat_state_of(self.c, "_M") == "S2B" and phase not in self.c.boss._M._processed:
                if phase != "pake" and self.c.boss._R._key is None and automat_state_of(self.c, "_O") == "S0_no_pake":
                    self._stash.append((m["side"], phase, body, honest))   # waits in Order until the PAKE arrives
            return f"msg {side} {hx(phase)} {good} {pk}"
        return None

    def record(self, line, outcome):
        self.lines.append(line)
        before = self.c.states()
        self.expect.append(f"{outcome} | {self.states()} | {self.outputs()}")
        self._history(line, before)
        if self._stash and automat_state_of(self.c, "_O") != "S0_no_pake":
            self._stash = []

    def _history(self, line, st):
        """independent bookkeeping for the oracles (what the environment did to this client)"""
        c = self.c
        closing = st["B"] in ("S3_closing", "S4_closed")
        prev = self._prev_st
        self._prev_st = st
        # something a participant posted was found unusable in this step (it may have been stashed or queued
        # earlier): Receive scared, a PAKE without a usable pake_v1, or an element SPAKE2 rejected
        scared_now = ((prev["SK"] != "S3_scared" and st["SK"] == "S3_scared")
                      or (prev["R"] != "S3_scared" and st["R"] == "S3_scared")
                      or (prev["SK"] != "S2_know_key" and st["SK"] == "S2_know_key" and c.boss._R._key is None))
        if scared_now:
            self.hist["bad"] = True
        if prev["R"] != "S2_verified_key" and st["R"] == "S2_verified_key":
            self.hist["good"] = True
        if line == "error" and not self._was_closing:
            self.hist["server_error"] = True
        if line == "welcome 1" and not self._was_closing:
            self.hist["welcome_error"] = True
        # the first thing after which the wormhole is closing decides the verdict it must report
        if closing and not self._was_closing and "cause" not in self.hist:
            if line == "welcome 1":
                self.hist["cause"] = "WelcomeError"
            elif line == "error":
                self.hist["cause"] = "ServerError"
            elif line == "close":
                self.hist["cause"] = "happy" if self.hist["good"] and not self.hist["bad"] else "LonelyError"
            elif line in ("failinitial", "wsfail"):
                self.hist["cause"] = "ServerConnectionError"
            elif scared_now:
                self.hist["cause"] = "WrongPasswordError"
            else:
                self.hist["cause"] = "?" + line
        # … and a cause delivered to a wormhole that is not yet closing must make it start closing
        if not self._was_closing and not closing:
            if line == "welcome 1":
                self.hist.setdefault("ignored", "welcome error")
            elif line == "error":
                self.hist.setdefault("ignored", "server error frame")
        self._was_closing = closing
        if self.at_closed is None and any(n == "closed" for n, v in c.events):
            self.at_closed = dict(server=self.W.server_facts(), connected=c.conn is not None,
                                  terminator=st["T"], side=c.side,
                                  opened_by_client=sorted({m["mailbox"] for m in self.W.sent[self.ci] if m.get("type") == "open"}),
                                  sent_types=[m.get("type") for m in self.W.sent[self.ci]],
                                  close_moods=[m.get("mood") for m in self.W.sent[self.ci] if m.get("type") == "close"],
                                  claimed_names=sorted({m.get("nameplate") for m in self.W.sent[self.ci] if m.get("type") == "claim"}))

    _was_closing = False

    # ---- ops on the observed client -------------------------------------------
    def do(self, op):
        """execute a world op; if it concerns the observed client, record a model line"""
        W, c, ci = self.W, self.c, self.ci
        k = op[0]
        if k == "server_welcome_error":
            return W.server_welcome_error(op[1])
        if k == "msgid_collide":
            # the two random bytes of a message id come out equal from now on with probability op[1]
            W.msgid_collide = op[1]
            return "ok"
        if k == "pump":
            return self.pump()
        if k == "finish":
            # cooperative completion (no close() of its own): connections come back, everything owed is delivered,
            # pending stopService() calls complete
            finish(W, self, [], do_close=False)
            return "ok"
        if k != "settle" and len(op) > 1 and op[1] != ci:
            return W.do(op)
        n_int = len(c.internal)
        if k == "api":
            name = op[2]
            line = None
            if name == "set_code":
                code = op[3]
                valid = (" " not in code) and re.fullmatch(r"[0-9]+", code.split("-", 2)[0]) is not None
                line = "setcode %d" % (1 if valid else 0)
            elif name == "allocate_code":
                line = "allocate"
            elif name == "input_code":
                line = "inputcode"
            elif name == "send":
                line = "send"
            elif name == "close":
                line = "close"
            elif name == "refresh_nameplates":
                line = "h refresh"
            elif name == "get_nameplate_completions":
                line = "h npc"
            elif name == "choose_nameplate":
                line = "h choosenp %d" % (1 if re.fullmatch(r"[0-9]+", op[3]) else 0)
            elif name == "get_word_completions":
                line = "h wc"
            elif name == "choose_words":
                line = "h choosewords"
            r = self._api(op)
            if line is not None:
                self.record(line, r)
            return r
        if k == "s2c":
            if not readable(c):
                return "noop"
            line = self.classify_frame(c.conn.s2c[0])
            had_key = c.boss._R._key is not None
            stash = list(self._stash)
            r = W.s2c(ci)
            if line is not None:
                if line.startswith("msg theirs 70616b65 ") and not had_key and c.boss._R._key is not None and stash:
                    # whether the messages queued in Order open under the key this PAKE produced
                    # does the key this PAKE produced open what the holder of our code had queued?
                    ok = True
                    for (sd, ph, body, honest) in stash:
                        if not honest:
                            continue
                        try:
                            decrypt_data(derive_phase_key(c.boss._R._key, sd, ph), body)
                        except Exception:     # CryptoError at HEAD; whatever the implementation raises, it did not open
                            ok = False
                    parts = line.split(" ")
                    parts[3] = "1" if ok else "0"
                    line = " ".join(parts)
                self.record(line, self._outcome(r, n_int))
            return r
        if k in ("open", "drop", "svc_stopped", "fail_initial", "ws_fail", "tcp_up", "ws_closing"):
            r = W.do(op)
            if r != "noop":
                line = {"open": "open", "drop": "drop", "svc_stopped": "svcstopped", "fail_initial": "failinitial",
                        "ws_fail": "wsfail", "tcp_up": "tcpup", "ws_closing": "wsclosing"}[k]
                self.record(line, self._outcome(r, n_int))
            return r
        if k == "inject" and op[4] == "REFLECT":
            mine = [m for m in W.sent[ci] if m.get("type") == "add" and m.get("phase") == "pake"]
            return W.do(["inject", op[1], op[2], op[3], mine[0]["body"] if mine else "7b7d"])
        return W.do(op)

    def pump(self, rounds=60):
        """deliver everything that is queued, for every client, as ordinary (recorded) ops, until quiescent"""
        W = self.W
        for _ in range(rounds):
            moved = False
            for cl in W.clients:
                i = cl.index
                if cl.conn is not None and cl.conn.c2s:
                    self.do(["c2s", i])
                    moved = True
                if readable(cl):
                    self.do(["s2c", i])
                    moved = True
                if W.pending_turn(cl.index):
                    self.do(["turn", i])
                    moved = True
            if not moved:
                return

    def _outcome(self, r, n_int):
        c = self.c
        if len(c.internal) > n_int:
            return "internal:" + c.internal[n_int][2]
        return "ok"

    def _api(self, op):
        """like World.api but keeps the exception object for canonical naming"""
        c = self.c
        w = c.w
        name, args = op[2], op[3:]
        try:
            if name == "set_code":
                w.set_code(args[0])
            elif name == "allocate_code":
                w.allocate_code(*args)
            elif name == "input_code":
                c.helper = w.input_code()
            elif name == "send":
                w.send_message(big_body(args[0]))
            elif name == "close":
                w.close()
            else:
                getattr(c.helper, name)(*args)
            return "ok"
        except Exception as e:
            nm = exn_name(e)
            if type(e).__name__ in DOCUMENTED:
                c.api_errors.append((name, nm))
                return "api:" + nm
            c.api_errors.append((name, nm))
            c.internal.append((type(e).__name__, "api " + name, nm))
            return "internal:" + nm


def pake_stage(body, sp=None):
    """which statement of _SortedKey.got_pake / bytes_to_dict / hexstr_to_bytes / SPAKE2.finish raises what on this PAKE
    body: (statement, exception class name), or ("accepted", "-").  `sp`: the client's own SPAKE2 state."""
    import binascii
    import copy
    try:
        s = body.decode("utf-8")
    except Exception as e:
        return "decode", type(e).__name__
    try:
        d = json.loads(s)
    except Exception as e:
        return "loads", type(e).__name__
    if not isinstance(d, dict):
        return "isdict", "AssertionError"
    try:
        v = d["pake_v1"]
    except Exception as e:
        return "index", type(e).__name__
    if not isinstance(v, str):
        return "isstr", "AssertionError"
    try:
        a = v.encode("ascii")
    except Exception as e:
        return "ascii", type(e).__name__
    try:
        el = binascii.unhexlify(a)
    except Exception as e:
        return "unhexlify", type(e).__name__
    if sp is not None:
        probe = copy.deepcopy(sp)
    else:
        from spake2 import SPAKE2_Symmetric
        probe = SPAKE2_Symmetric(b"probe", idSymmetric=b"probe")
        probe.start()
    try:
        probe.finish(el)
    except Exception as e:
        msg = str(e)
        what = ("zero" if "was Zero" in msg else "wrong-group" if "right group" in msg else "empty" if "invalid literal" in msg
                else "side" if isinstance(e, AssertionError) or "Symmetric" in msg else "")
        return "finish", type(e).__name__ + (":" + what if what else "")
    return "accepted", "-"


def unusable_pake_bodies():
    """one PAKE body per (statement, exception class) of the key exchange's parsing — see harness/props/c14.py
    (`pake_bodies`) for the complete table; these are the representatives the shared walks and the shared corpus draw from"""
    st = "53b2effba026fbcce2ce2add2c9d604e3abf304286e7eedea56686b548896640c0"        # a valid element of a stranger

    def J(h):
        return ('{"pake_v1": "%s"}' % h).encode("ascii")
    return {"hugeint": b'{"pake_v1": ' + b"1" * 5000 + b"}",                       # json.loads: plain ValueError (digit limit)
            "hugeint-elsewhere": b'{"x": ' + b"7" * 5000 + b', "pake_v1": "00"}',
            "bom": b"\xef\xbb\xbf" + J("00"), "emptybody": b"",                     # JSONDecodeError
            "null": b'{"pake_v1": null}', "nan": b'{"pake_v1": NaN}', "topstring": b'"pake_v1"',
            "nonascii": b'{"pake_v1": "\\u00e9\\u00e9"}',                            # hexstr.encode("ascii"): UnicodeEncodeError
            "surrogate": b'{"pake_v1": "\\ud800"}', "fullwidth": '{"pake_v1": "\uff10\uff10"}'.encode("utf-8"),
            "oddhex": J("000"), "hexspace": J("00 00"),                              # binascii.Error
            "deepvalue": b'{"pake_v1": ' + b"[" * 100000 + b"]" * 100000 + b"}",     # RecursionError
            "emptyelement": J(""), "sideA": J("41" + st[2:]), "sideonly": J("53"),   # finish(): assert / OffSides / int("")
            "zero": J("5301" + "00" * 31), "order4": J("53" + "00" * 32),
            "order8": J("5326e8958fc2b227b045c3f489f2ef98f0d5dfac05d3c63339b13802886d53fc05"),
            "trailing": J(st + "0001"), "identity": J("5301")}                       # accepted by SPAKE2: a stranger's key


def automat_state_of(client, attr):
    from .util import automat_state
    return automat_state(getattr(client.boss, attr))


def finish(W, ob, ops, do_close=True, rounds=6):
    """cooperative completion: the application closes (if it has not), the network heals, every
    owed answer is delivered.  Recorded as ordinary ops."""
    def emit(op):
        ops.append(op)
        return ob.do(op)
    c0 = W.clients[0]
    # first let everybody catch up: connections come back, queued frames of every client are delivered
    for _ in range(rounds * 40):
        progressed = False
        for cl in W.clients:
            i = cl.index
            if cl.conn is not None and getattr(cl.conn, "closing", False):
                emit(["drop", i])              # a closing websocket finally goes away
                progressed = True
            if cl.conn is None and cl.svc.started and cl.svc.stopping is None:
                emit(["open", i])
                progressed = True
            if cl.conn is not None and cl.conn.c2s:
                emit(["c2s", i])
                progressed = True
            if readable(cl):
                emit(["s2c", i])
                progressed = True
            if cl.svc.stopping is not None and not cl.svc.stopping.called:
                emit(["svc_stopped", i])
                progressed = True
            if W.pending_turn(cl.index):
                emit(["turn", i])
                progressed = True
        if not progressed:
            break
    if do_close and not any(op[:3] == ["api", 0, "close"] for op in ops):
        emit(["api", 0, "close"])
    for _ in range(rounds * 40):
        progressed = False
        if c0.conn is not None and getattr(c0.conn, "closing", False):
            emit(["drop", 0])
            progressed = True
        if c0.conn is None and c0.svc.started:
            emit(["open", 0])
            progressed = True
        if c0.conn is not None and c0.conn.c2s:
            emit(["c2s", 0])
            progressed = True
        if readable(c0):
            emit(["s2c", 0])
            progressed = True
        if c0.svc.stopping is not None and not c0.svc.stopping.called:
            emit(["svc_stopped", 0])
            progressed = True
        if W.pending_turn(0):
            emit(["turn", 0])
            progressed = True
        if not progressed:
            break


def patch_world_internal_names(world):
    """make World._guard keep canonical exception names (NoTransition details)"""
    def _guard(c, f):
        try:
            f()
            return None
        except Exception as e:  # noqa
            nm = exn_name(e)
            c.internal.append((type(e).__name__, str(e)[:200], nm))
            return nm
    world._guard = _guard


# ---------------------------------------------------------------------------
# guided random schedules

PROFILES = ["set", "allocate", "input", "set-mismatch", "lonely", "welcome-error", "crowded", "fail-initial",
            "late-peer", "drops", "welcome-error-later", "third", "third-alone", "server-error"]


def summarize(W, ob):
    c0 = W.clients[0]
    return dict(events=list(c0.events), internal=list(c0.internal), api_errors=list(c0.api_errors),
                states=c0.states(), hist=dict(ob.hist), at_closed=ob.at_closed, connected=c0.conn is not None,
                ever_opened=c0.ever_opened,
                all_events=[list(c.events) for c in W.clients],
                all_internal=[list(c.internal) for c in W.clients],
                server=W.server_facts(), side=c0.side,
                stop_pending=c0.svc.stopping is not None and not c0.svc.stopping.called)


def guided(seed, n_ops, profile, welcome_error=None, finish_run=False):
    """Runs a guided random walk; returns (ops, observer, world-summary).  Deterministic in seed."""
    rng = random.Random(seed)
    we = "please upgrade" if profile == "welcome-error" else None
    with World(seed=seed, welcome_error=we) as W:
        patch_world_internal_names(W)
        W.add_client(delegated=True)
        npeers = 0 if profile in ("lonely", "fail-initial", "welcome-error", "third-alone") else (2 if profile == "crowded" else 1)
        for _ in range(npeers):
            W.add_client(delegated=True)
        ob = Observer(W, 0)
        ops = []
        code = "%d-%s" % (rng.choice([4, 17, 123]), rng.choice(WORDS))
        st = dict(code_started=False, closed=False, peer_started=[False] * (npeers + 1), sent=0, helper_stage=0)
        st["t_err"] = rng.randrange(0, max(2, n_ops // 2))
        st["drop_budget"] = rng.choice([4, 8, 16]) if profile == "drops" else rng.choice([0, 1, 2, 4, 6])
        st["t_close"] = rng.randrange(0, 8) if rng.random() < 0.15 else rng.randrange(int(n_ops * (0.6 if profile == "late-peer" else 0.3)), n_ops + 1)
        mode = {"allocate": "allocate", "input": "input"}.get(profile, "set")

        def emit(op):
            ops.append(op)
            return ob.do(op)

        def code_of_0():
            for n, v in W.clients[0].events:
                if n == "code":
                    return v
            return None

        if profile == "fail-initial":
            if rng.random() < 0.5:
                emit(["api", 0, "set_code", code])
                st["code_started"] = True
            emit(["fail_initial", 0])
        if profile == "crowded":
            # two other parties take the nameplate first
            # (they claim and open, but never read what the server sends them: neither sees the other's PAKE, so
            # neither releases the nameplate, and the observed client is the third side)
            for p in (1, 2):
                emit(["open", p])
                emit(["api", p, "set_code", code])
                for _k in range(8):
                    if W.clients[p].conn.c2s:
                        emit(["c2s", p])
        # in most walks the peers are quick: whatever is queued for or by them is handled before the next step of
        # client 0, so that the walk's randomness goes into client 0's own schedule (drops, reconnects with a full
        # mailbox, sends and receives in S2_happy) instead of into waiting for the peer
        eager = rng.random() < 0.6 and profile != "crowded"
        for _ in range(n_ops):
            c0 = W.clients[0]
            if eager:
                for _r in range(20):
                    moved = False
                    for p in range(1, npeers + 1):
                        cp = W.clients[p]
                        if cp.conn is None and cp.svc.started and cp.svc.stopping is None and st["peer_started"][p]:
                            emit(["open", p]); moved = True
                        if cp.conn is not None and cp.conn.c2s:
                            emit(["c2s", p]); moved = True
                        if readable(cp):
                            emit(["s2c", p]); moved = True
                        if W.pending_turn(p):
                            emit(["turn", p]); moved = True
                    if not moved:
                        break
            choices = []
            if c0.conn is None and c0.svc.started:
                choices += [["open", 0]] * 6
                if rng.random() < 0.25:
                    choices += [["ws_fail", 0]] * 2
                if not c0.tcp and rng.random() < 0.4:
                    choices += [["tcp_up", 0]] * 3        # TCP up, WebSocket negotiation pending
            if c0.conn is not None:
                if c0.conn.c2s:
                    choices += [["c2s", 0]] * 8
                if readable(c0):
                    choices += [["s2c", 0]] * 8
                pdrop = 3 if profile == "drops" else 1
                # in-flight commands lost: drop more readily while the client has written several
                # frames the server has not processed yet (un-echoed adds stay pending and must be
                # re-submitted by the next drain, in submission order)
                if len(c0.conn.c2s) >= 2:
                    pdrop *= 6
                # … and once peer messages have been processed: every re-open replays the whole mailbox
                if c0.boss._M._processed and rng.random() < 0.5:
                    pdrop *= 3
                # a budget of connection losses per walk, so that a walk does not degenerate into open/drop ping-pong
                # and still makes progress between (bursts of) losses
                if st.setdefault("drops", 0) >= st["drop_budget"]:
                    pdrop = 1 if rng.random() < 0.05 else 0
                if getattr(c0.conn, "closing", False):
                    pdrop = max(pdrop, 4)            # a closing websocket is soon gone
                elif pdrop and rng.random() < 0.3:
                    # … or the loss is a graceful one: the server begins the closing handshake first, and API
                    # calls can fall into the window before the loss is reported
                    choices += [["ws_closing", 0]] * 2
                choices += [["drop", 0]] * pdrop
                if len(W.msg_frames(0)) >= 1 and rng.random() < 0.3:
                    choices += [["dupmsg", 0, rng.randrange(4)]]
                if len(W.msg_frames(0)) >= 2 and rng.random() < 0.5:
                    choices += [["swapmsg", 0, rng.randrange(4), rng.randrange(4)]] * 2
                # a third participant: the mailbox relays a message whose side is neither ours nor the peer's
                # (a stranger's well-formed PAKE element, or bytes that open under no key), at any time
                if (profile in ("third", "third-alone") or rng.random() < 0.02) and c0.conn.sp._listening:
                    ph3 = rng.choice(["pake", "pake", "pake", "version", "version", "0", "1", "dilate-0", "foo"])
                    seen_pake = "pake" in c0.boss._M._processed or any(p_[1] == "pake" for p_ in c0.boss._M._processed if isinstance(p_, tuple))
                    if seen_pake and rng.random() < 0.5:
                        ph3 = "pake"        # a second PAKE, after the first one was accepted
                    if ph3 == "pake":
                        from spake2 import SPAKE2_Symmetric
                        kind = rng.choice(["stranger", "stranger", "empty", "nonjson", "list", "int", "nonhex", "short",
                                           "zero33", "notingroup", "offcurve", "random32", "deepjson", "reflect"]
                                          + sorted(unusable_pake_bodies()))
                        if kind == "stranger":
                            el = SPAKE2_Symmetric(b"9-some-stranger", idSymmetric=b"x").start()
                            body3 = dict_to_bytes({"pake_v1": el.hex()})
                        elif kind == "reflect":
                            mine = [m for m in W.sent[0] if m.get("type") == "add" and m.get("phase") == "pake"]
                            body3 = bytes.fromhex(mine[0]["body"]) if mine else b"{}"
                        elif kind in unusable_pake_bodies():
                            body3 = unusable_pake_bodies()[kind]
                        else:
                            body3 = {"empty": b"{}", "nonjson": b"\xff\xfe", "list": b"[]", "int": b'{"pake_v1": 5}',
                                     "nonhex": b'{"pake_v1": "zz"}', "short": b'{"pake_v1": "00"}',
                                     "zero33": dict_to_bytes({"pake_v1": "00" * 33}),
                                     "notingroup": dict_to_bytes({"pake_v1": "53" + "ff" * 32}),
                                     "offcurve": dict_to_bytes({"pake_v1": "53" + "02" + "00" * 31}),
                                     "deepjson": b"[" * 5000,
                                     "random32": dict_to_bytes({"pake_v1": "53" + bytes(rng.randrange(256) for _ in range(32)).hex()})}[kind]
                    else:
                        body3 = bytes(rng.randrange(256) for _ in range(rng.choice([0, 24, 40, 60])))
                    choices += [["inject", 0, "7h1rd51de", ph3, body3.hex()]] * ((6 if seen_pake else 3) if profile in ("third", "third-alone") else 1)
                # the server refuses something: an `error` frame (any time after its welcome)
                if profile == "server-error" and not st.get("errored") and len(ops) > st["t_err"] and "welcome" in [n for n, _ in c0.events]:
                    choices += [["inject_frame", 0, {"type": "error", "error": "refused", "orig": {"type": "claim"}},
                                 rng.random() < 0.5]] * 6
            if c0.svc.stopping is not None and not c0.svc.stopping.called:
                choices += [["svc_stopped", 0]] * 4
            if W.pending_turn(0):
                # nothing of the delegated client is supposed to depend on eventual-queue turns, but if
                # something was queued it must run (and must not fail) at some point
                choices += [["turn", 0]] * 3
            if not st["closed"]:
                if not st["code_started"]:
                    if mode == "set":
                        choices += [["api", 0, "set_code", code]] * 4
                        if rng.random() < 0.1:
                            choices += [["api", 0, "set_code", rng.choice(["4 purple", "x-purple", "-purple", ""])]]
                    elif mode == "allocate":
                        choices += [["api", 0, "allocate_code", rng.choice([1, 2, 3])]] * 4
                    else:
                        choices += [["api", 0, "input_code"]] * 4
                else:
                    if rng.random() < 0.05:
                        choices += [rng.choice([["api", 0, "set_code", code], ["api", 0, "allocate_code", 2],
                                                ["api", 0, "input_code"]])]
                if mode == "input" and c0.helper is not None:
                    np = code.split("-")[0]
                    words = code.split("-", 1)[1]
                    choices += [["api", 0, "refresh_nameplates"], ["api", 0, "get_nameplate_completions", ""],
                                ["api", 0, "get_word_completions", "pur"]]
                    choices += [["api", 0, "choose_nameplate", np]] * 2
                    choices += [["api", 0, "choose_words", words]] * 2
                    if rng.random() < 0.1:
                        choices += [["api", 0, "choose_nameplate", "x1"]]
                if st["sent"] < 4:
                    choices += [["api", 0, "send", "%02x" % st["sent"] * (1 + st["sent"])]] * 2
            # close() at a pre-drawn moment (early in 15 % of the runs, otherwise spread over the run),
            # then occasionally again
            if not st["closed"]:
                if len(ops) >= st["t_close"]:
                    choices += [["api", 0, "close"]] * 6
                elif c0.tcp and rng.random() < 0.15:
                    choices += [["api", 0, "close"]] * 4   # close() while a connection is still negotiating
            elif rng.random() < 0.05:
                choices += [["api", 0, "close"]]
            if any(n == "closed" for n, _ in c0.events):
                st["after_closed"] = st.get("after_closed", 0) + 1
                if st["after_closed"] > 6:
                    break
            # peers
            for p in range(1, npeers + 1):
                cp = W.clients[p]
                if cp.conn is None and cp.svc.started:
                    choices += [["open", p]] * 3
                if cp.conn is not None:
                    if cp.conn.c2s:
                        choices += [["c2s", p]] * 8
                    if cp.conn.s2c and profile != "crowded":
                        choices += [["s2c", p]] * 8
                if W.pending_turn(p):
                    choices += [["turn", p]] * 2
                if cp.svc.stopping is not None and not cp.svc.stopping.called:
                    choices += [["svc_stopped", p]] * 2
                if not st["peer_started"][p] and profile != "crowded":
                    pc = code
                    if mode == "allocate" or mode == "input":
                        pc = code_of_0() if mode == "allocate" else code
                    if pc is not None and (profile != "late-peer" or len(ops) > n_ops * 0.4):
                        if profile == "set-mismatch":
                            pc = pc.split("-")[0] + "-wrong-words"
                        choices += [["api", p, "set_code", pc]] * 3
                elif st.setdefault("peer_sent", 0) < 3 and rng.random() < 0.3 and profile != "crowded":
                    choices += [["api", p, "send", "aa%02x%02x" % (p, st["peer_sent"])]] * 2
                if st["peer_started"][p] and len(ops) > n_ops * 0.5 and rng.random() < 0.02:
                    choices += [["api", p, "close"]]
            if not choices:
                break
            if profile == "welcome-error-later" and not st.get("unwelcomed") and len(ops) > n_ops * 0.3 and rng.random() < 0.15:
                # the relay is reconfigured to refuse clients; only connections made from now on see it
                emit(["server_welcome_error", "please upgrade"])
                st["unwelcomed"] = True
                if c0.conn is not None:
                    emit(["drop", 0])
                continue
            op = rng.choice(choices)
            r = emit(op)
            if op[0] == "inject_frame":
                st["errored"] = True
            if op[0] == "drop" and op[1] == 0:
                st["drops"] = st.get("drops", 0) + 1
            if op[0] == "api":
                if op[1] == 0:
                    if op[2] in ("set_code", "allocate_code", "input_code") and r == "ok":
                        st["code_started"] = True
                    if op[2] == "close":
                        st["closed"] = True
                    if op[2] == "send":
                        st["sent"] += 1
                elif op[2] == "set_code":
                    st["peer_started"][op[1]] = True
                elif op[2] == "send":
                    st["peer_sent"] = st.get("peer_sent", 0) + 1
        if not finish_run and rng.random() < 0.6:
            # most walks end cooperatively (the network heals, the application closes, everything owed is
            # delivered), so that they reach a verdict; the rest stay wherever the walk left them
            finish_run = True
        if finish_run:
            finish(W, ob, ops)
        summary = summarize(W, ob)
        summary["closed_by_app"] = st["closed"] or finish_run
        return ops, ob, summary


def replay(ops, welcome_error=None, npeers=None, seed=0):
    """Replays an explicit op list (same World seed ⇒ same randomness)."""
    if npeers is None:
        npeers = max([op[1] for op in ops if len(op) > 1 and isinstance(op[1], int)] + [0])
    with World(seed=seed, welcome_error=welcome_error) as W:
        patch_world_internal_names(W)
        W.add_client(delegated=True)
        for _ in range(npeers):
            W.add_client(delegated=True)
        ob = Observer(W, 0)
        for op in ops:
            ob.do(op)
        return ob, summarize(W, ob)


def connection_corpus():
    """scripted runs around connection establishment: close() while the TCP connection is up and the WebSocket
    negotiation is pending (first connection and reconnections), negotiation failures, with each way of entering a code"""
    code = "4-purple-sausages"
    starts = {"nocode": [], "set": [["api", 0, "set_code", code]], "allocate": [["api", 0, "allocate_code", 2]],
              "input": [["api", 0, "input_code"]]}
    out = []
    for name, st in starts.items():
        end = [["svc_stopped", 0], ["finish"]]
        out.append(dict(ops=st + [["tcp_up", 0], ["api", 0, "close"]] + end, npeers=0, profile="conn:close-in-first-handshake:" + name))
        out.append(dict(ops=[["tcp_up", 0]] + st + [["api", 0, "close"]] + end, npeers=0, profile="conn:code-in-first-handshake:" + name))
        out.append(dict(ops=st + [["tcp_up", 0], ["ws_fail", 0], ["pump"], ["api", 0, "close"]] + end, npeers=0,
                        profile="conn:first-handshake-fails:" + name))
        out.append(dict(ops=st + [["open", 0], ["pump"], ["drop", 0], ["tcp_up", 0], ["api", 0, "close"]] + end + [["open", 0], ["pump"]],
                        npeers=0, profile="conn:close-in-later-handshake:" + name))
        out.append(dict(ops=st + [["open", 0], ["pump"], ["drop", 0], ["tcp_up", 0], ["ws_fail", 0], ["tcp_up", 0], ["open", 0], ["pump"],
                                  ["api", 0, "close"], ["pump"]] + end, npeers=0, profile="conn:later-handshake-fails:" + name))
        out.append(dict(ops=st + [["api", 0, "close"], ["tcp_up", 0], ["open", 0], ["pump"]] + end, npeers=0,
                        profile="conn:close-before-any-connection:" + name))
        out.append(dict(ops=st + [["open", 0], ["pump"], ["ws_closing", 0], ["api", 0, "close"], ["drop", 0]] + end, npeers=0,
                        profile="conn:close-in-closing-window:" + name))
        out.append(dict(ops=[["open", 0], ["pump"], ["ws_closing", 0]] + st + [["api", 0, "send", "00"], ["drop", 0], ["open", 0], ["pump"],
                                                                           ["api", 0, "close"], ["pump"]] + end, npeers=0,
                        profile="conn:code-and-send-in-closing-window:" + name))
    # the code-entry helper keeps being used after the wormhole has closed ITSELF (welcome error, server error, failed
    # first connection): every helper call must still behave (documented errors only)
    helper_calls = [["api", 0, "refresh_nameplates"], ["api", 0, "get_nameplate_completions", ""], ["api", 0, "choose_nameplate", "4"],
                    ["api", 0, "refresh_nameplates"], ["api", 0, "get_word_completions", "pur"], ["api", 0, "choose_words", "purple-sausages"]]
    causes = {"welcome-error": [["server_welcome_error", "please upgrade"], ["open", 0], ["pump"]],
              "server-error": [["open", 0], ["pump"], ["inject_frame", 0, {"type": "error", "error": "refused", "orig": {"type": "list"}}, False], ["pump"]],
              "fail-initial": [["fail_initial", 0]],
              "handshake-fails": [["tcp_up", 0], ["ws_fail", 0]]}
    for cname, cops in causes.items():
        for k in (0, 2, 3):
            out.append(dict(ops=[["api", 0, "input_code"]] + helper_calls[:k] + cops + [["svc_stopped", 0], ["pump"]] + helper_calls[k:]
                            + [["finish"], ["api", 0, "close"], ["finish"]], npeers=0, profile="conn:helper-after-self-close:%s:%d" % (cname, k)))
    both = [["api", 0, "set_code", code], ["api", 1, "set_code", code], ["open", 0], ["open", 1], ["pump"]]
    out.append(dict(ops=both + [["ws_closing", 0], ["api", 0, "send", "00"], ["api", 0, "send", "0101"], ["drop", 0], ["open", 0], ["pump"],
                                ["api", 0, "send", "020202"], ["pump"], ["api", 0, "close"], ["pump"], ["svc_stopped", 0], ["finish"]],
                    npeers=1, profile="conn:sends-in-closing-window"))
    # large application messages (the mailbox protocol has no size limit of its own): sent on an established
    # wormhole, queued before the peer arrives, and queued during an outage
    big = "x700000"
    out.append(dict(ops=both + [["api", 0, "send", big], ["pump"], ["api", 1, "send", "x300000"], ["pump"], ["api", 0, "close"], ["pump"],
                                ["svc_stopped", 0], ["finish"]], npeers=1, profile="conn:large-message:established"))
    out.append(dict(ops=[["api", 0, "set_code", code], ["open", 0], ["pump"], ["api", 0, "send", big], ["api", 1, "set_code", code], ["open", 1],
                         ["pump"], ["api", 0, "close"], ["pump"], ["svc_stopped", 0], ["finish"]], npeers=1,
                    profile="conn:large-message:before-peer"))
    out.append(dict(ops=both + [["drop", 0], ["api", 0, "send", big], ["open", 0], ["pump"], ["api", 0, "close"], ["pump"],
                                ["svc_stopped", 0], ["finish"]], npeers=1, profile="conn:large-message:during-outage"))
    # message ids are two random bytes: nothing makes them unique, and the server acks every frame with the id it carried.
    # Bursts of frames with EQUAL ids: on an established wormhole, queued before the peer, queued during an outage
    col = [["msgid_collide", 1.0]]
    sends = [["api", 0, "send", "%02x" % i] for i in range(4)]
    out.append(dict(ops=col + both + sends + [["pump"], ["api", 0, "close"], ["pump"], ["svc_stopped", 0], ["finish"]], npeers=1,
                    profile="conn:equal-msgids:established"))
    out.append(dict(ops=col + [["api", 0, "set_code", code]] + sends + [["open", 0], ["pump"], ["api", 1, "set_code", code], ["open", 1], ["pump"],
                               ["api", 0, "close"], ["pump"], ["svc_stopped", 0], ["finish"]], npeers=1, profile="conn:equal-msgids:before-peer"))
    out.append(dict(ops=both + col + [["drop", 0]] + sends + [["open", 0], ["pump"], ["api", 0, "close"], ["pump"], ["svc_stopped", 0], ["finish"]],
                    npeers=1, profile="conn:equal-msgids:during-outage"))
    return out


def hostile_corpus():
    """scripted runs with a third mailbox participant: every class of unusable PAKE body / undecryptable bytes, alone,
    queued behind an early `version`, after the honest key exchange, and stashed before the local code is known"""
    from spake2 import SPAKE2_Symmetric
    import json as _j
    stranger = dict_to_bytes({"pake_v1": SPAKE2_Symmetric(b"9-some-stranger", idSymmetric=b"x").start().hex()}).hex()
    kinds = {"stranger": stranger, "empty": b"{}".hex(), "nonjson": "fffe", "list": b"[]".hex(), "int": b'{"pake_v1": 5}'.hex(),
             "nonhex": b'{"pake_v1": "zz"}'.hex(), "short": b'{"pake_v1": "00"}'.hex(),
             "zero33": dict_to_bytes({"pake_v1": "00" * 33}).hex(), "notingroup": dict_to_bytes({"pake_v1": "53" + "ff" * 32}).hex(),
             "offcurve": dict_to_bytes({"pake_v1": "53" + "02" + "00" * 31}).hex(), "deepjson": (b"[" * 5000).hex(),
             "reflect": "REFLECT"}
    kinds.update({k: v.hex() for k, v in unusable_pake_bodies().items()})
    T = "7h1rd51de"
    code = "4-purple-sausages"
    junk = "00" * 60
    out = []
    for name, body in kinds.items():
        end = [["api", 0, "close"], ["pump"], ["finish"]]
        alone = [["api", 0, "set_code", code], ["open", 0], ["pump"]]
        out.append(dict(ops=alone + [["inject", 0, T, "pake", body], ["pump"]] + end, npeers=0, profile="hostile:alone:" + name))
        out.append(dict(ops=alone + [["inject", 0, T, "version", junk], ["inject", 0, T, "0", junk], ["inject", 0, T, "pake", body],
                                     ["pump"]] + end, npeers=0, profile="hostile:queued:" + name))
        both = [["api", 0, "set_code", code], ["api", 1, "set_code", code], ["open", 0], ["open", 1], ["pump"]]
        out.append(dict(ops=both + [["inject", 0, T, "pake", body], ["pump"], ["inject", 0, T, "1", junk], ["pump"]] + end, npeers=1,
                        profile="hostile:second:" + name))
        stash = [["api", 0, "input_code"], ["api", 0, "choose_nameplate", "4"], ["open", 0], ["pump"],
                 ["inject", 0, T, "pake", body], ["pump"]]
        out.append(dict(ops=stash + [["api", 0, "choose_words", "purple-sausages"], ["pump"]] + end, npeers=0,
                        profile="hostile:stashed:" + name))
        out.append(dict(ops=stash + [["inject", 0, T, "version", junk], ["pump"], ["api", 0, "choose_words", "purple-sausages"], ["pump"]] + end,
                        npeers=0, profile="hostile:stashed+version:" + name))
    return out


# ---------------------------------------------------------------------------
# model-guided failing-input search (DESIGN §5.3 step 2)

def run_trace_case(case, oracle):
    """replays an abstract event trace (wvsearch syntax) on a REAL client through harness/direct.py"""
    from . import direct
    from .core import Result
    summary = direct.replay_trace(case["lines"], match=case.get("match", True), seed=case.get("seed", 0),
                                  variant=case.get("variant", 0))
    summary.setdefault("hist", dict(good=False, bad=False, server_error=False, welcome_error=False))
    summary.setdefault("at_closed", None)
    viol = oracle(summary)
    return Result([], [], viol, ["trace"], True, info=dict(trace=[o for _, o in summary["outcomes"]]))


def model_guided(oracle, modes=("",)):
    """asks wvsearch for a shortest unsafe trace of the regenerated model and replays it on the real
    code; yields (case, Result) — the Result carries violations only if the REAL code misbehaves"""
    from . import direct
    for mode in modes:
        try:
            states, header, trace = direct.model_search(mode)
        except Exception:
            continue
        if not trace:
            continue
        case = dict(kind="trace", lines=trace, match="matchKey=true" in (header or ""), model_says=header)
        yield case, run_trace_case(case, oracle)
        # neighbours: the same trace with the last event repeated / a close appended
        for extra in (["close", "released", "closed", "svcstopped"], [trace[-1]]):
            c2 = dict(case)
            c2["lines"] = trace + extra
            yield c2, run_trace_case(c2, oracle)
        # … and, when the trace contains an unusable PAKE, the same trace with every other body of that class (each
        # statement of the parsing raising each of its exception classes)
        if any(l.startswith("msg theirs pake") and l.split()[-1] in ("nofield", "invalid") for l in trace):
            for v in range(1, max(len(x) for x in direct.pake_variants())):
                c3 = dict(case, variant=v)
                yield c3, run_trace_case(c3, oracle)


def trace_shrink(case):
    lines = case["lines"]
    for i in range(len(lines) - 1, -1, -1):
        c = dict(case)
        c["lines"] = lines[:i] + lines[i + 1:]
        yield c


def cert_stats():
    """size of the certified closed system, measured on the regenerated model (for the evidence)"""
    import subprocess
    from . import direct
    out = {}
    try:
        r = subprocess.run([direct.SEARCH, "5000000"], capture_output=True, text=True, timeout=300)
        for l in r.stdout.splitlines():
            if l.startswith("states "):
                out["states"] = int(l.split()[1])
            if l.startswith("transitions "):
                out["transitions"] = int(l.split()[1])
            if l.startswith("unsafe"):
                out["model_search"] = l
    except Exception as e:
        out["model_search"] = "unavailable: %s" % e
    return out
