"""Mailbox world: real `wormhole.create()` clients, the REAL mailbox server protocol objects
(`wormhole_mailbox_server`), no sockets, no wall clock.  A case is a list of scheduling ops; the
network between a client and the server is two FIFO queues per connection that the case drains
step by step, can cut (`drop`), and whose `message` deliveries it can duplicate / reorder /
tamper with (everything a conformant-or-malicious server is allowed by the properties).

ops (all JSON lists, c = client index):
  ["api", c, name, *args]      application call (set_code, allocate_code, input_code, send, close,
                               get_message, derive_key, helper calls: refresh_nameplates,
                               get_nameplate_completions, choose_nameplate, get_word_completions, choose_words)
  ["open", c]                  a server connection is established (welcome queued, ws_open called)
  ["c2s", c]                   the server processes the client's next frame
  ["s2c", c]                   the client processes the server's next frame
  ["drop", c]                  the connection is lost (both queues discarded)
  ["turn", c]                  one eventual-queue turn of client c
  ["settle"]                   run everything to quiescence (all queues, all turns), no faults
  ["dupmsg", c, i] ["swapmsg", c, i, j] ["tamper", c, i, how, arg]   on queued `message` frames to client c
  ["inject", c, side, phase, bodyhex]   a fabricated `message` frame queued to client c
  ["fail_initial", c]          the initial connection attempt fails (no connection was ever made)
  ["ws_fail", c]               a connection attempt reaches TCP but the WebSocket negotiation fails (onClose without onOpen)
  ["svc_stopped", c]           ClientService.stopService() completes
  ["server_welcome_error", m]  the server starts (m: str) / stops (m: None) sending `error` in its welcome
  ["msgid_collide", p]        from now on a message id comes out as one fixed value with probability p
"""
import json
import os
import random
from collections import deque
from unittest import mock

from twisted.internet import defer
from twisted.internet.task import Clock
from twisted.python import failure

import wormhole
from wormhole import _rendezvous
from wormhole.eventual import EventualQueue
from wormhole.util import dict_to_bytes, bytes_to_dict

from wormhole_mailbox_server.database import create_channel_db
from wormhole_mailbox_server.server import make_server
from wormhole_mailbox_server.server_websocket import WebSocketServer

from ..util import automat_state

APPID = "verif.example/app"
MACHINES = [("B", None), ("N", "_N"), ("M", "_M"), ("T", "_T"), ("C", "_C"), ("A", "_A"), ("L", "_L"),
            ("I", "_I"), ("K", "_K"), ("SK", None), ("O", "_O"), ("R", "_R"), ("S", "_S")]


class FakeService:
    """Stands in for twisted.application.internet.ClientService inside the harness process."""
    instances = []

    def __init__(self, ep, factory, *args, **kw):
        self.factory = factory
        self.ctor_args = args      # what the client asked of ClientService beyond endpoint and factory
        self.ctor_kw = kw
        self.started = False
        self.stopping = None
        self.when_connected = []
        FakeService.instances.append(self)

    def whenConnected(self, failAfterFailures=None):
        d = defer.Deferred()
        self.when_connected.append(d)
        return d

    def startService(self):
        self.started = True

    def stopService(self):
        """Like ClientService: fires at once when there is no connection, otherwise after the
        connection has been closed (the `svc_stopped` op)."""
        self.started = False
        c = getattr(self, "client", None)
        if c is not None:
            c.log.append(("stopService",))
        if c is None or (c.conn is None and not c.tcp):
            return defer.succeed(None)
        # like ClientService: every call gets its own Deferred; they fire in the order of the calls once the
        # connection is gone (`self.stopping` is the first of them)
        d = defer.Deferred()
        if self.stopping is None or self.stopping.called:
            self.stopping = d
            self.stop_waiters = [d]
        else:
            self.stop_waiters.append(d)
        return d


def big_hex(b):
    """hex, except that a large body is named by its length and digest (keeps events and replays readable)"""
    if len(b) <= 200000:
        return b.hex()
    import hashlib
    return "big:%d:%s" % (len(b), hashlib.sha256(b).hexdigest()[:16])


def big_body(spec):
    """`x<N>`: a body of N bytes; `-`: empty; otherwise hex"""
    if spec == "-":
        return b""
    if spec.startswith("x"):
        n = int(spec[1:])
        return bytes((i * 7 + n) % 256 for i in range(251)) * (n // 251) + b"\x5a" * (n % 251)
    return bytes.fromhex(spec)


class FakeWS:
    def __init__(self, conn):
        self.conn = conn

    def sendMessage(self, payload, isBinary):
        if getattr(self.conn, "closing", False):
            # what autobahn's WebSocketProtocol.sendMessage does whenever its state is not OPEN
            from autobahn.exception import Disconnected
            raise Disconnected("Attempt to send on a closed protocol")
        # ... and what it does with the protocol options the client put on its factory
        limit = getattr(getattr(self.conn.client.svc, "factory", None), "maxMessagePayloadSize", 0)
        if 0 < limit < len(payload):
            from autobahn.exception import PayloadExceededError
            raise PayloadExceededError("tried to send WebSocket message with size %d exceeding payload limit of %d octets"
                                       % (len(payload), limit))
        self.conn.c2s.append(bytes(payload))
        self.conn.client.log.append(("tx", bytes_to_dict(payload)))


class _Factory:
    def __init__(self, server, reactor):
        self._server = server
        self.reactor = reactor


class Conn:
    """One websocket connection: the real server-side protocol object + the two queues."""

    def __init__(self, world, client):
        self.world = world
        self.client = client
        self.c2s = deque()
        self.s2c = deque()
        sp = WebSocketServer.__new__(WebSocketServer)
        WebSocketServer.__init__(sp)
        sp.factory = _Factory(world.server, world.clock)
        sp._peer_addr_port = ("ipv4", "127.0.0.1", 1000 + client.index)
        sp._reactor = world.clock
        sp.sendMessage = lambda payload, isBinary=False: self.s2c.append(bytes(payload))
        self.sp = sp
        self.alive = True


class Delegate:
    def __init__(self, client):
        self.c = client

    def wormhole_got_welcome(self, welcome):
        self.c.event("welcome")

    def wormhole_got_code(self, code):
        self.c.event("code", code)

    def wormhole_got_unverified_key(self, key):
        self.c.event("key", key.hex())

    def wormhole_got_verifier(self, verifier):
        self.c.event("verifier", verifier.hex())

    def wormhole_got_versions(self, versions):
        self.c.event("versions", json.dumps(versions, sort_keys=True))

    def wormhole_got_message(self, msg):
        self.c.event("message", big_hex(msg))

    def wormhole_closed(self, result):
        self.c.event("closed", verdict_name(result))


def verdict_name(result):
    if isinstance(result, failure.Failure):
        result = result.value
    if isinstance(result, BaseException):
        return type(result).__name__
    return str(result)


class Client:
    def __init__(self, world, index, delegated, versions=None, dilation=False):
        self.world = world
        self.index = index
        self.delegated = delegated
        self.events = []        # application-visible events in order: (name, value)
        self.log = []           # everything observable in call order: ("tx", frame) / ("ev", name, value) / ("stopService",)
        self.api_errors = []    # exceptions raised to the application by API calls
        self.internal = []      # exceptions that escaped ws_open/ws_message/turns (internal failures)
        self.conn = None
        self.tcp = False             # a TCP connection exists whose WebSocket handshake has not finished
        self.ever_opened = False
        self.helper = None
        self.eq = EventualQueue(world.clock)
        n0 = len(FakeService.instances)
        kw = dict(versions=versions or {}, _eventual_queue=self.eq)
        if delegated:
            kw["delegate"] = Delegate(self)
        if dilation:
            kw["dilation"] = True
        self.w = wormhole.create(APPID, "ws://relay.invalid:4000/v1", world.clock, **kw)
        self.svc = FakeService.instances[n0]
        self.svc.client = self
        self.boss = self.w._boss
        self.rc = self.boss._RC
        self.side = self.boss._side
        self.get_message_results = []
        if not delegated:
            for name, meth in [("welcome", self.w.get_welcome), ("code", self.w.get_code),
                               ("key", self.w.get_unverified_key), ("verifier", self.w.get_verifier),
                               ("versions", self.w.get_versions)]:
                meth().addBoth(self._fired, name)

    # an application whose callbacks take time (the clock moves while one runs) and which asks for the next message
    # from inside a callback — both ordinary things for an application to do
    slow = 0.0
    read_in_callback = False

    def _fired(self, res, name):
        if isinstance(res, failure.Failure):
            self.event(name + "!", verdict_name(res))
        else:
            if isinstance(res, bytes):
                res = big_hex(res)
            elif isinstance(res, dict):
                res = json.dumps(res, sort_keys=True)
            self.event(name, res)
            if self.slow:
                self.world.clock.rightNow += self.slow
            if self.read_in_callback and name in ("verifier", "message"):
                self.w.get_message().addBoth(self._fired, "message")

    def event(self, name, value=None):
        self.events.append((name, value))
        self.log.append(("ev", name, value))

    # -- introspection
    def states(self):
        b = self.boss
        out = {}
        for name, attr in MACHINES:
            if name == "B":
                o = b
            elif name == "SK":
                o = b._K._SK
            else:
                o = getattr(b, attr)
            out[name] = automat_state(o)
        return out


class World:
    def __init__(self, seed=0, welcome_error=None, motd=None):
        self.clock = Clock()
        self.rng = random.Random(seed)
        self.db = create_channel_db(":memory:")
        self.server = make_server(self.db, signal_error=welcome_error, welcome_motd=motd)
        self.clients = []
        self._patches = []
        self.trace = []          # canonical log lines of what happened, per op
        self.sent = {}           # client index -> list of decoded frames the client sent (all connections)

    # deterministic randomness for side ids / msg ids / SPAKE2 scalars / word choice
    msgid_collide = 0.0      # probability that a message id (the only 2-byte draw) comes out as the fixed value

    def _urandom(self, n):
        if n == 2 and self.msgid_collide and self.rng.random() < self.msgid_collide:
            return b"\xaa\xaa"
        return bytes(self.rng.randrange(256) for _ in range(n))

    def __enter__(self):
        p1 = mock.patch.object(_rendezvous.internet, "ClientService", FakeService)
        p2 = mock.patch("os.urandom", self._urandom)
        for p in (p1, p2):
            p.start()
            self._patches.append(p)
        return self

    def __exit__(self, *a):
        for p in self._patches:
            p.stop()
        self._patches = []
        try:
            self.db.close()
        except Exception:
            pass
        return False

    def add_client(self, delegated=False, versions=None, dilation=False):
        c = Client(self, len(self.clients), delegated, versions, dilation)
        self.clients.append(c)
        self.sent[c.index] = []
        return c

    # -- primitive steps -------------------------------------------------
    def _guard(self, c, f):
        """run a client entry point; an exception escaping it is an internal failure"""
        try:
            f()
            return None
        except Exception as e:  # noqa
            c.internal.append((type(e).__name__, str(e)[:200]))
            return type(e).__name__

    def ws_closing(self, ci):
        """the server starts the WebSocket closing handshake (restart, idle timeout, …): autobahn's protocol leaves
        the OPEN state at once — nothing more is read, sendMessage() refuses — while onClose() only comes when the
        connection is gone (the `drop` op)"""
        c = self.clients[ci]
        if c.conn is None or getattr(c.conn, "closing", False):
            return "noop"
        c.conn.closing = True
        c.conn.s2c.clear()
        return "ok"

    def tcp_up(self, ci):
        """the ClientService gets its TCP connection; the WebSocket negotiation is still under way"""
        c = self.clients[ci]
        if c.conn is not None or c.tcp or not c.svc.started:
            return "noop"
        c.tcp = True
        for d in c.svc.when_connected:
            if not d.called:
                d.callback(None)
        return "ok"

    def open(self, ci):
        c = self.clients[ci]
        if c.conn is not None or not c.svc.started:
            return "noop"
        c.tcp = False
        conn = Conn(self, c)
        c.conn = conn
        c.ever_opened = True
        conn.sp.onOpen()
        for d in c.svc.when_connected:
            if not d.called:
                d.callback(None)
        return self._guard(c, lambda: c.rc.ws_open(FakeWS(conn))) or "ok"

    def c2s(self, ci):
        c = self.clients[ci]
        if c.conn is None or not c.conn.c2s:
            return "noop"
        payload = c.conn.c2s.popleft()
        self.sent[ci].append(bytes_to_dict(payload))
        c.conn.sp.onMessage(payload, False)
        return "ok"

    def s2c(self, ci):
        c = self.clients[ci]
        if c.conn is None or not c.conn.s2c:
            return "noop"
        if c.svc.stopping is not None and not c.svc.stopping.called:
            # ClientService.stopService() did transport.loseConnection(): Twisted has stopped
            # reading, nothing more is delivered on this connection
            return "noop"
        if getattr(c.conn, "closing", False):
            return "noop"
        payload = c.conn.s2c.popleft()
        return self._guard(c, lambda: c.rc.ws_message(payload)) or "ok"

    def drop(self, ci):
        c = self.clients[ci]
        if c.conn is None:
            return "noop"
        conn, c.conn = c.conn, None
        conn.alive = False
        conn.sp.onClose(False, 1006, "dropped")
        return self._guard(c, lambda: c.rc.ws_close(False, 1006, "dropped")) or "ok"

    def svc_stopped(self, ci):
        c = self.clients[ci]
        d = c.svc.stopping
        if d is None or d.called:
            return "noop"
        r = "ok"
        if c.conn is not None:
            r = self.drop(ci)
        elif c.tcp:
            # the negotiating connection goes away: autobahn reports onClose() without onOpen() while the service
            # is still stopping (a stopService() issued from there gets the same pending Deferred)
            r = self._guard(c, lambda: c.rc.ws_close(False, 1006, "connection was closed uncleanly (stopped during handshake)")) or "ok"
            c.tcp = False
        def fire():
            for w in list(getattr(c.svc, "stop_waiters", [d])):
                if not w.called:
                    w.callback(None)
                # an exception inside one of the callbacks hung on the stop Deferred is an internal failure too (Twisted
                # would only log it as "Unhandled error in Deferred")
                if isinstance(getattr(w, "result", None), failure.Failure):
                    f = w.result
                    w.addErrback(lambda _f: None)
                    f.raiseException()
        err = self._guard(c, fire)
        return err or r

    def fail_initial(self, ci):
        c = self.clients[ci]
        if c.ever_opened or c.conn is not None:
            return "noop"
        fired = False
        for d in c.svc.when_connected:
            if not d.called:
                d.errback(failure.Failure(ConnectionRefusedError("refused")))
                fired = True
        if not fired:
            return "noop"
        return self._guard(c, lambda: self.clock.advance(0)) or "ok"

    def ws_fail(self, ci):
        """a connection attempt gets a TCP connection but the WebSocket negotiation fails: autobahn
        reports onClose() without onOpen()"""
        c = self.clients[ci]
        if c.conn is not None or not c.svc.started:
            return "noop"
        c.tcp = False
        return self._guard(c, lambda: c.rc.ws_close(False, 1006, "connection was closed uncleanly (handshake failed)")) or "ok"

    def pending_turn(self, ci):
        """something is waiting for a reactor turn: an eventual-queue call of this client, or any callLater(0)
        on the shared clock (e.g. a deferLater)"""
        c = self.clients[ci]
        return bool(c.eq._calls) or (ci == 0 and any(dc.active() for dc in self.clock.getDelayedCalls()))

    def turn(self, ci):
        c = self.clients[ci]
        if not self.pending_turn(ci):
            return "noop"
        from .. import LOGGED
        n0 = len(LOGGED)
        self.clock.advance(0)
        # a failure inside a callback chain that continued in this turn on one of the stop Deferreds (which this fake
        # service, unlike Twisted's, keeps referenced, so it would never be logged as "Unhandled error in Deferred")
        for w in getattr(c.svc, "stop_waiters", []):
            if w.called and isinstance(getattr(w, "result", None), failure.Failure):
                f = w.result
                w.addErrback(lambda _f: None)
                name = type(f.value).__name__
                from ..mailbox_corr import exn_name
                c.internal.append((name, "in a callback on the stopService() Deferred", exn_name(f.value)))
                return name
        if len(LOGGED) > n0:
            ev = LOGGED[-1]
            f = ev.get("log_failure") or ev.get("failure")
            name = type(f.value).__name__ if f is not None else "logged-error"
            c.internal.append((name, "in eventual turn", name))
            return name
        return "ok"

    def server_welcome_error(self, msg=None):
        """the server operator (un)sets the welcome `error` (takes effect on the next connection)"""
        if msg is None:
            self.server._welcome.pop("error", None)
        else:
            self.server._welcome["error"] = msg
        return "ok"

    def msg_frames(self, ci):
        c = self.clients[ci]
        if c.conn is None:
            return []
        return [i for i, p in enumerate(c.conn.s2c) if bytes_to_dict(p).get("type") == "message"]

    def dupmsg(self, ci, i):
        idx = self.msg_frames(ci)
        if not idx:
            return "noop"
        q = self.clients[ci].conn.s2c
        q.append(q[idx[i % len(idx)]])
        return "ok"

    def swapmsg(self, ci, i, j):
        idx = self.msg_frames(ci)
        if len(idx) < 2:
            return "noop"
        q = self.clients[ci].conn.s2c
        a, b = idx[i % len(idx)], idx[j % len(idx)]
        q[a], q[b] = q[b], q[a]
        return "ok"

    def inject(self, ci, side, phase, bodyhex):
        c = self.clients[ci]
        if c.conn is None:
            return "noop"
        c.conn.s2c.append(dict_to_bytes({"type": "message", "side": side, "phase": phase, "body": bodyhex,
                                         "id": "ff"}))
        return "ok"

    def inject_frame(self, ci, frame, at_head=False):
        """the server says something of its own accord (e.g. an `error` frame instead of / before an answer)"""
        c = self.clients[ci]
        if c.conn is None:
            return "noop"
        if at_head:
            c.conn.s2c.appendleft(dict_to_bytes(frame))
        else:
            c.conn.s2c.append(dict_to_bytes(frame))
        return "ok"

    def tamper(self, ci, i, how, arg=0):
        """modify the i-th queued `message` frame addressed to client ci"""
        idx = self.msg_frames(ci)
        if not idx:
            return "noop"
        q = self.clients[ci].conn.s2c
        k = idx[i % len(idx)]
        m = bytes_to_dict(q[k])
        body = bytearray(bytes.fromhex(m["body"]))
        if how == "flip" and body:
            body[arg % len(body)] ^= 1 << (arg // max(len(body), 1) % 8)
        elif how == "trunc":
            body = body[:arg % (len(body) + 1)]
        elif how == "extend":
            body = body + bytes([arg % 256])
        elif how == "phase":
            m["phase"] = str(arg)
        elif how == "side":
            m["side"] = str(arg)
        elif how == "random":
            r = random.Random(arg)
            body = bytearray(r.randrange(256) for _ in range(len(body)))
        m["body"] = bytes(body).hex()
        q[k] = dict_to_bytes(m)
        return "ok"

    def api(self, ci, name, *args):
        c = self.clients[ci]
        w = c.w
        try:
            if name == "set_code":
                w.set_code(args[0])
            elif name == "allocate_code":
                w.allocate_code(*args)
            elif name == "input_code":
                c.helper = w.input_code()
            elif name == "send":
                w.send_message(big_body(args[0]))
            elif name == "close":
                if c.delegated:
                    w.close()
                else:
                    w.close().addBoth(c._fired, "closed")
            elif name == "get_message":
                w.get_message().addBoth(c._fired, "message")
            elif name == "derive_key":
                return w.derive_key(args[0], args[1]).hex()
            elif name in ("refresh_nameplates", "get_nameplate_completions", "choose_nameplate",
                          "get_word_completions", "choose_words"):
                r = getattr(c.helper, name)(*args)
                if isinstance(r, (set, frozenset)):
                    return "completions:" + ",".join(sorted(r))
            else:
                raise ValueError("unknown api " + name)
            return "ok"
        except Exception as e:  # raised to the application
            c.api_errors.append((name, type(e).__name__))
            return type(e).__name__

    def settle(self, limit=10000):
        """run to quiescence: all frames delivered in FIFO order, all turns taken"""
        n = 0
        progress = True
        while progress and n < limit:
            progress = False
            for c in self.clients:
                ci = c.index
                while c.conn is not None and c.conn.c2s:
                    self.c2s(ci)
                    progress = True
                    n += 1
                while c.conn is not None and c.conn.s2c and self.s2c(ci) != "noop":
                    progress = True
                    n += 1
                if self.pending_turn(c.index):
                    self.turn(ci)
                    progress = True
                    n += 1
                if c.svc.stopping is not None and not c.svc.stopping.called:
                    self.svc_stopped(ci)
                    progress = True
                    n += 1
        return "ok"

    def do(self, op):
        k = op[0]
        if k == "api":
            return self.api(op[1], op[2], *op[3:])
        if k == "settle":
            return self.settle()
        f = getattr(self, k)
        return f(*op[1:])

    # -- server-side facts (for C08) ---------------------------------------
    def server_facts(self):
        db = self.db
        np = [dict(r) for r in db.execute("SELECT n.name as name, s.side as side, s.claimed as claimed FROM nameplates n, nameplate_sides s WHERE s.nameplates_id = n.id").fetchall()]
        mb = [dict(r) for r in db.execute("SELECT mailbox_id, side, opened, mood FROM mailbox_sides").fetchall()]
        return dict(nameplate_sides=np, mailbox_sides=mb)


def long_outage(n_failures, seed=0):
    """The REAL twisted ClientService, constructed with exactly the extra arguments the client gives it (captured from
    RendezvousConnector's constructor call), against an endpoint that refuses `n_failures` attempts in a row after one
    good connection.  Returns after how many refused attempts no further attempt was scheduled (None = the service
    kept trying throughout), the number of attempts made, and any error logged on the way."""
    from twisted.application import internet
    from twisted.internet import protocol
    from twisted.python import log as tlog
    from twisted.internet.error import ConnectionRefusedError as Refused, ConnectionDone
    with World(seed=seed) as W:
        cl = W.add_client(delegated=True)
        args, kw = cl.svc.ctor_args, dict(cl.svc.ctor_kw)
    kw.pop("clock", None)
    clock = Clock()
    state = dict(attempts=0, up=True, protos=[])

    class EP:
        def connect(self, factory):
            state["attempts"] += 1
            if state["up"]:
                p = factory.buildProtocol(None)
                state["protos"].append(p)
                return defer.succeed(p)
            return defer.fail(Refused())

    class P(protocol.Protocol):
        pass

    f = protocol.Factory.forProtocol(P)
    errors = []
    obs = lambda ev: errors.append(str(ev.get("failure") or ev.get("log_failure"))) if ev.get("isError") else None
    tlog.addObserver(obs)
    try:
        svc = internet.ClientService(EP(), f, *args, clock=clock, **kw)
        svc.startService()
        clock.advance(0)
        state["up"] = False
        wrapped = state["protos"][0]
        wrapped.connectionLost(failure.Failure(ConnectionDone()))
        stuck_after = None
        for i in range(n_failures + 1):
            calls = [c for c in clock.getDelayedCalls() if c.active()]
            if not calls:
                stuck_after = state["attempts"] - 1
                break
            try:
                clock.advance(max(0.0, min(c.getTime() for c in calls) - clock.seconds()))
            except Exception as e:    # whatever escapes the service's own timer is the end of its retry loop
                errors.append(repr(e))
            if state["attempts"] - 1 >= n_failures:
                break
        try:
            svc.stopService()
        except Exception:
            pass
    finally:
        tlog.removeObserver(obs)
    return stuck_after, state["attempts"], errors
