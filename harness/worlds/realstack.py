"""The mailbox client on its REAL connection stack.

Nothing is replaced inside the client: RendezvousConnector builds its own twisted ClientService (it only gets a
task.Clock instead of the global reactor and an in-memory endpoint instead of a TCP one, everything else it passes to
the constructor is kept), ClientService drives autobahn's real WebSocketClientProtocol, which performs a real WebSocket
handshake with the real wormhole_mailbox_server protocol over an in-memory byte pipe.  A connection is lost the way
Twisted reports it: connectionLost() on both protocols.  autobahn's and ClientService's timers run on the same Clock.

The world of harness/worlds/mailbox.py replaces ClientService and the WebSocket protocol by stand-ins (so that every
frame and turn is a separately schedulable step and can be compared with the Lean model); this world keeps that glue
real and checks the properties' outcome on it: what the retry policy, prepareConnection hooks, protocol options or the
mapping of autobahn's callbacks onto ws_open/ws_close/ws_message do is visible here and only here.
"""
import os
import random
from unittest import mock

import txaio
txaio.use_twisted()

from twisted.application import internet  # noqa: E402
from twisted.internet import defer, task  # noqa: E402
from twisted.internet.address import IPv4Address  # noqa: E402
from twisted.internet.error import ConnectionLost, ConnectionRefusedError  # noqa: E402
from twisted.internet.testing import StringTransport  # noqa: E402
from twisted.python import log as tlog  # noqa: E402
from twisted.python.failure import Failure  # noqa: E402

import wormhole  # noqa: E402
from wormhole import _rendezvous  # noqa: E402
from wormhole.eventual import EventualQueue  # noqa: E402
from wormhole_mailbox_server.database import create_channel_db  # noqa: E402
from wormhole_mailbox_server.server import make_server  # noqa: E402
from wormhole_mailbox_server.server_websocket import WebSocketServerFactory  # noqa: E402

from .mailbox import verdict_name, big_hex  # noqa: E402

APPID = "example.com/verif-realstack"
URL = "ws://relay.invalid:4000/v1"

_RealClientService = internet.ClientService


class PipeTransport(StringTransport):
    def __init__(self, link, host, peer):
        StringTransport.__init__(self, hostAddress=host, peerAddress=peer)
        self._link = link

    def loseConnection(self):
        self._link.close_requested = True

    def abortConnection(self):
        self._link.close_requested = True

    def setTcpNoDelay(self, enabled):
        pass

    def setTcpKeepAlive(self, enabled):
        pass


class Link:
    """one TCP connection between a client and the mailbox server"""

    def __init__(self, world, client, client_factory, answer):
        world.nlinks += 1
        self.world, self.client = world, client
        self.up = True
        self.close_requested = False
        self.answer = answer          # False: the peer accepted TCP but nobody answers the upgrade request
        caddr = IPv4Address("TCP", "10.0.0.2", 40000 + world.nlinks)
        saddr = IPv4Address("TCP", "10.0.0.1", 4000)
        self.ct = PipeTransport(self, caddr, saddr)
        self.st = PipeTransport(self, saddr, caddr)
        self.sproto = world.server_factory.buildProtocol(caddr)
        self.cproto = client_factory.buildProtocol(saddr)
        self.sproto.makeConnection(self.st)
        self.cproto.makeConnection(self.ct)

    def step(self):
        if not self.up:
            return False
        moved = False
        if self.answer:
            data = self.ct.value()
            if data:
                self.ct.clear()
                self.world.guard(self.client, lambda: self.sproto.dataReceived(data))
                moved = True
            data = self.st.value() if self.up else b""
            if data:
                self.st.clear()
                self.world.guard(self.client, lambda: self.cproto.dataReceived(data))
                moved = True
        if self.up and self.close_requested:
            self.drop()
            moved = True
        return moved

    def drop(self):
        """the TCP connection dies; everything in flight is lost"""
        if not self.up:
            return
        self.up = False
        self.ct.clear()
        self.st.clear()
        for proto in (self.sproto, self.cproto):
            self.world.guard(self.client, lambda p=proto: p.connectionLost(Failure(ConnectionLost())))


class Endpoint:
    """stands in for the HostnameEndpoint to the mailbox server.  mode: `up` (TCP connects, the server answers),
    `refuse` (connection refused), `mute` (TCP connects, nobody answers the upgrade request; the connection is closed
    again after `mute_for` seconds)"""

    def __init__(self, world, client):
        self.world, self.client = world, client
        self.mode = "up"
        self.mute_for = 0.2
        self.attempts = 0

    def connect(self, factory):
        self.attempts += 1
        clock = self.world.clock
        state = {"cancelled": False}

        def cancel(_d):
            # what a real endpoint does when ClientService cancels a pending attempt (stopService() while connecting):
            # the attempt is aborted and no protocol is ever built for it
            state["cancelled"] = True

        d = defer.Deferred(cancel)
        mode = self.mode

        def attempt():
            if state["cancelled"]:
                return
            if mode == "refuse":
                d.errback(Failure(ConnectionRefusedError()))
                return
            link = Link(self.world, self.client, factory, answer=(mode == "up"))
            self.client.link = link
            if mode == "mute":
                clock.callLater(self.mute_for, link.drop)
            d.callback(link.cproto)
        clock.callLater(0.05, attempt)
        return d


class Delegate:
    def __init__(self, c):
        self.c = c

    def wormhole_got_welcome(self, welcome):
        pass

    def wormhole_got_code(self, code):
        self.c.events.append(("code", code))

    def wormhole_got_unverified_key(self, key):
        self.c.events.append(("key", key.hex()))

    def wormhole_got_verifier(self, verifier):
        self.c.events.append(("verifier", verifier.hex()))

    def wormhole_got_versions(self, versions):
        self.c.events.append(("versions", None))

    def wormhole_got_message(self, data):
        self.c.events.append(("message", big_hex(data)))

    def wormhole_closed(self, result):
        self.c.events.append(("closed", verdict_name(result)))


class Client:
    def __init__(self, world, index, versions=None):
        self.world, self.index = world, index
        self.events = []
        self.internal = []
        self.api_errors = []
        self.link = None
        self.ep = Endpoint(world, self)
        world._building = self
        kw = {} if versions is None else dict(versions=versions)
        self.w = wormhole.create(APPID, URL, world.clock, delegate=Delegate(self), _eventual_queue=EventualQueue(world.clock), **kw)
        world._building = None
        self.rc = self.w._boss._RC

    @property
    def connected(self):
        return self.link is not None and self.link.up and self.rc._ws is not None


class RealWorld:
    def __init__(self, seed=0):
        self.clock = task.Clock()
        self.rng = random.Random(seed)
        self.seed = seed
        self.db = create_channel_db(":memory:")
        self.server = make_server(self.db)
        self.server_factory = WebSocketServerFactory(URL, self.server)
        self.server_factory.reactor = self.clock
        self.clients = []
        self.nlinks = 0
        self.logged = []
        self._building = None
        self._patches = []

    def _urandom(self, n):
        return bytes(self.rng.randrange(256) for _ in range(n))

    def _service(self, ep, factory, *args, **kw):
        """what RendezvousConnector calls as internet.ClientService: the real class, with the clock and the in-memory
        endpoint; every other argument is passed through untouched"""
        c = self._building
        factory.reactor = self.clock
        kw.setdefault("clock", self.clock)
        c.service_args = (args, dict(kw))
        return _RealClientService(c.ep, factory, *args, **kw)

    def __enter__(self):
        self._obs = lambda ev: self.logged.append(str(ev.get("failure") or ev.get("log_failure") or ev.get("message"))[:300]) if ev.get("isError") else None
        tlog.addObserver(self._obs)
        self._rstate = random.getstate()
        random.seed(self.seed)      # ClientService's default back-off draws its jitter from the random module
        for p in (mock.patch.object(_rendezvous.internet, "ClientService", self._service), mock.patch("os.urandom", self._urandom)):
            p.start()
            self._patches.append(p)
        return self

    def __exit__(self, *a):
        for p in self._patches:
            p.stop()
        self._patches = []
        random.setstate(self._rstate)
        tlog.removeObserver(self._obs)
        for c in self.clients:
            try:
                c.rc._connector.stopService()
            except Exception:
                pass
        try:
            self.db.close()
        except Exception:
            pass

    def add_client(self, versions=None):
        c = Client(self, len(self.clients), versions)
        self.clients.append(c)
        return c

    def guard(self, c, f):
        try:
            f()
        except Exception as e:      # whatever escapes a protocol entry point is what the reactor would log and drop
            c.internal.append((type(e).__name__, str(e)[:200]))

    def api(self, c, name, *args):
        try:
            getattr(c.w, name)(*args)
        except Exception as e:
            c.api_errors.append((name, type(e).__name__, str(e)[:200]))

    def settle(self, limit=10000):
        """run everything that is ready now: bytes in the pipes, the eventual queues, timers that are due"""
        for _ in range(limit):
            moved = False
            for c in self.clients:
                if c.link is not None and c.link.step():
                    moved = True
            before = len(self.clock.getDelayedCalls())
            due = [dc for dc in self.clock.getDelayedCalls() if dc.getTime() <= self.clock.seconds()]
            if due:
                try:
                    self.clock.advance(0)
                except Exception as e:
                    self.logged.append("escaped a timer: %r" % (e,))
                moved = True
            if not moved:
                return
        raise RuntimeError("realstack: no quiescence")

    def advance(self, seconds, step=0.5):
        t = 0.0
        while t < seconds:
            dt = min(step, seconds - t)
            try:
                self.clock.advance(dt)
            except Exception as e:
                self.logged.append("escaped a timer: %r" % (e,))
            t += dt
            self.settle()
