"""C20 — peer connection hints are untrusted: correspondence + oracle on the real code.

Real code driven here (nothing under /repo is changed; collaborators are patched in-process only):
  * `_hints.parse_hint`, `parse_tcp_v1_hint`, `encode_hint`, `endpoint_from_hint_obj` (real; only the
    three Twisted endpoint classes it instantiates are replaced by recorders, and Tor by a stub);
  * `TransitSender/TransitReceiver.add_connection_hints` and `Common._connect` on a `task.Clock`;
  * a real `Manager` driven by `received_dilation_message`, with its real `Connector`
    (`_use_hints`, `_schedule_connection`, `_connect`); only `Connector._start_listener` is a no-op.
  * kind "gens": the same real Manager + Connectors over *histories* — PLEASE as Leader or Follower, hints messages in
    every state and generation, RECONNECT while connecting / connected / lonely, RECONNECTING, a connection made
    (`Connector.add_candidate` + eventual queue) and lost, `stop()`, timers — with and without a relay, Tor stub,
    listener delay and a status callback (`DilationStatus.hints` is the side channel of `_use_hints`).
"""
import copy
import json
import math
from unittest import mock

from twisted.internet import endpoints as tw_endpoints
from twisted.internet import error as tw_error
from twisted.internet.address import IPv4Address
from twisted.internet.defer import Deferred
from twisted.internet.task import Clock, Cooperator
from twisted.internet.testing import MemoryReactorClock, StringTransport
from twisted.python.failure import Failure
from twisted.python import log as txlog
from zope.interface import alsoProvides

from wormhole import _hints, transit
from wormhole._dilation import connector as dconn
from wormhole._dilation import manager as dman
from wormhole._hints import DirectTCPV1Hint, TorTCPV1Hint, RelayV1Hint
from wormhole._interfaces import ISend
from wormhole.eventual import EventualQueue

from ..core import Result
from ..util import automat_state, set_automat_state

ID = "C20"
PROP_MODULES = ["WV.Props.C20"]
TRUSTED = [
    "json.loads (the peer's bytes reach the code as None/bool/int/float/str/list/dict; one shared nan object)",
    "CPython's sorted() is a stable sort that only uses `<` (modelled as a stable insertion sort); with a nan "
    "priority the order is algorithm-dependent, so for those cases only exception class and the *set* of targets are compared",
    "set iteration order (hash-dependent): targets of one relay priority are compared as a set; when two relay "
    "hints hold ==-equal tuples of different class the case is run with the Tor stub so that the kept representative does not matter",
    "Twisted endpoints and Tor (replaced by recorders; `stream_via` stub rejects hosts starting with '10.')",
    "strings containing lone surrogates are not generated (not representable in the line protocol)",
    "Manager.use_hints reads hint_message['hints'] unguarded: a connection-hints message without a list in "
    "'hints' is outside the property's quantifier (lists in hint position); modelled and compared, not judged",
    "kind gens: the winning connection is a Mock handed to the real Connector.add_candidate (no Noise handshake); the "
    "selected connection is lost by calling Manager.connector_connection_lost(), as the real connection's "
    "when_disconnected() does; NoTransition for a message the machine has no row for (hints after STOPPED, reconnect "
    "to a Leader in FLUSHING, ...) is compared with the generated table, not judged",
    "application status callbacks that raise are not generated (the exception would be the application's own)",
]
RULE = ("type-directed JSON hint lists: valid direct/tor/relay hints over a small pool of hosts/ports/priorities "
        "(so duplicates and equal priorities occur), field-wise mutations (delete, replace by every JSON type, nest, "
        "duplicate, retype), fates of the started attempts (refused / unreachable / timed out / bad "
        "handshake / pending, last one optionally connecting) with connect() compared against the model's race outcome, numeric twins (a valid hint next to a copy that is == in Python but of another JSON type: float/bool "
        "port, bool or int/float priority; top-level and inside relay-v1; both orders; one list or two calls), random JSON structures; each list goes through parse_hint, Transit.add_connection_hints+"
        "_connect (Clock, recorder endpoints, with/without Tor stub, listener, own relay) and a real Manager/Connector "
        "via received_dilation_message; thorough adds exhaustive single-field replacement over the atom table; "
        "kind gens: random walks over the dilation protocol as an honest or hostile peer can drive it (PLEASE L/F; "
        "connection-hints before, in and after every generation; reconnect while CONNECTING / CONNECTED / LONELY; "
        "reconnecting; connection made / lost; stop; ticks), 1-3 hints messages per generation, relay / Tor / listener / "
        "status-callback (none, recording, one that empties the set it is handed) configurations, plus a corpus of the "
        "named histories; each `_schedule_connection` and `_connect` call is attributed to the Connector that made it; "
        "non-trivial = at least one hint reached a type branch; distinct = distinct canonical output traces")

# flip to True to make the unguarded `hint_message["hints"]` access an oracle violation (see report)
STRICT_MESSAGE_SHAPE = False
SIDE = "aaaaaaaaaaaaaaaa"
RELAY_LOC = "tcp:relay.example:4001"


# ---------------------------------------------------------------------------
# canonical encodings shared with the Lean driver

def hx(b):
    return b.hex() if b else "-"


def enc_j(v):
    if v is None:
        return "n"
    if v is True:
        return "T"
    if v is False:
        return "F"
    if isinstance(v, int):
        return "i%d" % v
    if isinstance(v, float):
        if math.isnan(v):
            return "dnan"
        if math.isinf(v):
            return "dinf" if v > 0 else "dninf"
        n, d = v.as_integer_ratio()
        return "d%d/%d" % (n, d)
    if isinstance(v, str):
        return "s" + hx(v.encode("utf8", "surrogatepass"))
    if isinstance(v, (list, tuple)):
        return "[" + "".join(" " + enc_j(x) for x in v) + " ]"
    if isinstance(v, dict):
        return "{" + "".join(" k" + hx(k.encode("utf8", "surrogatepass")) + " " + enc_j(x) for k, x in v.items()) + " }"
    raise TypeError(v)


def show_tcp(h):
    kind = "direct" if isinstance(h, DirectTCPV1Hint) else "tor"
    return f"{kind}({enc_j(h.hostname)} {enc_j(h.port)} {enc_j(h.priority)})"


def show_hintobj(h):
    if h is None:
        return "None"
    if isinstance(h, RelayV1Hint):
        return "relay[" + ";".join(show_tcp(x) for x in h.hints) + "]"
    return show_tcp(h)


def show_target(host, port):
    return enc_j(host) + ":" + enc_j(port)


def show_set(items):
    return "{" + ",".join(sorted(items)) + "}"


def has_nan(v):
    if isinstance(v, float):
        return math.isnan(v)
    if isinstance(v, list):
        return any(has_nan(x) for x in v)
    if isinstance(v, dict):
        return any(has_nan(x) for x in v.values())
    return False


def has_surrogate(v):
    """a lone surrogate (JSON can carry "\\ud800"); Lean strings cannot hold one, so such cases are judged by
    the oracle on the real code only and are not sent through the model"""
    if isinstance(v, str):
        return any(0xD800 <= ord(c) <= 0xDFFF for c in v)
    if isinstance(v, list):
        return any(has_surrogate(x) for x in v)
    if isinstance(v, dict):
        return any(has_surrogate(k) or has_surrogate(x) for k, x in v.items())
    return False


def wire(v):
    """what the peer's bytes decode to (fresh objects, one shared nan — as json.loads gives)"""
    return json.loads(json.dumps(v))


# ---------------------------------------------------------------------------
# generators

HOSTS = ["192.168.1.5", "10.0.0.7", "10.1.2.3", "::1", "fe80::1", "example.com", "relay.example", "a", "b", "",
         "é.example", "host name", "1.2.3", "1.2.3.4.5"]
# hostname classes a peer can put into a JSON string (all are `str`, so the hint is rightly dialled):
ODD_HOSTS = {
    "idn-ok": ["b\u00fccher.example", "m\u00fcnchen.example", "\u65e5\u672c\u8a9e.example", "xn--bcher-kva.example"],
    "non-idna": ["m\u00fcnchen..example", "\u00e9" + "x" * 70 + ".example", "\u05d0a.example", "caf\u00e9\ue000.example",
                 "\u200b.example", "\u00e9..", "\u2488com"],
    "long-label": ["x" * 64 + ".example", "x" * 70, ("a" * 60 + ".") * 5 + "example"],
    "empty-label": ["a..b", ".", "..", ".example", "example.", "not a hostname"],
    "nul": ["a\x00b", "\x00", "\u00e9\x00.example"],
    "surrogate": ["\ud800", "a\ud800.example", "\udc00\ud800", "\u00e9\udfff"],
}
ODD_CLASSES = sorted(ODD_HOSTS)


def odd_host(rng, surrogate_ok=True):
    cls = rng.choice([c for c in ODD_CLASSES if surrogate_ok or c != "surrogate"])
    return rng.choice(ODD_HOSTS[cls])


PORTS = [1, 80, 4001, 65535, 0, -1, 70000, 2 ** 70]
PRIOS = [0.0, 1.0, 1, 2, -1, 0.5, 3.5, 1e300, 10 ** 30, -0.0, float("inf"), float("-inf")]
TYPES = ["direct-tcp-v1", "direct-tcp-v1", "tor-tcp-v1"]
ATOMS = [None, True, False, 0, 1, -7, 2 ** 64, 0.0, 1.5, -2.25, float("inf"), float("nan"), "", "x", "80",
         "direct-tcp-v1", "tor-tcp-v1", "relay-v1", [], [1], ["a"], [[]], {}, {"type": "direct-tcp-v1"},
         {"a": 1}, [{"type": "direct-tcp-v1", "hostname": "n", "port": 9}]]


def gen_tcp(rng, small=True):
    h = {"type": rng.choice(TYPES),
         "hostname": rng.choice(HOSTS[:8] if small else HOSTS),
         "port": rng.choice(PORTS[:3] if small else PORTS)}
    if rng.random() < 0.75:
        h["priority"] = rng.choice(PRIOS[:6] if small else PRIOS)
    if rng.random() < 0.1:
        h["extra"] = rng.choice(ATOMS)
    if rng.random() < 0.12:
        h["hostname"] = odd_host(rng, surrogate_ok=rng.random() < 0.3)
    return h


def gen_relay(rng):
    return {"type": "relay-v1", "hints": [gen_tcp(rng) for _ in range(rng.choice([0, 1, 1, 2, 2, 3]))]}


def gen_valid(rng):
    return gen_relay(rng) if rng.random() < 0.35 else gen_tcp(rng, small=rng.random() < 0.7)


def random_j(rng, depth=0):
    r = rng.random()
    if depth > 2 or r < 0.5:
        return copy.deepcopy(rng.choice(ATOMS))
    if r < 0.75:
        return [random_j(rng, depth + 1) for _ in range(rng.randrange(0, 4))]
    keys = ["type", "hostname", "port", "priority", "hints", "k", ""]
    return {rng.choice(keys): random_j(rng, depth + 1) for _ in range(rng.randrange(0, 4))}


def mutate(rng, h):
    """field-wise mutation of a valid hint dict; may return one value or a list of values"""
    h = copy.deepcopy(h)
    if h.get("type") == "relay-v1" and h["hints"] and rng.random() < 0.5:
        i = rng.randrange(len(h["hints"]))
        m = mutate(rng, h["hints"][i])
        h["hints"][i:i + 1] = m if isinstance(m, list) and rng.random() < 0.5 else [m]
        return h
    op = rng.choice(["delete", "replace", "replace", "replace", "nest", "duplicate", "retype", "rekey"])
    keys = list(h.keys())
    if op == "delete":
        del h[rng.choice(keys)]
    elif op == "replace":
        h[rng.choice(keys + ["priority"])] = copy.deepcopy(rng.choice(ATOMS))
    elif op == "nest":
        return rng.choice([[h], {"hints": [h]}, {"type": "relay-v1", "hints": h}, {"type": "relay-v1", "hints": [[h]]},
                           {"type": "relay-v1", "hints": [{"type": "relay-v1", "hints": [h]}]}])
    elif op == "duplicate":
        return [h, copy.deepcopy(h)]
    elif op == "retype":
        h["type"] = rng.choice(["relay-v1", "direct-tcp-v2", "tor-tcp-v1", "", "DIRECT-TCP-V1", "direct-tcp-v1"])
    elif op == "rekey":
        k = rng.choice(keys)
        h[k + rng.choice(["", "s", " "])] = h.pop(k)
    return h


def gen_hint_list(rng, adversarial):
    out = []
    for _ in range(rng.choice([0, 1, 2, 3, 4, 6]) if not adversarial else rng.choice([1, 2, 3, 5])):
        r = rng.random()
        if r < (0.85 if not adversarial else 0.3):
            out.append(gen_valid(rng))
        elif r < (0.95 if not adversarial else 0.8):
            m = mutate(rng, gen_valid(rng))
            if isinstance(m, list) and rng.random() < 0.5:
                out.extend(m)
            else:
                out.append(m)
        else:
            out.append(random_j(rng))
    if rng.random() < 0.25 and out:
        out.append(copy.deepcopy(rng.choice(out)))      # duplicate
    return out


def numeric_twins(h):
    """copies of the valid tcp hint `h` that are `==` to it in Python but differ in JSON type: float port,
    bool port (0/1), bool priority (0/1), int<->float priority.  The first kinds are invalid hints, the last is valid."""
    out = []
    out.append(dict(h, port=float(h["port"])))
    if h["port"] in (0, 1):
        out.append(dict(h, port=bool(h["port"])))
    p = h.get("priority")
    if p is not None:
        if p in (0, 1):
            out.append(dict(h, priority=bool(p)))
        if isinstance(p, float) and p == int(p) and abs(p) < 2 ** 53:
            out.append(dict(h, priority=int(p)))
        elif isinstance(p, int):
            out.append(dict(h, priority=float(p)))
    return out


def twin_adds(rng, valid=None, relay=None):
    """a valid hint and a numeric twin of it, as top-level entries or inside relay-v1 entries, in either order,
    within one list or split over two lists; surrounded by a little ordinary material"""
    if valid is None:
        valid = {"type": rng.choice(["direct-tcp-v1", "direct-tcp-v1", "tor-tcp-v1"]), "hostname": rng.choice(HOSTS[:8]),
                 "port": rng.choice([4001, 1, 0, 80]), "priority": rng.choice([0.0, 1.0, 0, 1, 2.0, 3])}
    twin = rng.choice(numeric_twins(valid))
    if relay is None:
        relay = rng.random() < 0.4
    if relay:
        extra = [gen_tcp(rng)] if rng.random() < 0.3 else []
        a = {"type": "relay-v1", "hints": [twin]}
        b = {"type": "relay-v1", "hints": [valid] + extra}
        if extra and rng.random() < 0.5:
            a = {"type": "relay-v1", "hints": [twin]}
    else:
        a, b = twin, valid
    pair = [a, b] if rng.random() < 0.65 else [b, a]
    pad = lambda: [gen_valid(rng) for _ in range(rng.choice([0, 0, 1]))]
    if rng.random() < 0.5:
        return [pad() + [pair[0]] + pad() + [pair[1]] + pad()]
    return [pad() + [pair[0]], [pair[1]] + pad()]


# what becomes of the started attempts, cycled over them in start order ('p' stays pending, 't' TCP-level failure,
# 'h' handshake failure); with win="last" the last attempt connects and negotiates
FATES = [["p"], ["p"], ["t"], ["h"], ["t", "p"], ["p", "t"], ["t", "h"], ["h", "t", "p"]]

MGR_STATES = ["CONNECTING", "CONNECTING", "CONNECTING", "CONNECTING", "WANTING", "CONNECTED", "FLUSHING", "LONELY",
              "ABANDONING", "STOPPING"]

CORPUS_HINTS = [
    # the five shapes repaired by 147de0a
    [{"type": "relay-v1"}],
    [5, None, "direct-tcp-v1", [], True],
    [{"type": "relay-v1", "hints": 5}],
    [{"type": "relay-v1", "hints": [5, None, "x", [], {"type": "direct-tcp-v1", "hostname": "a", "port": 1}]}],
    [{"type": "direct-tcp-v1", "hostname": "a", "port": 1, "priority": "x"},
     {"type": "direct-tcp-v1", "hostname": "b", "port": 1, "priority": 2.0}],
    [{"type": "direct-tcp-v1", "hostname": "a", "port": 1, "priority": [1]}],
    [{"type": "relay-v1", "hints": [{"type": "direct-tcp-v1", "hostname": "a", "port": 1, "priority": [1]}]}],
    [{"type": "relay-v1", "hints": [{"type": "direct-tcp-v1", "hostname": "a", "port": 1, "priority": "x"},
                                    {"type": "direct-tcp-v1", "hostname": "a", "port": 1, "priority": 2.0}]}],
    [{"type": "direct-tcp-v1", "hostname": "a", "port": True}],
    [{"type": "relay-v1", "hints": [{"type": "direct-tcp-v1", "hostname": "a", "port": True}]}],
    [{"type": "direct-tcp-v1", "hostname": "a", "port": 1, "priority": True}],
    [{"type": "direct-tcp-v1", "hostname": "a", "port": 1, "priority": None},
     {"type": "direct-tcp-v1", "hostname": "b", "port": 1, "priority": {}}],
    [{"type": "direct-tcp-v1", "hostname": 5, "port": 1}, {"type": "direct-tcp-v1", "hostname": "a", "port": "1"},
     {"type": "direct-tcp-v1", "hostname": "a", "port": 1.0}, {"type": "direct-tcp-v1", "hostname": ["a"], "port": 1}],
    [{"type": "relay-v1", "hints": [{"type": "direct-tcp-v1", "hostname": 5, "port": 1},
                                    {"type": "direct-tcp-v1", "hostname": "a", "port": 1}]}],
    # priorities: order, int/float equality, buckets
    [{"type": "direct-tcp-v1", "hostname": "a", "port": 1, "priority": 1},
     {"type": "direct-tcp-v1", "hostname": "b", "port": 1, "priority": 3.5},
     {"type": "direct-tcp-v1", "hostname": "c", "port": 1, "priority": 1.0},
     {"type": "tor-tcp-v1", "hostname": "d", "port": 1, "priority": 10 ** 30},
     {"type": "direct-tcp-v1", "hostname": "e", "port": 1}],
    [{"type": "relay-v1", "hints": [{"type": "direct-tcp-v1", "hostname": "r1", "port": 1, "priority": 1},
                                    {"type": "direct-tcp-v1", "hostname": "r2", "port": 2, "priority": 2.5},
                                    {"type": "tor-tcp-v1", "hostname": "r3", "port": 3, "priority": 2.5}]},
     {"type": "relay-v1", "hints": [{"type": "direct-tcp-v1", "hostname": "r1", "port": 1, "priority": 1.0}]},
     {"type": "relay-v1", "hints": [{"type": "direct-tcp-v1", "hostname": "relay.example", "port": 4001, "priority": 0}]},
     {"type": "direct-tcp-v1", "hostname": "10.0.0.7", "port": 80}],
    # tuple-equal hints of different class inside one relay hint (the first one stays in the set)
    [{"type": "relay-v1", "hints": [{"type": "tor-tcp-v1", "hostname": "a", "port": 1, "priority": 0},
                                    {"type": "direct-tcp-v1", "hostname": "a", "port": 1, "priority": 0.0}]}],
    [{"type": "relay-v1", "hints": []}, {"type": "relay-v1", "hints": {}}, {"type": "relay-v1", "hints": "ab"}],
    [{"type": "direct-tcp-v1", "hostname": "a", "port": 2 ** 70, "priority": float("inf")},
     {"type": "direct-tcp-v1", "hostname": "b", "port": -1, "priority": float("-inf")}],
    [{"type": "direct-tcp-v1", "hostname": "a", "port": 1, "priority": float("nan")},
     {"type": "direct-tcp-v1", "hostname": "b", "port": 1, "priority": 1},
     {"type": "relay-v1", "hints": [{"type": "direct-tcp-v1", "hostname": "c", "port": 1, "priority": float("nan")},
                                    {"type": "direct-tcp-v1", "hostname": "d", "port": 1, "priority": 2}]}],
    [],
]


def odd_lists(host):
    """the odd hostname first (highest priority), valid hints after it; as a direct hint and as a relay sub-hint"""
    good = {"type": "direct-tcp-v1", "priority": 1.0, "hostname": "192.0.2.7", "port": 4002}
    good2 = {"type": "direct-tcp-v1", "hostname": "ok.example", "port": 4004}
    relay = {"type": "relay-v1", "hints": [{"type": "direct-tcp-v1", "priority": 0.0, "hostname": "198.51.100.9", "port": 4003}]}
    bad = {"type": "direct-tcp-v1", "priority": 5.0, "hostname": host, "port": 4001}
    badtor = {"type": "tor-tcp-v1", "priority": 5.0, "hostname": host, "port": 4001}
    return [
        [bad, good, relay],
        [bad, relay],
        [{"type": "relay-v1", "hints": [dict(bad, priority=9), dict(bad, port=4005, priority=0.0)]}, good2, relay],
        [badtor, bad, {"type": "relay-v1", "hints": [badtor]}, good],
    ]


# ---------------------------------------------------------------------------
# kind "gens": histories of one Manager (several generations of Connector)

def _sanitize(v):
    """no nan (order-free comparison is only implemented for the single-generation ops) and no lone surrogates"""
    if isinstance(v, float) and math.isnan(v):
        return 2.5
    if isinstance(v, str) and any(0xD800 <= ord(c) <= 0xDFFF for c in v):
        return "s.example"
    if isinstance(v, list):
        return [_sanitize(x) for x in v]
    if isinstance(v, dict):
        return {_sanitize(k): _sanitize(x) for k, x in v.items()}
    return v


GOOD_1 = [{"type": "direct-tcp-v1", "hostname": "10.0.0.1", "port": 1001},
          {"type": "direct-tcp-v1", "hostname": ["10.0.0.9"], "port": 9}, {"type": "relay-v1"}, 5,
          {"type": "direct-tcp-v1", "hostname": "10.0.0.9", "port": 9, "priority": "high"},
          {"type": "relay-v1", "hints": [{"type": "direct-tcp-v1", "hostname": "relay1.example", "port": 1002}, {"type": "nope"}]}]
GOOD_2 = [{"type": "relay-v1", "hints": "10.0.0.9:9"}, {},
          {"type": "direct-tcp-v1", "hostname": "h2.example", "port": 2001, "priority": 3},
          {"type": "relay-v1", "hints": [{"type": "direct-tcp-v1", "hostname": "10.0.1.2", "port": 2002}]}]

# named histories; "H1"/"H2"/"H3" are replaced by hint lists
GENS_SCRIPTS = {
    "reconnect-while-connecting": ["please F", "H1", "reconnect", "H2", "H1", "tick"],
    "reconnect-while-connecting-x3": ["please F", "H1", "reconnect", "H2", "reconnect", "reconnect", "H1", "H2", "tick", "made", "tick"],
    "reconnect-while-connecting-late": ["please F", "H1", "tick", "reconnect", "H2", "tick", "H1", "tick"],
    "ordinary-reconnect": ["please F", "H1", "tick", "made", "lost", "H3", "reconnect", "H2", "tick"],
    "abandon-connected": ["please F", "H1", "made", "reconnect", "H3", "lost", "H2", "tick", "made", "tick"],
    "leader-flush": ["please L", "H1", "made", "tick", "lost", "H3", "reconnecting", "H2", "tick", "made", "stop", "H1", "lost", "H2", "tick"],
    "leader-reconnected-while-connecting": ["please L", "H1", "reconnect", "H2", "tick"],
    "stop-while-connecting": ["please F", "H1", "stop", "H2", "tick"],
    "stop-after-abandoned": ["please F", "H1", "reconnect", "H2", "stop", "H1", "tick"],
    "too-early": ["H1", "please F", "H2", "tick"],
    "stop-lonely": ["please F", "H1", "made", "lost", "H2", "stop", "H1", "tick"],
    "made-then-hints": ["please L", "H1", "made", "H2", "tick", "lost", "reconnecting", "H1", "H2", "tick"],
}


def _script_ops(script, h1, h2, h3):
    ops = []
    for w in script:
        if w in ("H1", "H2", "H3"):
            ops.append(["hints", {"H1": h1, "H2": h2, "H3": h3}[w]])
        else:
            ops.append(w.split())
    return ops


def gens_corpus():
    out = []
    lists = [(GOOD_1, GOOD_2, GOOD_2), (GOOD_2, GOOD_1, []), ([], GOOD_1, GOOD_1)]
    for name in sorted(GENS_SCRIPTS):
        for i, (h1, h2, h3) in enumerate(lists):
            for own in (False, True):
                for status in (0, 1, 2):
                    if i and status == 1:
                        continue
                    out.append(dict(kind="gens", name=name, tor=(i == 2 and own), nolisten=(status != 1), own=own, status=status,
                                    ops=_script_ops(GENS_SCRIPTS[name], h1, h2, h3)))
    # every corpus hint list (the shapes repaired by 147de0a among them) as the first message of an abandoned-and-restarted generation
    for hl in CORPUS_HINTS:
        if has_nan(hl):
            continue
        for own in (False, True):
            out.append(dict(kind="gens", name="corpus-after-abandon", tor=False, nolisten=own, own=own, status=1,
                            ops=[["please", "F"], ["hints", GOOD_1], ["reconnect"], ["hints", hl], ["tick"]]))
    return out


# what an honest peer / the network can do next in each state of the protocol (the generator's own notion, not read
# from the code under test); F/L restrict a move to the Follower / Leader side
GENS_MOVES = {
    "WANTING": ["please", "please", "please", "hints", "stop"],
    "CONNECTING": ["hints", "hints", "hints", "hints", "tick", "tick", "made", "made", "reconnect", "reconnect", "stop"],
    "CONNECTED": ["hints", "tick", "lost", "lost", "lost", "reconnect:F", "stop"],
    "FLUSHING": ["hints", "reconnecting", "reconnecting", "reconnecting", "tick", "stop"],
    "LONELY": ["hints", "reconnect", "reconnect", "reconnect", "tick", "stop"],
    "ABANDONING": ["hints", "lost", "lost", "lost", "stop"],
    "STOPPING": ["hints", "lost", "lost", "tick"],
    "STOPPED": ["hints", "tick"],
}
GENS_NEXT = {
    ("WANTING", "please"): "CONNECTING", ("CONNECTING", "made"): "CONNECTED", ("CONNECTING", "reconnect"): "CONNECTING",
    ("CONNECTING", "stop"): "STOPPED", ("CONNECTED", "lost:L"): "FLUSHING", ("CONNECTED", "lost:F"): "LONELY",
    ("CONNECTED", "reconnect"): "ABANDONING", ("CONNECTED", "stop"): "STOPPING", ("FLUSHING", "reconnecting"): "CONNECTING",
    ("FLUSHING", "stop"): "STOPPED", ("LONELY", "reconnect"): "CONNECTING", ("LONELY", "stop"): "STOPPED",
    ("ABANDONING", "lost:F"): "CONNECTING", ("ABANDONING", "stop"): "STOPPING", ("STOPPING", "lost:L"): "STOPPED",
    ("STOPPING", "lost:F"): "STOPPED", ("WANTING", "stop"): "STOPPED",
}


def gen_gens(rng, adversarial):
    role = rng.choice("LF")
    st = "WANTING"
    ops = []
    n = rng.choice([4, 6, 8, 10, 14])
    stray = 0.12 if adversarial else 0.0
    while len(ops) < n:
        if rng.random() < stray:
            # a message the protocol does not expect here (a hostile peer can send any of them at any time)
            mv = rng.choice(["hints", "reconnect", "reconnecting", "please"])
        else:
            mv = rng.choice(GENS_MOVES[st])
            if mv.endswith(":F"):
                if role != "F":
                    continue
                mv = mv[:-2]
        if mv == "hints":
            for _ in range(rng.choice([1, 1, 1, 2, 3])):
                hl = _sanitize(gen_hint_list(rng, adversarial and rng.random() < 0.6))
                if rng.random() < 0.02:
                    ops.append(["hintsmsg", rng.choice([{"type": "connection-hints"}, {"type": "connection-hints", "hints": 5},
                                                        {"type": "connection-hints", "hints": {"a": 1}}])])
                else:
                    ops.append(["hints", hl])
        elif mv == "please":
            ops.append(["please", role])
        else:
            ops.append([mv])
        key = (st, mv if mv != "lost" else "lost:" + role)
        st = GENS_NEXT.get(key, st)
        if st == "STOPPED":
            n = min(n, len(ops) + rng.choice([0, 1, 2]))      # little happens after the end
    ops.append(["tick"])
    return dict(kind="gens", name="walk", tor=rng.random() < 0.25, nolisten=rng.random() < 0.4, own=rng.random() < 0.45,
                status=rng.choice([0, 1, 1, 2]), ops=ops)


def _env(rng):
    return dict(tor=rng.random() < 0.3, listener=rng.random() < 0.5, own=rng.random() < 0.4,
                receiver=rng.random() < 0.5, nolisten=rng.random() < 0.3)


def cases(rng, tier):
    n = 1 if tier == "quick" else 25
    out = []
    dead_then_good = [{"type": "direct-tcp-v1", "hostname": "192.0.2.7", "port": 9, "priority": 0.0},
                      {"type": "direct-tcp-v1", "hostname": 12, "port": 1}, {"type": "relay-v1", "hints": "nope"}, ["not", "a", "dict"],
                      {"type": "relay-v1", "hints": [{"type": "direct-tcp-v1", "hostname": "dead-relay.example", "port": 9}]},
                      {"type": "direct-tcp-v1", "hostname": "good.example", "port": 4001, "priority": 0.0},
                      {"type": "relay-v1", "hints": [{"type": "direct-tcp-v1", "hostname": "198.51.100.20", "port": 4001, "priority": 2}]}]
    for fates in FATES[2:]:
        for win in ("last", "none"):
            for listener in (False, True):
                for tor in (False, True):
                    out.append(dict(kind="transit", tor=tor, listener=listener, own=tor, receiver=listener, adds=[dead_then_good],
                                    fates=fates, win=win))
    for hl in CORPUS_HINTS:
        for tor in (False, True):
            out.append(dict(kind="parse", values=hl))
            out.append(dict(kind="transit", tor=tor, listener=not tor, own=tor, receiver=tor, adds=[hl]))
            out.append(dict(kind="transit", tor=tor, listener=False, own=False, receiver=False, adds=[hl, hl]))
            out.append(dict(kind="dilation", tor=tor, nolisten=tor, own=not tor, mgr="CONNECTING", con="connecting",
                            msgs=[{"type": "connection-hints", "hints": hl}]))
    for cls in ODD_CLASSES:
        for i, host in enumerate(ODD_HOSTS[cls]):
            for j, hl in enumerate(odd_lists(host)):
                if tier == "quick" and i > 1 and j > 1:
                    continue
                for tor in ((False, True) if j in (0, 3) else (False,)):
                    for listener in (False, True):
                        out.append(dict(kind="transit", tor=tor, listener=listener, own=(j == 1), receiver=(i % 2 == 1), adds=[hl]))
                    out.append(dict(kind="dilation", tor=tor, nolisten=(j % 2 == 0), own=(j == 1), mgr="CONNECTING", con="connecting",
                                    msgs=[{"type": "connection-hints", "hints": hl}]))
            out.append(dict(kind="parse", values=[{"type": "direct-tcp-v1", "hostname": host, "port": 1}]))
    base = {"type": "direct-tcp-v1", "priority": 0.0, "hostname": "192.0.2.7", "port": 4001}
    base1 = {"type": "direct-tcp-v1", "priority": 1, "hostname": "a", "port": 1}
    for v in (base, base1):
        for tw in numeric_twins(v):
            rv, rt = {"type": "relay-v1", "hints": [v]}, {"type": "relay-v1", "hints": [tw]}
            for first, second in ((tw, v), (v, tw), (rt, rv), (rv, rt), (rt, v), (tw, rv)):
                for adds in ([[first, second]], [[first], [second]]):
                    for listener in (False, True):
                        out.append(dict(kind="transit", tor=False, listener=listener, own=False, receiver=listener, adds=adds))
                    out.append(dict(kind="dilation", tor=False, nolisten=False, own=False, mgr="CONNECTING", con="connecting",
                                    msgs=[{"type": "connection-hints", "hints": a} for a in adds]))
            out.append(dict(kind="parse", values=[tw, v, rt, rv]))
    # message shapes outside the quantifier (compared with the model, not judged unless STRICT_MESSAGE_SHAPE)
    for m in [{"type": "connection-hints"}, {"type": "connection-hints", "hints": 5},
              {"type": "connection-hints", "hints": None}, {"type": "connection-hints", "hints": "ab"},
              {"type": "connection-hints", "hints": {"type": "direct-tcp-v1", "hostname": "a", "port": 1}}]:
        out.append(dict(kind="dilation", tor=False, nolisten=False, own=False, mgr="CONNECTING", con="connecting", msgs=[m]))
    out.extend(gens_corpus())
    out.append(dict(kind="produce", objs=[["direct", "192.168.1.5", 4001, 0.0], ["relay", [["direct", "relay.example", 4001, 0.0]]],
                                          ["tor", "abc.onion", 80, 2.0], ["relay", []],
                                          ["relay", [["direct", "a", 1, 1.5], ["direct", "b", 2, -1.0]]],
                                          ["relay", [["tor", "a", 1, 1.5]]], ["direct", "h", 2 ** 40, 7]], real_sources=True))
    if tier == "thorough":
        # small-scope exhaustive: every field of a direct hint / relay sub-hint / the relay's own fields by every atom
        base = {"type": "direct-tcp-v1", "hostname": "a", "port": 1, "priority": 1.0}
        other = {"type": "direct-tcp-v1", "hostname": "a", "port": 1, "priority": 2}
        for k in ["type", "hostname", "port", "priority"]:
            for a in ATOMS + ["<deleted>"]:
                h = dict(base)
                if a == "<deleted>":
                    del h[k]
                else:
                    h[k] = a
                for hl in ([h, other], [{"type": "relay-v1", "hints": [other, h]}], [{"type": "relay-v1", "hints": [h]}, h, other]):
                    out.append(dict(kind="parse", values=hl))
                    for tor in (False, True):
                        out.append(dict(kind="transit", tor=tor, listener=False, own=False, receiver=False, adds=[hl]))
                        out.append(dict(kind="dilation", tor=tor, nolisten=False, own=False, mgr="CONNECTING",
                                        con="connecting", msgs=[{"type": "connection-hints", "hints": hl}]))
        for a in ATOMS:
            hl = [{"type": "relay-v1", "hints": a}, a, {"type": a, "hints": [base]}]
            out.append(dict(kind="parse", values=hl))
            out.append(dict(kind="transit", tor=False, listener=True, own=True, receiver=True, adds=[hl]))
            out.append(dict(kind="dilation", tor=False, nolisten=False, own=True, mgr="CONNECTING", con="connecting",
                            msgs=[{"type": "connection-hints", "hints": hl}]))
    for _ in range(900 * (1 if tier == "quick" else 40)):
        out.append(gen_gens(rng, adversarial=rng.random() < 0.4))
    for _ in range(3000 * (1 if tier == "quick" else 40)):
        adv = rng.random() < 0.5
        e = _env(rng)
        r = rng.random()
        if r < 0.25:
            out.append(dict(kind="parse", values=gen_hint_list(rng, adv) + [random_j(rng)]))
        elif r < 0.31:
            out.append(dict(kind="transit", tor=e["tor"], listener=e["listener"], own=e["own"], receiver=e["receiver"],
                            adds=twin_adds(rng)))
        elif r < 0.36:
            out.append(dict(kind="dilation", tor=e["tor"], nolisten=e["nolisten"], own=e["own"], mgr="CONNECTING", con="connecting",
                            msgs=[{"type": "connection-hints", "hints": a} for a in twin_adds(rng)]))
        elif r < 0.62:
            out.append(dict(kind="transit", tor=e["tor"], listener=e["listener"], own=e["own"], receiver=e["receiver"],
                            adds=[gen_hint_list(rng, adv) for _ in range(rng.choice([1, 1, 2, 3]))],
                            fates=rng.choice(FATES), win=rng.choice(["last", "last", "last", "none"])))
        elif r < 0.97:
            out.append(dict(kind="dilation", tor=e["tor"], nolisten=e["nolisten"], own=e["own"],
                            mgr=rng.choice(MGR_STATES), con=rng.choice(["connecting", "connecting", "connecting", "connected"]),
                            msgs=[{"type": "connection-hints", "hints": gen_hint_list(rng, adv)}
                                  for _ in range(rng.choice([1, 1, 2]))]))
        else:
            objs = []
            for _ in range(rng.randrange(1, 5)):
                if rng.random() < 0.4:
                    objs.append(["relay", [["direct", rng.choice(HOSTS), rng.choice(PORTS), float(rng.choice(PRIOS[:8]))]
                                           for _ in range(rng.randrange(0, 3))]])
                else:
                    objs.append([rng.choice(["direct", "direct", "tor"]), rng.choice(HOSTS), rng.choice(PORTS),
                                 rng.choice(PRIOS[:9])])
            out.append(dict(kind="produce", objs=objs, real_sources=False))
    return out


# ---------------------------------------------------------------------------
# the oracle's own notion of a valid source (independent of the code under test)

def valid_sources(hints, tor):
    """(hostname, port) of every hint / relay sub-hint that has a supported type, a `str` hostname and a
    non-bool `int` port.  The second component says whether the hint came from a relay entry."""
    ok = set()

    def tcp(h, relay):
        if isinstance(h, dict) and h.get("type") in ("direct-tcp-v1", "tor-tcp-v1"):
            host, port = h.get("hostname"), h.get("port")
            if type(host) is str and type(port) is int:
                ok.add((host, port, relay, h.get("type")))
    if isinstance(hints, list):
        for h in hints:
            tcp(h, False)
            if isinstance(h, dict) and h.get("type") == "relay-v1" and isinstance(h.get("hints"), list):
                for rh in h["hints"]:
                    tcp(rh, True)
    return ok


def judge_targets(viol, where, targets, sources, tor, own):
    """targets: [(host, port, is_relay)] that became connection attempts"""
    src = {(h, p, r) for (h, p, r, t) in sources if tor or t == "direct-tcp-v1" or where == "dilation-sched"}
    if own:
        src.add(("relay.example", 4001, True))
    for host, port, relay in targets:
        if type(host) is not str or type(port) is not int:
            viol.append(("invalid-target-dialled", f"{where}: connection attempt to host={host!r} port={port!r}"))
        elif (host, port, relay) not in src:
            viol.append(("target-without-valid-hint", f"{where}: connection attempt to {host!r}:{port!r} relay={relay} "
                                                      f"has no valid hint of a supported type behind it"))


# ---------------------------------------------------------------------------
# recorders

def _recording(world, kind, base):
    """subclass of the real endpoint class: same behaviour (HostnameEndpoint fails synchronously for a name it
    cannot IDNA-encode, TCP4/TCP6 call reactor.connectTCP), plus a record of the attempt"""
    class Recording(base):
        def __init__(self, reactor, host, port):
            base.__init__(self, reactor, host, port)
            self._c20 = (host, port)

        def connect(self, factory):
            d = base.connect(self, factory)
            host, port = self._c20
            world.dials.append((world.clock.seconds(), kind, host, port, world.phase))
            if d.called and isinstance(d.result, Failure):
                world.sync_failed.append((host, port))
            return d
    return Recording


class _Tor:
    """stand-in for the txtorcon object: `stream_via` gives a (real, recording) TCP endpoint; ValueError for
    hosts starting with '10.' (txtorcon refuses non-public addresses)"""

    def __init__(self, world):
        self.world = world
        self.ep = _recording(world, "tor", tw_endpoints.TCP4ClientEndpoint)

    def stream_via(self, host, port, tls=False):
        if host.startswith("10."):
            raise ValueError("non-public address")
        return self.ep(self.world.clock, host, port)


class World:
    def __init__(self):
        self.clock = MemoryReactorClock()       # connectTCP is recorded in .tcpClients and stays pending
        self.dials = []                         # every endpoint.connect(): (time, kind, host, port, phase)
        self.sync_failed = []                   # attempts whose Deferred had already failed when connect() returned
        self.phase = "sync"
        self.errors = []
        self._patches = [
            mock.patch.object(_hints, "TCP4ClientEndpoint", _recording(self, "tcp4", tw_endpoints.TCP4ClientEndpoint)),
            mock.patch.object(_hints, "TCP6ClientEndpoint", _recording(self, "tcp6", tw_endpoints.TCP6ClientEndpoint)),
            mock.patch.object(_hints, "HostnameEndpoint", _recording(self, "host", tw_endpoints.HostnameEndpoint)),
        ]

    def _observer(self, ev):
        if ev.get("isError"):
            f = ev.get("failure")
            self.errors.append(f.type.__name__ if f is not None else "error")

    def __enter__(self):
        for p in self._patches:
            p.start()
        txlog.addObserver(self._observer)
        return self

    def __exit__(self, *a):
        txlog.removeObserver(self._observer)
        for p in self._patches:
            p.stop()

    def run_timers(self, steps, delay):
        """fire the deferLater()s: time 0, then `steps` times one RELAY_DELAY (HostnameEndpoint's LoopingCall runs
        at most once per step)"""
        self.phase = "timer"
        self.clock.advance(0)
        for _ in range(steps):
            self.clock.advance(delay)

    def pending(self):
        return [(h, p) for (h, p, _f, _t, _b) in self.clock.tcpClients]


def expected_direct(hints, tor):
    """top-level hints that are valid in every field: these must become connection attempts whatever else is in the list"""
    out = []
    if isinstance(hints, list):
        for h in hints:
            if not isinstance(h, dict) or h.get("type") not in (("direct-tcp-v1", "tor-tcp-v1") if tor else ("direct-tcp-v1",)):
                continue
            host, port = h.get("hostname"), h.get("port")
            if type(host) is not str or type(port) is not int:
                continue
            if "priority" in h and type(h["priority"]) not in (int, float):
                continue
            if tor and host.startswith("10."):
                continue
            out.append((host, port))
    return out


def _fully_valid(h, tor):
    if not isinstance(h, dict) or h.get("type") not in (("direct-tcp-v1", "tor-tcp-v1") if tor else ("direct-tcp-v1",)):
        return None
    host, port = h.get("hostname"), h.get("port")
    if type(host) is not str or type(port) is not int:
        return None
    if "priority" in h and type(h["priority"]) not in (int, float):
        return None
    if tor and host.startswith("10."):
        return None
    return (host, port)


def expected_relay(hints, tor, all_lists):
    """sub-hints of relay-v1 entries that are valid in every field: these must become relay attempts.  Without Tor
    a tor-tcp-v1 sub-hint for the same host/port anywhere in the case may legitimately shadow the direct one
    (the two namedtuples are == and live in one set), so those targets are not demanded."""
    shadow = set()
    if not tor:
        for hl in all_lists:
            if isinstance(hl, list):
                for h in hl:
                    if isinstance(h, dict) and h.get("type") == "relay-v1" and isinstance(h.get("hints"), list):
                        for rh in h["hints"]:
                            if isinstance(rh, dict) and rh.get("type") == "tor-tcp-v1" and type(rh.get("hostname")) is str \
                                    and type(rh.get("port")) is int:
                                shadow.add((rh["hostname"], rh["port"]))
    out = []
    if isinstance(hints, list):
        for h in hints:
            if isinstance(h, dict) and h.get("type") == "relay-v1" and isinstance(h.get("hints"), list):
                for rh in h["hints"]:
                    hp = _fully_valid(rh, tor)
                    if hp is not None and hp not in shadow:
                        out.append(hp)
    return out


TCP_ERRORS = [tw_error.ConnectionRefusedError, tw_error.NoRouteError, tw_error.TCPTimedOutError, tw_error.TimeoutError,
              tw_error.ConnectError, tw_error.DNSLookupError, tw_error.ConnectBindError]


def fail_attempt(w, i, how):
    """attempt `i` (in the order the attempts were started) meets its fate: 't' the TCP connection fails
    (refused / no route / timed out …), 'h' it connects and the transit handshake goes wrong"""
    _host, _port, factory, _t, _b = w.clock.tcpClients[i]
    if how == "t":
        factory.clientConnectionFailed(w.clock.connectors[i], Failure(TCP_ERRORS[i % len(TCP_ERRORS)]()))
    else:
        proto = factory.buildProtocol(IPv4Address("TCP", "127.0.0.1", 1))
        proto.makeConnection(StringTransport())
        proto.dataReceived(b"HTTP/1.0 400 this is not a transit peer\n")
        proto.connectionLost(Failure(tw_error.ConnectionDone()))


def play_peer(w, t, key, i=-1):
    """be the peer on a started, still pending connection: complete the transit handshake"""
    host, port, factory, _t, _b = w.clock.tcpClients[i]
    proto = factory.buildProtocol(IPv4Address("TCP", "127.0.0.1", 1))
    proto.makeConnection(StringTransport())
    inner = getattr(factory, "_wrappedFactory", factory)
    if getattr(inner, "relay_handshake", None) is not None:
        proto.dataReceived(b"ok\n")
    if t.is_sender:
        proto.dataReceived(transit.build_receiver_handshake(key))
    else:
        proto.dataReceived(transit.build_sender_handshake(key) + b"go\n")
    return host, port


def _name(e):
    return type(e).__name__


# ---------------------------------------------------------------------------
# case runners

def run_parse(case):
    lines, exp, viol, tags = [], [], [], []
    for v in case["values"]:
        v = wire(v)
        tok = enc_j(v)
        try:
            r = _hints.parse_hint(v)
            out = show_hintobj(r)
        except Exception as e:
            r, out = None, _name(e)
            viol.append(("parse-raises", f"parse_hint({v!r}) raised {_name(e)}"))
        lines.append("parse " + tok)
        exp.append(out)
        tags.append("parse:" + out.split("(")[0].split("[")[0])
        try:
            t = _hints.parse_tcp_v1_hint(v)
            out2 = show_hintobj(t)
        except Exception as e:
            out2 = _name(e)
            viol.append(("parse-raises", f"parse_tcp_v1_hint({v!r}) raised {_name(e)}"))
        lines.append("ptcp " + tok)
        exp.append(out2)
        if r is not None:
            tcps = list(r.hints) if isinstance(r, RelayV1Hint) else [r]
            for t in tcps:
                # accepting is not yet dialling: the judged observations are the crashes and the connection
                # attempts in the transit / dilation cases; here only the distribution is recorded
                if type(t.hostname) is not str or type(t.port) is not int:
                    tags.append("accepted:bad-host-or-port")
                if type(t.priority) not in (int, float):
                    tags.append("accepted:bad-priority")
            # what this side would send for it, and what the peer parses back
            try:
                e1 = _hints.encode_hint(r)
                lines.append("enc " + tok)
                exp.append(enc_j(e1))
                back = _hints.parse_hint(wire(e1))
                lines.append("rt " + tok)
                exp.append(show_hintobj(back))
                want = [(t.hostname, t.port, t.priority) for t in tcps]
                got = [(t.hostname, t.port, t.priority) for t in (back.hints if isinstance(back, RelayV1Hint) else [back])]
                if not has_nan(v) and (want != got or isinstance(back, RelayV1Hint) != isinstance(r, RelayV1Hint)):
                    viol.append(("roundtrip-targets", f"parse(encode({r!r})) = {back!r}"))
            except Exception as e:
                viol.append(("roundtrip-raises", f"encode/parse of {r!r} raised {_name(e)}"))
    if has_surrogate(case["values"]):
        lines, exp = [], []
        tags.append("oracle-only:surrogate")
    return Result(lines, exp, viol, tags, nontrivial=any(isinstance(v, dict) for v in case["values"]))


def mk_obj(spec):
    if spec[0] == "relay":
        return RelayV1Hint(hints=tuple(mk_obj(s) for s in spec[1]))
    cls = DirectTCPV1Hint if spec[0] == "direct" else TorTCPV1Hint
    return cls(spec[1], spec[2], spec[3])


def run_produce(case):
    """hints this side produces -> encode_hint -> JSON -> parse_hint gives the same targets"""
    lines, exp, viol, tags = [], [], [], ["produce"]
    objs = [mk_obj(s) for s in case["objs"]]
    encoded = [_hints.encode_hint(o) for o in objs]
    if case.get("real_sources"):
        # the two real producers: Connector._publish_hints and Common.get_connection_hints
        sent = []
        mgr = mock.Mock()
        alsoProvides(mgr, dconn.IDilationManager)
        mgr.send_hints = lambda hs: sent.extend(hs)
        clock = Clock()
        c = dconn.Connector(b"\x00" * 32, RELAY_LOC, mgr, clock, EventualQueue(clock), True, None, None, SIDE, dconn.LEADER)
        c._publish_hints(c._transit_relays)
        c.listener_ready([DirectTCPV1Hint("192.168.1.5", 4001, 0.0), DirectTCPV1Hint("fe80::1", 4001, 0.0)])
        produced = list(c._transit_relays) + [DirectTCPV1Hint("192.168.1.5", 4001, 0.0), DirectTCPV1Hint("fe80::1", 4001, 0.0)]
        t = transit.TransitSender(RELAY_LOC, no_listen=True, reactor=clock)
        res = []
        t.get_connection_hints().addCallback(res.append)
        sent.extend(res[0])
        produced += list(t._transit_relays)
        objs += produced
        encoded += sent
    for o, e in zip(objs, encoded):
        try:
            back = _hints.parse_hint(wire(e))
        except Exception as ex:
            viol.append(("roundtrip-raises", f"parse_hint(encode_hint({o!r})) raised {_name(ex)}"))
            continue
        lines.append("parse " + enc_j(wire(e)))
        exp.append(show_hintobj(back))
        want = list(o.hints) if isinstance(o, RelayV1Hint) else [o]
        got = list(back.hints) if isinstance(back, RelayV1Hint) else [back]
        same_class = all(type(a) is type(b) for a, b in zip(want, got))
        all_direct = all(isinstance(a, DirectTCPV1Hint) for a in want)
        if [tuple(a) for a in want] != [tuple(b) for b in got] or isinstance(o, RelayV1Hint) != isinstance(back, RelayV1Hint):
            viol.append(("roundtrip-targets", f"parse(encode({o!r})) = {back!r}"))
        elif (all_direct or not isinstance(o, RelayV1Hint)) and not same_class:
            viol.append(("roundtrip-class", f"parse(encode({o!r})) = {back!r}"))
    return Result(lines, exp, viol, tags)


def _relay_conflict(relays):
    """two different RelayV1Hint set elements holding ==-equal tuples of different class"""
    rl = list(relays)
    for i, a in enumerate(rl):
        for b in rl[i + 1:]:
            for x in a.hints:
                for y in b.hints:
                    if tuple(x) == tuple(y) and type(x) is not type(y):
                        return True
    return False


def run_transit(case, force_tor=False):
    tor = case["tor"] or force_tor
    nan = has_nan(case["adds"])
    lines, exp, viol = [], [], []
    tags = ["transit", "transit:tor" if tor else "transit:notor"]
    with World() as w:
        cls = transit.TransitReceiver if case["receiver"] else transit.TransitSender
        t = cls(RELAY_LOC if case["own"] else None, no_listen=True, tor=_Tor(w) if tor else None, reactor=w.clock)
        t._get_direct_hints()
        if case["listener"]:
            t._listener_d = Deferred()
        t.set_transit_key(b"\x00" * 32)
        lines.append(f"tnew {int(tor)} {int(case['listener'])} {int(case['own'])}")
        exp.append("ok")
        sources = set()
        must_dial = []
        add_failed = False
        for hl in case["adds"]:
            v = wire(hl)
            sources |= valid_sources(v, tor)
            must_dial += expected_direct(v, tor) + expected_relay(v, tor, case["adds"])
            err = None
            try:
                t.add_connection_hints(v)
            except Exception as e:
                add_failed = True
                err = _name(e)
                if isinstance(v, list):
                    viol.append(("add-hints-raises", f"add_connection_hints({v!r}) raised {err}"))
                tags.append("add:" + err)
            if nan:
                lines.append("taddU " + enc_j(v))
                exp.append(err or "ok")
            else:
                lines.append("tadd " + enc_j(v))
                state = ("direct=[" + ",".join(show_tcp(h) for h in t._their_direct_hints) + "] relays=" +
                         show_set("(" + ";".join(show_tcp(x) for x in r.hints) + ")" for r in t._our_relay_hints))
                exp.append((err + " " if err else "") + state)
        if not tor and not force_tor and _relay_conflict(t._our_relay_hints):
            return run_transit(case, force_tor=True)
        if force_tor:
            tags.append("transit:class-conflict->tor")
        w.phase = "sync"
        err = None
        res = []
        try:
            t._connect().addBoth(res.append)
        except transit.TransitError:
            err = "TransitError"
            if case["listener"]:
                viol.append(("connect-raises", "TransitError although a listener is a contender"))
        except Exception as e:
            err = _name(e)
            viol.append(("connect-raises", f"_connect() raised {err} after hints {case['adds']!r}"))
        w.run_timers(sum(len(r.hints) for r in t._our_relay_hints) + 2, t.RELAY_DELAY)
        direct = [(h, p) for (tm, k, h, p, ph) in w.dials if ph == "sync"]
        relays = [(int(round(tm / t.RELAY_DELAY)), h, p) for (tm, k, h, p, ph) in w.dials if ph == "timer"]
        for (_tm, k, _h, _p, _ph) in w.dials:
            tags.append("ep:" + k)
        if nan:
            lines.append("tconnectU")
            exp.append(err or "targets=" + show_set([show_target(h, p) for h, p in direct] + [show_target(h, p) for _, h, p in relays]))
            tags.append("nan-priority")
        else:
            lines.append("tconnect")
            groups = []
            for k in sorted({k for k, _, _ in relays}):
                groups.append(f"{k}:" + show_set(show_target(h, p) for kk, h, p in relays if kk == k))
            exp.append(err or "direct=[" + ",".join(show_target(h, p) for h, p in direct) + "] relays=[" + ";".join(groups) + "]")
        if err:
            tags.append("connect:" + err)
        judge_targets(viol, "transit", [(h, p, False) for h, p in direct] + [(h, p, True) for _, h, p in relays],
                      sources, tor, case["own"])
        # ---- "never aborts the transfer; later valid hints are still dialled and can still win" on the real call chain
        if w.sync_failed:
            tags.append("attempt-failed-synchronously")
        if err == "TransitError" and must_dial and not add_failed:
            viol.append(("valid-hint-not-dialled", f"transit: 'No contenders' although the peer sent valid hints for {must_dial!r} "
                                                   f"(hints {case['adds']!r})"))
        if err is None:
            attempted = {(h, p) for (_tm, _k, h, p, _ph) in w.dials}
            if not add_failed:
                for hp in must_dial:
                    if hp not in attempted:
                        viol.append(("valid-hint-not-dialled", f"transit: valid hint {hp!r} never became a connection "
                                                               f"attempt (hints {case['adds']!r})"))
            pending = w.pending()
            n = len(pending)
            spec = case.get("fates") or ["p"]
            fate = [spec[i % len(spec)] for i in range(n)]
            if case.get("win", "last") == "last" and n:
                fate[-1] = "c"
            if res and pending:
                viol.append(("transfer-aborted-by-hint", f"connect() finished with {res[0]!r} while attempts to {pending!r} were "
                                                         f"still pending (hints {case['adds']!r}, synchronously failed: {w.sync_failed!r})"))
            else:
                # ---- the attempts meet their fates: dead hints first, then (if any) the one that connects
                dead = [(i, pending[i], fate[i]) for i in range(n) if fate[i] in "th"]
                for i, _hp, how in dead:
                    fail_attempt(w, i, how)
                if dead:
                    tags.append("dead-hints:" + "".join(sorted({f for _, _, f in dead})))
                    w.clock.advance(1.0)         # HostnameEndpoint notices that its only address failed
                alive = case["listener"] or any(f in "pc" for f in fate)
                if res and alive:
                    viol.append(("transfer-aborted-by-dead-hint",
                                 f"connect() finished with {res[0]!r} after the attempts {[(hp, f) for _, hp, f in dead]!r} failed "
                                 f"('t' = TCP-level failure, 'h' = bad handshake), although "
                                 f"{'the listener' if case['listener'] else 'other attempts'} could still win; all attempts: "
                                 f"{list(zip(pending, fate))!r} (hints {case['adds']!r})"))
                elif "c" in fate:
                    who = play_peer(w, t, b"\x00" * 32, n - 1)
                    tags.append("winner-played")
                    if not res or not isinstance(res[0], transit.Connection):
                        viol.append(("valid-hint-cannot-win", f"peer completed the handshake on {who!r} but connect() gave "
                                                              f"{(res[0] if res else 'nothing')!r} (attempts {list(zip(pending, fate))!r}, "
                                                              f"hints {case['adds']!r})"))
                elif not alive and not res:
                    viol.append(("connect-never-finishes", f"every attempt failed ({list(zip(pending, fate))!r}), no listener, "
                                                           f"and connect() has not fired"))
                if res and not isinstance(res[0], (Failure, transit.Connection)):
                    viol.append(("connect-result-not-a-connection", f"connect() fired with {res[0]!r} (attempts "
                                                                    f"{list(zip(pending, fate))!r}, hints {case['adds']!r})"))
                lines.append(f"trace {int(case['listener'])} " + " ".join(fate))
                exp.append("pending" if not res else "failed" if isinstance(res[0], Failure) else
                           f"connection {n - 1}" if isinstance(res[0], transit.Connection) else "bogus " + type(res[0]).__name__)
        for e in w.errors:
            tags.append("logged:" + e)
    if has_surrogate(case["adds"]):
        lines, exp = [], []           # not representable in the model's strings: oracle only
        tags.append("oracle-only:surrogate")
    return Result(lines, exp, viol, tags, nontrivial=bool(w.dials) or bool(t._their_direct_hints) or len(t._our_relay_hints) > 0)


def run_dilation(case):
    tor = case["tor"]
    nan = has_nan(case["msgs"])
    lines, exp, viol = [], [], []
    tags = ["dilation", "mgr:" + case["mgr"], "con:" + case["con"]]
    sched = []

    orig_sched = dconn.Connector._schedule_connection
    orig_ep = dconn.endpoint_from_hint_obj
    last_ep = []

    def rec_ep(h, tor_, reactor):
        ep = orig_ep(h, tor_, reactor)
        last_ep.append(ep is not None)
        return ep

    def rec_sched(self, delay, h, is_relay):
        n = len(last_ep)
        try:
            return orig_sched(self, delay, h, is_relay)
        finally:
            has = last_ep[n] if len(last_ep) > n else False
            sched.append((int(round(delay / self.RELAY_DELAY)), is_relay, h, has))

    def show_sched(s):
        d, r, h, has = s
        kind = "direct" if isinstance(h, DirectTCPV1Hint) else "tor"
        return f"{d}:{'R' if r else 'D'}:{kind}:{show_target(h.hostname, h.port)}:{'ep' if has else 'noep'}"

    with World() as w, mock.patch.object(dconn.Connector, "_start_listener", lambda self, addresses: None), \
            mock.patch.object(dconn.Connector, "_get_listener_addresses", lambda self: []), \
            mock.patch.object(dconn.Connector, "_schedule_connection", rec_sched), \
            mock.patch.object(dconn, "endpoint_from_hint_obj", rec_ep):
        eq = EventualQueue(w.clock)
        S = mock.Mock()
        alsoProvides(S, ISend)
        m = dman.Manager(S, SIDE, RELAY_LOC if case["own"] else None, w.clock, eq, Cooperator(scheduler=lambda f: w.clock.callLater(0, f)),
                         ["ged"], 30.0, None, case["nolisten"])
        if tor:
            m._tor = _Tor(w)
        m.got_dilation_key(b"\x00" * 32)
        m.got_wormhole_versions({"can-dilate": ["ged"]})          # -> WANTING
        if case["mgr"] != "WANTING":
            m.received_dilation_message(json.dumps({"type": "please", "side": "b" * 16}).encode())   # -> CONNECTING
            set_automat_state(m._connector, case["con"])
            if case["mgr"] != "CONNECTING":
                set_automat_state(m, case["mgr"])
        con = case["con"] if case["mgr"] != "WANTING" else "connecting"
        lines.append(f"dnew {int(tor)} {int(case['nolisten'])} {int(case['own'] and case['mgr'] != 'WANTING')} {case['mgr']} {con}")
        exp.append("sched=[" + ",".join(show_sched(s) for s in sched) + "]")
        sources = set()
        must_dial = []
        dead = False
        for msg in case["msgs"]:
            v = wire(msg)
            in_scope = isinstance(v.get("hints"), list)
            if in_scope:
                sources |= valid_sources(v["hints"], tor)
                if case["mgr"] == "CONNECTING" and con == "connecting":
                    must_dial += expected_direct(v["hints"], tor) + expected_relay(
                        v["hints"], tor, [m.get("hints") for m in case["msgs"] if isinstance(m, dict)])
            before = len(sched)
            err = None
            try:
                m.received_dilation_message(json.dumps(v).encode())
            except Exception as e:
                err = _name(e)
                if in_scope or STRICT_MESSAGE_SHAPE:
                    viol.append(("rx-hints-raises" if in_scope else "dilation-hints-field-shape",
                                 f"received_dilation_message({v!r}) raised {err}"))
                else:
                    tags.append("outside-quantifier:" + err)
            st = f"{automat_state(m)} " + (automat_state(m._connector) if getattr(m, "_connector", None) is not None else "connecting")
            new = [show_sched(s) for s in sched[before:]]
            if nan:
                lines.append("dmsgU " + enc_j(v))
                exp.append(err or st + " sched=" + show_set(new))
            else:
                lines.append("dmsg " + enc_j(v))
                exp.append(err or st + " sched=[" + ",".join(new) + "]")
            if err:
                tags.append("rx:" + err)
                dead = True
                break
        if not dead:
            w.run_timers(2, dconn.Connector.RELAY_DELAY)
            attempted = {(h, p) for (_tm, _k, h, p, _ph) in w.dials}
            for hp in must_dial:
                if hp not in attempted:
                    viol.append(("valid-hint-not-dialled", f"dilation: valid hint {hp!r} never became a connection "
                                                           f"attempt (messages {case['msgs']!r})"))
            d0 = [(tm, h, p) for (tm, k, h, p, ph) in w.dials]
            if nan:
                lines.append("ddialU")
                exp.append("targets=" + show_set(show_target(h, p) for _, h, p in d0))
            else:
                lines.append("ddial")
                exp.append("dial=[" + ",".join(f"{int(round(tm / dconn.Connector.RELAY_DELAY))}:{show_target(h, p)}" for tm, h, p in d0) + "]")
        judge_targets(viol, "dilation-sched", [(h.hostname, h.port, r) for (_d, r, h, _e) in sched], sources, tor, case["own"])
        dialled_src = {(h.hostname, h.port) for (_d, r, h, has) in sched if has}
        for (_tm, k, h, p, _ph) in w.dials:
            tags.append("ep:" + k)
            if (h, p) not in dialled_src:
                viol.append(("target-without-valid-hint", f"dilation: dialled {h!r}:{p!r} which was never scheduled"))
        for e in w.errors:
            tags.append("logged:" + e)
        if any(not has for (_d, _r, _h, has) in sched):
            tags.append("scheduled-without-endpoint")
        if w.sync_failed:
            tags.append("attempt-failed-synchronously")
    if has_surrogate(case["msgs"]):
        lines, exp = [], []
        tags.append("oracle-only:surrogate")
    return Result(lines, exp, viol, tags, nontrivial=bool(sched))


class _FakeConn(mock.Mock):
    """the connection that wins the race (the Noise handshake is not part of this property)"""


def run_gens(case):
    """one real Manager through a history: several Connectors, hints messages in every state and generation"""
    tor = case["tor"]
    lines, exp, viol = [], [], []
    tags = ["gens", "gens:" + case.get("name", "walk"), "gens:status-cb=%d" % case["status"]]
    connectors = []         # every Connector made, in order of creation
    sched = []              # (k, delay units, is_relay, hint object, has endpoint): every _schedule_connection call
    connects = []           # (k, ep is not None, connector state when the timer fired, [dials made by this call])
    statuses = []
    last_ep = []

    orig_post = dconn.Connector.__attrs_post_init__
    orig_sched = dconn.Connector._schedule_connection
    orig_connect = dconn.Connector._connect
    orig_ep = dconn.endpoint_from_hint_obj

    def number(c):
        for i, x in enumerate(connectors):
            if x is c:
                return i
        connectors.append(c)
        return len(connectors) - 1

    def rec_post(self):
        connectors.append(self)
        return orig_post(self)

    def rec_ep(h, tor_, reactor):
        ep = orig_ep(h, tor_, reactor)
        last_ep.append(ep is not None)
        return ep

    def rec_sched(self, delay, h, is_relay):
        n = len(last_ep)
        try:
            return orig_sched(self, delay, h, is_relay)
        finally:
            has = last_ep[n] if len(last_ep) > n else False
            sched.append((number(self), int(round(delay / self.RELAY_DELAY)), is_relay, h, has))

    def rec_connect(self, ep, description, is_relay=False):
        n = len(w.dials)
        rec = [number(self), ep is not None, automat_state(self), []]
        connects.append(rec)
        try:
            return orig_connect(self, ep, description, is_relay)
        finally:
            rec[3] = [(h, p) for (_tm, _k, h, p, _ph) in w.dials[n:]]

    def show_gsched(e):
        k, d, r, h, has = e
        kind = "direct" if isinstance(h, DirectTCPV1Hint) else "tor"
        return f"{k}:{d}:{'R' if r else 'D'}:{kind}:{show_target(h.hostname, h.port)}:{'ep' if has else 'noep'}"

    def status_cb(st):
        statuses.append(st)
        if case["status"] == 2:
            try:
                st.hints.clear()          # the very object the Manager keeps in _latest_status
            except Exception:
                pass

    def show_status():
        hs = m._latest_status.hints
        if not isinstance(hs, (set, frozenset)):
            return "<" + type(hs).__name__ + ">"
        items = []
        for x in hs:
            url, direct = getattr(x, "url", None), getattr(x, "is_direct", None)
            items.append((hx(url.encode("utf8", "surrogatepass")) if isinstance(url, str) else "<" + type(x).__name__ + ">") +
                         (":D" if direct is True else ":R" if direct is False else ":?"))
        return show_set(items)

    with World() as w, mock.patch.object(dconn.Connector, "_start_listener", lambda self, addresses: None), \
            mock.patch.object(dconn.Connector, "_get_listener_addresses", lambda self: []), \
            mock.patch.object(dconn.Connector, "__attrs_post_init__", rec_post), \
            mock.patch.object(dconn.Connector, "_schedule_connection", rec_sched), \
            mock.patch.object(dconn.Connector, "_connect", rec_connect), \
            mock.patch.object(dconn, "endpoint_from_hint_obj", rec_ep):
        eq = EventualQueue(w.clock)
        S = mock.Mock()
        alsoProvides(S, ISend)
        m = dman.Manager(S, SIDE, RELAY_LOC if case["own"] else None, w.clock, eq, Cooperator(scheduler=lambda f: w.clock.callLater(0, f)),
                         ["ged"], 3000.0, None, case["nolisten"], status_cb if case["status"] else None)
        if tor:
            m._tor = _Tor(w)
        m.got_dilation_key(b"\x00" * 32)
        m.got_wormhole_versions({"can-dilate": ["ged"]})          # -> WANTING

        seen = dict(sched=0, connects=0)

        def result_line():
            con = getattr(m, "_connector", None)
            new_s = sched[seen["sched"]:]
            new_c = connects[seen["connects"]:]
            seen["sched"], seen["connects"] = len(sched), len(connects)
            dial = [f"{k}:{show_target(h, p)}" for (k, has, _st, ds) in new_c if has for (h, p) in ds]
            noep = sum(1 for (_k, has, _st, _ds) in new_c if not has)
            return (f"{automat_state(m)} {automat_state(con) if con is not None else '-'} g{len(connectors)} sched=[" +
                    ",".join(show_gsched(e) for e in new_s) + "] dial=[" + ",".join(dial) + f"] noep={noep} st=" + show_status()), new_s, new_c

        lines.append(f"gnew {int(tor)} {int(case['nolisten'])} {int(case['own'])} {int(case['status'] == 2)}")
        exp.append(result_line()[0])
        sources = set()
        all_lists = [op[1] for op in case["ops"] if op[0] == "hints"]
        must = {}               # Connector number -> [(host, port)] that must have been dialled at its next tick
        selected = False        # a connection has been selected and is not lost yet
        done = []               # the ops performed so far (hint lists elided), for messages
        for op in case["ops"]:
            kind = op[0]
            mgr0 = automat_state(m)
            con0 = getattr(m, "_connector", None)
            # what the network cannot do is not done: no attempt completes without a Connector, a connection is lost once
            if (kind == "made" and con0 is None) or (kind == "lost" and not selected):
                tags.append("gens:skipped-" + kind)
                continue
            if kind == "lost":
                selected = False
            con0s = automat_state(con0) if con0 is not None else "-"
            err = None
            refused = False
            in_scope = True
            msg = None
            try:
                if kind == "please":
                    lines.append("gplease " + op[1])
                    m.received_dilation_message(json.dumps({"type": "please", "side": ("0" if op[1] == "L" else "b") * 16}).encode())
                elif kind in ("hints", "hintsmsg"):
                    msg = wire({"type": "connection-hints", "hints": op[1]} if kind == "hints" else op[1])
                    in_scope = isinstance(msg.get("hints"), list)
                    lines.append("ghints " + enc_j(msg))
                    if in_scope:
                        sources |= valid_sources(msg["hints"], tor)
                    m.received_dilation_message(json.dumps(msg).encode())
                elif kind in ("reconnect", "reconnecting"):
                    lines.append("g" + kind)
                    m.received_dilation_message(json.dumps({"type": kind}).encode())
                elif kind == "made":
                    lines.append("gmade")
                    c = _FakeConn()
                    c._description = "fake"
                    m._connector.add_candidate(c)
                    w.phase = "timer"
                    w.clock.advance(0)
                elif kind == "lost":
                    lines.append("glost")
                    m.connector_connection_lost()
                elif kind == "stop":
                    lines.append("gstop")
                    m.stop()
                elif kind == "tick":
                    lines.append("gtick")
                    w.run_timers(2, dconn.Connector.RELAY_DELAY)
                else:
                    raise ValueError(kind)
            except Exception as e:
                err = _name(e)
                # NoTransition of the *Manager's* machine (the message has no row in this state) is raised before
                # anything changes and is compared with the generated table; NoTransition from inside an output
                # (e.g. got_hints on a Connector that was stopped) is a failure of hint handling like any other
                refused = err == "NoTransition" and (kind == "made" or "MethodicalInput(method=<function Manager." in str(e))
            line, new_s, new_c = result_line()
            exp.append(err or line)
            tags.append(f"gens:{kind}@{mgr0}" + ("" if err is None else ":" + err))
            if kind in ("hints", "hintsmsg") and len(connectors) > 1 and mgr0 == "CONNECTING":
                tags.append("gens:hints-in-generation>0")
            if kind == "reconnect" and mgr0 == "CONNECTING":
                tags.append("gens:abandoned-while-connecting" + ("+relay" if case["own"] else ""))
            # ---- oracle
            done.append(op if kind not in ("hints", "hintsmsg") else [kind, "…"])
            history = list(done)
            if err is not None and not refused:
                if kind in ("hints", "hintsmsg"):
                    if in_scope or STRICT_MESSAGE_SHAPE:
                        viol.append(("rx-hints-raises" if in_scope else "dilation-hints-field-shape",
                                     f"received_dilation_message({msg!r}) raised {err} in state {mgr0}/{con0s}, generation "
                                     f"{len(connectors) - 1}, after {history[:-1]!r} (relay={case['own']}, status callback={case['status']})"))
                    else:
                        tags.append("outside-quantifier:" + err)
                else:
                    viol.append(("generation-change-raises", f"{kind} in state {mgr0}/{con0s} raised {err} after {history[:-1]!r} "
                                                            f"(relay={case['own']}, status callback={case['status']}): the new "
                                                            f"generation's use of hints never happens"))
                break
            if err is not None:
                tags.append("gens:no-row")
                continue
            if kind == "made" and automat_state(m) == "CONNECTED":
                selected = True
            cur = len(connectors) - 1
            for (k, _d, _r, h, _has) in new_s:
                if kind in ("hints", "hintsmsg") and (k != cur or con0 is None or connectors[k] is not con0):
                    viol.append(("hints-reach-wrong-generation", f"hints message in generation {cur} made Connector {k} schedule "
                                                                 f"{h.hostname!r}:{h.port!r} (history {history!r})"))
            judge_targets(viol, "dilation-sched", [(h.hostname, h.port, r) for (_k, _d, r, h, _e) in new_s], sources, tor, case["own"])
            for (k, has, cst, ds) in new_c:
                if cst != "connecting" or k != cur:
                    viol.append(("abandoned-generation-dialled", f"a timer of Connector {k} (state {cst}) fired during {kind} although "
                                                                 f"the current generation is {cur} (history {history!r})"))
                okset = {(h.hostname, h.port) for (kk, _d, _r, h, e) in sched if kk == k and e}
                for hp in ds:
                    if hp not in okset:
                        viol.append(("target-without-valid-hint", f"gens: Connector {k} dialled {hp!r} which it never scheduled"))
            if kind == "hints" and mgr0 == "CONNECTING" and con0s == "connecting":
                must.setdefault(cur, []).extend(expected_direct(msg["hints"], tor) + expected_relay(msg["hints"], tor, all_lists))
            if kind in ("made", "reconnect", "reconnecting", "stop", "lost"):
                # the Connector may have been stopped / may have selected its winner: its pending timers are cancelled
                for k in list(must):
                    if automat_state(connectors[k]) != "connecting" or k != len(connectors) - 1:
                        if must.pop(k):
                            tags.append("gens:cancelled-before-dial")
            if kind == "tick":
                for k in list(must):
                    attempted = {hp for (kk, has, _st, ds) in connects if kk == k for hp in ds}
                    for hp in must.pop(k):
                        if hp not in attempted:
                            viol.append(("valid-hint-not-dialled", f"gens: valid hint {hp!r} sent in generation {k} never became a "
                                                                   f"connection attempt of that generation's Connector (history {history!r}, "
                                                                   f"relay={case['own']})"))
        # ---- nothing may be logged as an error except what the attempts themselves explain
        allowed = {"AttributeError": sum(1 for (_k, has, _st, _ds) in connects if not has), "ValueError": len(w.sync_failed)}
        for name in sorted(set(w.errors)):
            tags.append("logged:" + name)
            if w.errors.count(name) > allowed.get(name, 0):
                viol.append(("error-logged-while-handling-hints", f"gens: {w.errors.count(name)} x {name} logged, {allowed.get(name, 0)} "
                                                                  f"explained by attempts without endpoint / with an unusable host name "
                                                                  f"(ops {[o[0] for o in case['ops']]!r})"))
        for (_k, _d, _r, _h, has) in sched:
            if not has:
                tags.append("scheduled-without-endpoint")
                break
        for (_tm, k, _h, _p, _ph) in w.dials:
            tags.append("ep:" + k)
        if case["status"]:
            tags.append("gens:status-updates>0" if statuses else "gens:status-updates=0")
    return Result(lines, exp, viol, tags, nontrivial=bool(sched))


def run_case(case):
    k = case["kind"]
    if k == "parse":
        return run_parse(case)
    if k == "produce":
        return run_produce(case)
    if k == "transit":
        return run_transit(case)
    if k == "dilation":
        return run_dilation(case)
    if k == "gens":
        return run_gens(case)
    raise ValueError(k)


def search(rng, seconds, seeds):
    import time
    t0 = time.time()
    for c in seeds:
        yield c, run_case(c)
    while time.time() - t0 < seconds:
        for c in cases(rng, "quick"):
            yield c, run_case(c)
            if time.time() - t0 > seconds:
                return


def shrink(case):
    k = case.get("kind")
    if k == "gens":
        ops = case["ops"]
        for i in range(len(ops)):
            if len(ops) > 1:
                yield dict(case, ops=ops[:i] + ops[i + 1:])
        for i, op in enumerate(ops):
            if op[0] == "hints" and isinstance(op[1], list):
                for j in range(len(op[1])):
                    yield dict(case, ops=ops[:i] + [["hints", op[1][:j] + op[1][j + 1:]]] + ops[i + 1:])
        for key in ("own", "tor", "nolisten"):
            if case.get(key):
                yield dict(case, **{key: False})
        if case.get("status"):
            yield dict(case, status=0)
        return
    if k == "parse":
        vs = case["values"]
        for i in range(len(vs)):
            if len(vs) > 1:
                yield dict(case, values=vs[:i] + vs[i + 1:])
    elif k in ("transit", "dilation"):
        key = "adds" if k == "transit" else "msgs"
        groups = case[key]
        for i in range(len(groups)):
            if len(groups) > 1:
                yield dict(case, **{key: groups[:i] + groups[i + 1:]})
        for i, g in enumerate(groups):
            hl = g if k == "transit" else g.get("hints")
            if not isinstance(hl, list):
                continue
            for j in range(len(hl)):
                smaller = hl[:j] + hl[j + 1:]
                ng = smaller if k == "transit" else dict(g, hints=smaller)
                yield dict(case, **{key: groups[:i] + [ng] + groups[i + 1:]})
            for j, h in enumerate(hl):
                if isinstance(h, dict) and isinstance(h.get("hints"), list) and len(h["hints"]) > 1:
                    for q in range(len(h["hints"])):
                        nh = dict(h, hints=h["hints"][:q] + h["hints"][q + 1:])
                        nl = hl[:j] + [nh] + hl[j + 1:]
                        ng = nl if k == "transit" else dict(g, hints=nl)
                        yield dict(case, **{key: groups[:i] + [ng] + groups[i + 1:]})
