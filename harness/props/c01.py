"""C01 — the session key is bound to the wormhole code: correspondence + oracle on the real code.

Two real `wormhole.create()` clients against the real mailbox-server objects (harness/worlds/mailbox.py,
real SPAKE2 / NaCl / HKDF).  The key-agreement core of each client (Key, _SortedKey, Order, Receive,
Send, Boss + derive_key) is observed at the boundary the Lean model `WV.C01` is written for: every
call of `B.got_code`/`K.got_code`, `O.got_message`, `B.send`, `B.close`, `B.closed` becomes one
operation line, and what the real objects did in that call (machine states, `W.*` events,
`M.add_message`, `T.close`, exception) is the expected output line.  The taps are instance attributes
set by this module inside the harness process; nothing in /repo is touched.

The oracle is the property sentence itself over the application-visible observations
(`Client.events`, `derive_key` results, close verdicts), independent of the taps.
"""
import json
import random
import time
import unicodedata

from ..core import Result
from ..util import automat_state
from ..worlds import mailbox as mb

ID = "C01"
PROP_MODULES = ["WV.Props.C01"]
TRUSTED = ["SPAKE2 (ideal: two honest parties get the same key iff password and idSymmetric agree; exercised with the real library)",
           "HKDF-SHA256 (ideal: collision-free in (key, info) for 1 <= n <= 255*32 — computational, not information-theoretic; ValueError above 255*32; empty output at n = 0)",
           "SHA-256 injective, SecretBox rejects a ciphertext under a different key (ideal)",
           "Unicode NFC tables (abstract idempotent normaliser in Lean; python's unicodedata is the reference in the harness)",
           "JSON framing of the pake body (abstracted to a tag) and of the versions dict (identity)",
           "Nameplate/Mailbox/Terminator/RendezvousConnector and the server: not part of this model (C03/C08/C09/C14)"]
RULE = ("pairs of codes {equal, one char changed, case changed, nameplate changed, NFC/NFD spellings, NFC-different look-alikes} "
        "x appids {equal, different, NFC-equivalent} x entry mode {set_code, allocate+set_code, input_code with the peer's PAKE "
        "before/after the words} x Deferred/delegated API x random delivery schedules with re-ordered message frames x sends "
        "before/after verification; codes/appids that cannot meet on a conformant server are additionally cross-delivered by "
        "hand; derive_key for purposes {'', 'a', 'a\\0', long, non-ASCII NFC/NFD} x lengths {0, 1, 16, 32, 64, 8160, 8161}; "
        "plus 2-3 independent sessions (different nameplates, matching or near-miss codes) alive in one process, with the "
        "peer's VERSION delivered before its PAKE on one session while the others run their key exchange, optionally "
        "leaving that session unfinished; every session judged separately by the same oracle; "
        "non-trivial = a PAKE exchange happened; distinct = distinct canonical model-boundary traces")

NFC = lambda s: unicodedata.normalize("NFC", s)  # noqa: E731  (reference normaliser: python's, not the repo's)
NFD = lambda s: unicodedata.normalize("NFD", s)  # noqa: E731

HKDF_MAX = 255 * 32
PURPOSES = ["", "a", "a\0", "b" * 300, NFC("caf\u00e9"), NFD("caf\u00e9"), NFC("\u00c5"), NFD("\u00c5"), NFC("\ud55c"), NFD("\ud55c")]
LENGTHS = [0, 1, 16, 32, 64, HKDF_MAX, HKDF_MAX + 1]
QUICK_PURPOSES = ["", "a", "a\0", NFC("caf\u00e9"), NFD("caf\u00e9")]
QUICK_LENGTHS = [16, 32, HKDF_MAX]

# words with several Unicode spellings: (text, description)
UNI_WORDS = ["caf\u00e9", "\u00c5ngstr\u00f6m", "\ud55c\uae00", "\ufb03x", "na\u00efve-\u00e9t\u00e9", "\u1e9b\u0323"]
# look-alikes that are NOT NFC-equal
LOOKALIKES = [("\u00c5", "A"), ("\u0430bc", "abc"), ("\ufb03", "ffi"), ("\u03a9", "O"), ("\u00e9", "e"), ("\u00e9", "\u00e8")]


def hx(b):
    return b.hex() if b else "-"


def hs(s):
    return hx(s.encode("utf-8"))


# ---------------------------------------------------------------------------
# taps: observe the model boundary on the real objects

class Tap:
    """Records, for one real client, every boundary call as (operation line, canonical result line)."""

    def __init__(self, run, client):
        self.run = run
        self.c = client
        self.i = client.index
        self.buf = []          # events since creation
        self.stack = []        # boundary calls in progress: [line, start-index in buf, emitted?]
        self.code_open = False
        self.off = False       # the client left the modelled part (server error, internal error, …)
        self.sent = {}         # phase -> body of our M.add_message calls
        self.heard = 0         # non-PAKE peer messages handed to Order
        self.heard_pake = 0
        b = client.boss
        w = b._W
        self._wrap_out(w, "got_code", lambda code: "code " + hs(code))
        self._wrap_out(w, "got_key", lambda key: "key #%d" % run.val(key))
        self._wrap_out(w, "got_verifier", lambda v: "verifier #%d" % run.val(v))
        self._wrap_out(w, "got_versions", lambda v: "versions " + hx(json.dumps(v, sort_keys=True).encode()))
        self._wrap_out(w, "received", lambda p: "msg " + hx(p))
        self._wrap_out(w, "closed", lambda r: "closed " + mb.verdict_name(r))
        self._wrap_out(b._M, "add_message", self._added)
        self._wrap_out(b._T, "close", lambda mood: "tclose " + mood)
        self._wrap_code(b, b._K)
        self._wrap_in(b._O, "got_message", self._rx_line)
        self._wrap_in(b, "send", lambda pt: "send %d %s" % (self.i, hx(pt)))
        self._wrap_in(b, "close", lambda: "close %d" % self.i)
        self._wrap_in(b, "closed", lambda: "closed %d" % self.i)
        for name in ("rx_error", "rx_unwelcome", "error"):
            self._wrap_off(b, name)

    def _added(self, phase, body):
        self.sent.setdefault(phase, body)
        return "add " + phase

    def _rx_line(self, side, phase, body):
        frm = self.run.side_index(side)
        if phase == "pake":
            self.heard_pake += 1
        elif frm is not None and frm != self.i:
            self.heard += 1
        if frm is not None and self.run.taps[frm].sent.get(phase) == body:
            return "rx %d %d %s" % (self.i, frm, phase)
        kind = "garbage"
        if phase == "pake":
            kind = pake_kind(body, self.sent.get("pake"))
        return "rxbad %d %d %s %s" % (self.i, frm if frm is not None else 9, phase, kind)

    def _wrap_out(self, obj, name, show):
        orig = getattr(obj, name)

        def wrapper(*a, **kw):
            self.buf.append(show(*a, **kw))
            return orig(*a, **kw)
        setattr(obj, name, wrapper)

    def _wrap_off(self, obj, name):
        orig = getattr(obj, name)

        def wrapper(*a, **kw):
            self._flush_open()
            self.off = True
            return orig(*a, **kw)
        setattr(obj, name, wrapper)

    def states(self):
        b = self.c.boss
        return "K=%s SK=%s O=%s R=%s S=%s B=%s" % (
            automat_state(b._K), automat_state(b._K._SK), automat_state(b._O), automat_state(b._R),
            automat_state(b._S), automat_state(b))

    def _emit(self, line, start, head):
        if self.off:
            return
        self.run.lines.append(line)
        self.run.expect.append("%s %s | %s" % (head, self.states(), "; ".join(self.buf[start:])))

    def _begin(self, line):
        # a nested boundary call starts while another is in progress (e.g. Terminator answering
        # `closed` synchronously from inside `close`): the outer call's effects so far are its line
        self._flush_open()
        self.stack.append([line, len(self.buf), False])

    def _flush_open(self):
        if self.stack and not self.stack[-1][2]:
            top = self.stack[-1]
            self._emit(top[0], top[1], "ok")
            top[2] = True

    def _end(self, head):
        top = self.stack.pop()
        if not top[2]:
            self._emit(top[0], top[1], head)

    def _wrap_in(self, obj, name, line):
        orig = getattr(obj, name)

        def wrapper(*a, **kw):
            self._begin(line(*a, **kw))
            try:
                r = orig(*a, **kw)
            except Exception as e:
                self._end(exc_name(e))
                raise
            self._end("ok")
            return r
        setattr(obj, name, wrapper)

    def _wrap_code(self, boss, key):
        """`code i <hex>` = B.got_code(code) followed by K.got_code(code) (Code.do_set_code,
        do_finish_input, do_finish_allocate)"""
        orig_b = boss.got_code
        orig_k = key.got_code

        def b_wrapper(code):
            self._begin("code %d %s" % (self.i, hs(code)))
            self.code_open = True
            try:
                return orig_b(code)
            except Exception as e:
                self.code_open = False
                self._end(exc_name(e))
                raise

        def k_wrapper(code):
            if not self.code_open:
                self._begin("code %d %s" % (self.i, hs(code)))
            self.code_open = False
            try:
                r = orig_k(code)
            except Exception as e:
                self._end(exc_name(e))
                raise
            self._end("ok")
            return r
        boss.got_code = b_wrapper
        key.got_code = k_wrapper


def pake_element(body):
    """the SPAKE2 element a PAKE body carries, or None when it carries no usable one (not JSON, not
    an object, no pake_v1, not a hex string) — decided with json/binascii, not with the repo's code"""
    try:
        d = json.loads(body.decode("utf-8"))
        if not isinstance(d, dict) or not isinstance(d.get("pake_v1"), str):
            return None
        return bytes.fromhex(d["pake_v1"]) if all(ch in "0123456789abcdefABCDEF" for ch in d["pake_v1"]) \
            and len(d["pake_v1"]) % 2 == 0 else None
    except Exception:
        return None


def pake_kind(body, own_body):
    """nopake = no usable element; refused = an element the SPAKE2 library refuses (malformed, not a
    group element, wrong side byte, our own element reflected); accepted = a stranger's valid element.
    Decided with the spake2 library's own group decoding (external behaviour, like NFC)."""
    elem = pake_element(body)
    if elem is None:
        return "nopake"
    if own_body is not None and elem == pake_element(own_body):
        return "refused"
    if elem[:1] != b"S":
        return "refused"
    try:
        from spake2.parameters.ed25519 import ParamsEd25519
        ParamsEd25519.group.bytes_to_element(elem[1:])
        return "accepted"
    except Exception:
        return "refused"


HOSTILE = ["notjson", "deepjson", "jsonlist", "jsonstr", "nokey", "notstr", "nothex", "oddhex", "nonascii", "empty", "short",
           "long", "wrongside", "nonpoint", "zero", "offcurve", "reflect", "random", "foreign"]


def hostile_body(kind, own_body, seed):
    r = random.Random(seed)
    j = lambda d: json.dumps(d).encode("utf-8")  # noqa: E731
    if kind == "notjson":
        return b"\xff\xfe not json"
    if kind == "deepjson":
        return b"[" * 5000          # json.loads gives up with RecursionError (a RuntimeError), not a ValueError
    if kind == "jsonlist":
        return b"[1, 2]"
    if kind == "jsonstr":
        return b'"pake_v1"'
    if kind == "nokey":
        return j({"pake_v2": "00"})
    if kind == "notstr":
        return j({"pake_v1": 5})
    if kind == "nothex":
        return j({"pake_v1": "zz"})
    if kind == "oddhex":
        return j({"pake_v1": "abc"})
    if kind == "nonascii":
        return j({"pake_v1": "\u00e9\u00e9"})
    if kind == "empty":
        return j({"pake_v1": ""})
    if kind == "short":
        return j({"pake_v1": "53" + "00" * 5})
    if kind == "long":
        return j({"pake_v1": "53" + "01" * 40})
    if kind == "wrongside":
        return j({"pake_v1": "41" + bytes(r.randrange(256) for _ in range(32)).hex()})
    if kind == "nonpoint":
        return j({"pake_v1": "53" + "ff" * 32})
    if kind == "offcurve":
        # y = 2 is the y-coordinate of no curve point: spake2 raises ed25519_basic.NotOnCurve (a plain Exception)
        return j({"pake_v1": "53" + "02" + "00" * 31})
    if kind == "zero":
        return j({"pake_v1": "53" + "00" * 32})
    if kind == "reflect":
        return own_body if own_body is not None else j({"pake_v1": "53"})
    if kind == "random":
        return j({"pake_v1": "53" + bytes(r.randrange(256) for _ in range(32)).hex()})
    if kind == "foreign":
        from spake2 import SPAKE2_Symmetric
        sp = SPAKE2_Symmetric(b"some other code", idSymmetric=b"x", entropy_f=lambda n: bytes(r.randrange(256) for _ in range(n)))
        return j({"pake_v1": sp.start().hex()})
    raise ValueError(kind)


def exc_name(e):
    n = type(e).__name__
    if type(e).__module__.startswith("spake2"):
        return "SPAKEError"
    return n


class Run:
    def __init__(self, world):
        self.W = world
        self.lines = []
        self.expect = []
        self.vals = {}
        self.taps = []
        self.hostile_kind = None

    def val(self, b):
        b = bytes(b)
        if b not in self.vals:
            self.vals[b] = len(self.vals)
        return self.vals[b]

    def side_index(self, side):
        for t in self.taps:
            if t.c.side == side:
                return t.i
        return None

    def line(self, op, exp):
        self.lines.append(op)
        self.expect.append(exp)


# ---------------------------------------------------------------------------
# cases

_ND = None


def nd_digits():
    """value -> every Unicode decimal digit (category Nd) of that value, one list per value 0..9"""
    global _ND
    if _ND is None:
        _ND = {d: [] for d in range(10)}
        for cp in range(0x80, 0x110000):
            ch = chr(cp)
            if unicodedata.category(ch) == "Nd":
                _ND[unicodedata.digit(ch)].append(ch)
    return _ND


def respell_nameplate(np_, how, rng):
    """a different STRING with the same integer value (`int()` and `\\d` accept both): leading zeros,
    the decimal digits of another script (any Unicode Nd block), or both"""
    nd = nd_digits()
    if how == "np_zero":
        return "0" * rng.choice([1, 1, 2, 5]) + np_
    if how == "np_script":
        # one script for the whole number: pick a block by the position of its zero
        k = rng.randrange(len(nd[0]))
        out = "".join(nd[int(ch)][k] if ch.isascii() else ch for ch in np_)
        return out
    if how == "np_mixed":
        out = "".join(rng.choice(nd[int(ch)] + [ch]) for ch in np_)
        if out == np_:
            out = rng.choice(nd[int(np_[0])]) + np_[1:]
        return rng.choice(["", "0", rng.choice(nd[0])]) + out
    raise ValueError(how)


NP_SPELLINGS = ("np_zero", "np_script", "np_mixed")


def transform(code, how, rng):
    """a near-miss of `code` (never NFC-equal to it)"""
    np_, _, rest = code.partition("-")
    if how == "char":
        i = rng.randrange(len(rest))
        ch = rest[i]
        repl = "x" if ch != "x" else "y"
        if ch == "-":
            repl = "_"
        return np_ + "-" + rest[:i] + repl + rest[i + 1:]
    if how == "case":
        sw = rest.swapcase()
        return np_ + "-" + (sw if NFC(sw) != NFC(rest) else rest + "X")
    if how == "nameplate":
        return str(int(np_) + 1) + "-" + rest
    if how in NP_SPELLINGS:
        return respell_nameplate(np_, how, rng) + "-" + rest
    if how == "append":
        return code + "-"
    if how == "truncate":
        return code[:-1] if len(rest) > 1 else code + "q"
    raise ValueError(how)


def pair_case(rng, **kw):
    c = dict(kind="pair", codeA="4-purple-sausages", codeB="4-purple-sausages", appidA=mb.APPID, appidB=mb.APPID,
             modeA="set", modeB="set", delegA=False, delegB=True, sendsA=[], sendsB=[], early_send=False,
             shuffle=0, seed=rng.randrange(10**9), cross=False, thorough_derive=False, adversary=None,
             early_close=None)
    c.update(kw)
    return c


def corpus(rng):
    out = []
    base = "4-purple-sausages"
    # equal codes, every entry mode
    out.append(pair_case(rng, thorough_derive=True, sendsA=["aa"], sendsB=["bb", "-"]))
    out.append(pair_case(rng, modeA="allocate", modeB="set", sendsA=["01"]))
    out.append(pair_case(rng, modeA="allocate", modeB="input_before", sendsB=["02"]))
    out.append(pair_case(rng, modeA="set", modeB="input_after"))
    out.append(pair_case(rng, modeA="set", modeB="input_before", delegB=False))
    out.append(pair_case(rng, delegA=True, delegB=True, early_send=True, sendsA=["0a", "0b"], sendsB=["0c"]))
    # near misses
    for how in ("char", "case", "append", "truncate"):
        out.append(pair_case(rng, codeB=transform(base, how, rng)))
        out.append(pair_case(rng, modeA="allocate", modeB="set", xformB=how))
    out.append(pair_case(rng, modeA="set", modeB="input_before", codeB=transform(base, "char", rng)))
    out.append(pair_case(rng, modeA="set", modeB="input_after", codeB=transform(base, "case", rng), sendsA=["aa"], early_send=True))
    # nameplate changed: never meet on a conformant server; and cross-delivered by hand
    out.append(pair_case(rng, codeB=transform(base, "nameplate", rng)))
    out.append(pair_case(rng, codeB=transform(base, "nameplate", rng), cross=True))
    # same words, nameplates that are different strings of equal integer value: different codes.  On a
    # conformant server they are different nameplates and never meet; if the clients ever claim the same
    # nameplate for them, they must still not agree
    out.append(pair_case(rng, codeB="04-purple-sausages"))
    out.append(pair_case(rng, codeA="\u0664-purple-sausages", codeB="4-purple-sausages"))           # ARABIC-INDIC FOUR
    out.append(pair_case(rng, codeA="4-purple-sausages", codeB="\uff14-purple-sausages", modeB="input_before"))  # FULLWIDTH
    out.append(pair_case(rng, codeA="007-purple-sausages", codeB="7-purple-sausages", modeA="input_before", modeB="set"))
    out.append(pair_case(rng, codeA="12-purple-sausages", codeB="\u0967\u0968-purple-sausages", modeB="input_after"))  # DEVANAGARI
    out.append(pair_case(rng, codeB="04-purple-sausages", cross=True))
    out.append(pair_case(rng, modeA="allocate", modeB="set", xformB="np_zero"))
    out.append(pair_case(rng, modeA="allocate", modeB="input_before", xformB="np_script"))
    for how in NP_SPELLINGS:
        for mode in ("set", "input_before", "input_after"):
            out.append(pair_case(rng, codeA=transform("23-x-y", how, rng), codeB="23-x-y", modeA=mode, modeB="set"))
            out.append(pair_case(rng, codeA="23-x-y", codeB=transform("23-x-y", how, rng), modeB=mode, sendsA=["aa"]))
    # appids
    out.append(pair_case(rng, appidB=mb.APPID + "2"))
    out.append(pair_case(rng, appidB=mb.APPID + "2", cross=True))
    out.append(pair_case(rng, appidA=NFC("app/caf\u00e9"), appidB=NFD("app/caf\u00e9"), cross=True, thorough_derive=True))
    out.append(pair_case(rng, appidA="app/\u00c5", appidB="app/A", cross=True))
    # Unicode spellings of the same code
    for wd in UNI_WORDS:
        out.append(pair_case(rng, codeA="7-" + NFC(wd), codeB="7-" + NFD(wd), sendsA=["aa"]))
        out.append(pair_case(rng, codeA="7-" + NFD(wd) + "-x", codeB="7-" + NFC(wd) + "-x", modeB="input_before"))
    out.append(pair_case(rng, codeA="7-\u212b", codeB="7-\u00c5"))      # ANGSTROM SIGN vs A-ring: NFC-equal
    out.append(pair_case(rng, codeA="7-\ufb03", codeB="7-ffi"))         # ligature: NFC-different (only NFKC folds it)
    for a, b in LOOKALIKES:
        out.append(pair_case(rng, codeA="9-" + a + "-z", codeB="9-" + b + "-z"))
    # adversarial stream
    out.append(pair_case(rng, adversary="nopake"))
    # a hostile PAKE message from a third mailbox participant, after and before the code is known
    for kind in HOSTILE:
        out.append(pair_case(rng, adversary="hostile_pake", hostile=kind, hostile_when="after_code"))
    for kind in ("notjson", "nokey", "nothex", "nonpoint", "offcurve", "wrongside", "foreign", "random"):
        out.append(pair_case(rng, adversary="hostile_pake", hostile=kind, hostile_when="before_code",
                             modeA="input_before"))
    out.append(pair_case(rng, adversary="hostile_pake", hostile="nokey", hostile_when="after_early_version"))
    out.append(pair_case(rng, adversary="hostile_pake", hostile="nonpoint", hostile_when="after_early_version"))
    out.append(pair_case(rng, adversary="garbage_version"))
    out.append(pair_case(rng, adversary="early_version", shuffle=0))
    out.append(pair_case(rng, early_close="A"))
    return out


def random_case(rng):
    r = rng.random()
    wd = rng.choice(UNI_WORDS + ["purple-sausages", "a", "x-y-z", "correct-horse"])
    np_ = str(rng.choice([1, 4, 23, 100]))
    codeA = np_ + "-" + rng.choice([NFC(wd), NFD(wd)])
    appidA = rng.choice([mb.APPID, NFC("app/caf\u00e9"), "lothar.com/wormhole/text-or-file-xfer"])
    appidB = appidA
    cross = False
    if r < 0.4:
        codeB = np_ + "-" + rng.choice([NFC(wd), NFD(wd)])
    elif r < 0.8:
        codeB = transform(np_ + "-" + NFC(wd), rng.choice(["char", "case", "append", "truncate"]), rng)
    elif r < 0.86:
        codeB = transform(codeA, "nameplate", rng)
        cross = rng.random() < 0.7
    elif r < 0.93:
        # same words, same nameplate VALUE, different nameplate string (either side, or both differently)
        codeB = transform(codeA, rng.choice(NP_SPELLINGS), rng)
        if rng.random() < 0.3:
            codeA, codeB = codeB, codeA
        elif rng.random() < 0.2:
            codeA = transform(codeA, rng.choice(NP_SPELLINGS), rng)
            if codeA == codeB:
                codeB = "0" + codeB
        cross = rng.random() < 0.2
    else:
        codeB = codeA
        appidB = rng.choice([appidA + "x", NFD(appidA) if NFD(appidA) != appidA else appidA + "y"])
        cross = rng.random() < 0.8
    modeA, modeB = rng.choice([("set", "set"), ("set", "set"), ("set", "input_before"), ("set", "input_after"),
                               ("input_before", "set"), ("allocate", "set"), ("allocate", "input_before"),
                               ("allocate", "input_after")])
    kw = {}
    if modeA == "allocate":
        kw["xformB"] = rng.choice([None, None, "char", "case", "truncate", "np_zero", "np_script", "np_mixed"])
        appidB = appidA if rng.random() < 0.8 else appidB
    sends = lambda: [bytes(rng.randrange(256) for _ in range(rng.choice([0, 1, 5]))).hex() or "-"  # noqa: E731
                     for _ in range(rng.choice([0, 0, 1, 2]))]
    if rng.random() < 0.12 and modeA != "allocate":
        when = rng.choice(["after_code", "after_code", "before_code", "after_early_version"])
        if when == "before_code":
            modeA = "input_before"
        elif modeA == "input_before":
            modeA = "set"
        return pair_case(rng, codeA=codeA, codeB=rng.choice([codeA, codeB]), appidA=appidA, appidB=appidA,
                         modeA=modeA, modeB=rng.choice(["set", "input_after"]), delegA=rng.random() < 0.5,
                         delegB=rng.random() < 0.5, sendsA=sends(), sendsB=sends(), early_send=rng.random() < 0.5,
                         adversary="hostile_pake", hostile=rng.choice(HOSTILE), hostile_when=when)
    return pair_case(rng, codeA=codeA, codeB=codeB, appidA=appidA, appidB=appidB, modeA=modeA, modeB=modeB,
                     delegA=rng.random() < 0.5, delegB=rng.random() < 0.5, sendsA=sends(), sendsB=sends(),
                     early_send=rng.random() < 0.5, shuffle=rng.choice([0, 10, 40, 200]), cross=cross,
                     early_close=rng.choice([None] * 9 + ["A"]), **kw)


def multi_case(rng, sessions, **kw):
    """several independent sessions (different nameplates) alive in ONE process.  Per session:
    codeA/codeB, delegA/delegB, sendsA/sendsB, overtake (side "A" is handed the peer's VERSION
    message before the peer's PAKE message, and the PAKE is held back while the other sessions run),
    leftover (that held-back PAKE never arrives: an unfinished session stays behind)."""
    ss = []
    for i, sc in enumerate(sessions):
        d = dict(codeA="%d-purple-sausages" % (3 + 2 * i), codeB=None, delegA=bool(i % 2), delegB=not (i % 2),
                 sendsA=[], sendsB=[], overtake=False, leftover=False)
        d.update(sc)
        if d["codeB"] is None:
            d["codeB"] = d["codeA"]
        ss.append(d)
    c = dict(kind="multi", sessions=ss, seed=rng.randrange(10**9), shuffle=0)
    c.update(kw)
    return c


def multi_corpus(rng):
    out = []
    # VERSION overtakes PAKE in session 0 while session 1 does its own key exchange
    out.append(multi_case(rng, [dict(overtake=True, sendsA=["a1"], sendsB=["b1"]), dict(sendsA=["a2"], sendsB=["b2"])]))
    # the plain two-transfers-at-once run, in order
    out.append(multi_case(rng, [dict(sendsA=["a1"]), dict(sendsB=["b2"])]))
    out.append(multi_case(rng, [dict(), dict(overtake=True, delegA=False, delegB=False)], shuffle=40))
    # ... an unfinished session with a parked VERSION stays behind
    out.append(multi_case(rng, [dict(overtake=True, leftover=True), dict(sendsA=["a2"]), dict(sendsB=["b3"])]))
    # ... and one of the other sessions has a wrong code (must still be told apart correctly)
    out.append(multi_case(rng, [dict(overtake=True), dict(codeA="5-orange-marmalade", codeB="5-orange-marmalada"),
                                dict(codeA="8-\u00c5ngstr\u00f6m", codeB="8-A\u030angstro\u0308m", overtake=True)]))
    return out


def random_multi(rng):
    n = rng.choice([2, 2, 3])
    nps = rng.sample([2, 3, 5, 8, 11, 40], n)
    ss = []
    for i in range(n):
        wd = rng.choice(UNI_WORDS + ["purple-sausages", "x-y"])
        codeA = "%d-%s" % (nps[i], rng.choice([NFC(wd), NFD(wd)]))
        r = rng.random()
        codeB = "%d-%s" % (nps[i], rng.choice([NFC(wd), NFD(wd)])) if r < 0.75 else \
            transform("%d-%s" % (nps[i], NFC(wd)), rng.choice(["char", "case", "truncate"]), rng)
        sends = lambda: [bytes(rng.randrange(256) for _ in range(rng.choice([1, 3]))).hex()  # noqa: E731
                         for _ in range(rng.choice([0, 1, 2]))]
        ss.append(dict(codeA=codeA, codeB=codeB, delegA=rng.random() < 0.5, delegB=rng.random() < 0.5,
                       sendsA=sends(), sendsB=sends(), overtake=rng.random() < 0.5, leftover=False))
    if not any(x["overtake"] for x in ss):
        ss[rng.randrange(n)]["overtake"] = True
    if n == 3 and rng.random() < 0.4:
        k = rng.choice([i for i in range(n) if ss[i]["overtake"]])
        ss[k]["leftover"] = True
    return multi_case(rng, ss, shuffle=rng.choice([0, 20, 80]))


def cases(rng, tier):
    # the multi-session corpus runs first: its cases are self-contained reproducers of state shared
    # between the wormholes of one process (a later case could merely inherit the damage)
    out = multi_corpus(rng) + corpus(rng)
    n = 250 if tier == "quick" else 5000
    for _ in range(n):
        out.append(random_case(rng))
    for _ in range(40 if tier == "quick" else 800):
        out.append(random_multi(rng))
    if tier == "thorough":
        # small-scope exhaustive: every entry-mode pair x {equal, char-changed} x both API styles
        for ma in ("set", "input_before", "input_after"):
            for mbm in ("set", "input_before", "input_after"):
                for same in (True, False):
                    for dl in (False, True):
                        out.append(pair_case(rng, modeA=ma, modeB=mbm, delegA=dl, delegB=not dl,
                                             codeB="4-purple-sausages" if same else "4-purple-sausagez",
                                             sendsA=["aa"], early_send=True, shuffle=30))
    return out


# ---------------------------------------------------------------------------
# running one case on the real code

def _enabled(W):
    ops = []
    for c in W.clients:
        if c.conn is not None and c.conn.c2s:
            ops.append(["c2s", c.index])
        if c.conn is not None and c.conn.s2c:
            ops.append(["s2c", c.index])
        if c.eq._calls:
            ops.append(["turn", c.index])
    return ops


def _shuffle(W, rng, n):
    for _ in range(n):
        ops = _enabled(W)
        if not ops:
            return
        if rng.random() < 0.15:
            ci = rng.randrange(len(W.clients))
            if len(W.msg_frames(ci)) >= 2:
                W.swapmsg(ci, rng.randrange(8), rng.randrange(8))
                continue
        W.do(rng.choice(ops))


def _enter(W, ci, mode, code, step):
    """entry of the code on client ci; `step()` lets the network run in between"""
    np_, _, words = code.partition("-")
    if mode == "set":
        W.do(["api", ci, "set_code", code])
    elif mode in ("input_before", "input_after"):
        W.do(["api", ci, "input_code"])
        W.do(["api", ci, "choose_nameplate", np_])
        if mode == "input_before":
            step()                       # the peer's PAKE (if already sent) arrives before the words
        W.do(["api", ci, "choose_words", words])
    else:
        raise ValueError(mode)


def _cross_deliver(W, run):
    """a server that mixes mailboxes: hand every message a client published to the other client"""
    for _ in range(6):
        W.settle()
        progress = False
        for t in run.taps:
            other = run.taps[1 - t.i]
            for phase, body in list(t.sent.items()):
                key = (t.i, phase)
                if key in run.crossed:
                    continue
                run.crossed.add(key)
                if W.inject(other.i, t.c.side, phase, body.hex()) == "ok":
                    progress = True
        if not progress:
            break
    W.settle()


def _settle_only(W, allowed, limit=10000):
    """`World.settle` restricted to the clients in `allowed` (the others' queues stay as they are)"""
    n = 0
    progress = True
    while progress and n < limit:
        progress = False
        for c in W.clients:
            ci = c.index
            if ci not in allowed:
                continue
            while c.conn is not None and c.conn.c2s:
                W.c2s(ci)
                progress = True
                n += 1
            while c.conn is not None and c.conn.s2c:
                W.s2c(ci)
                progress = True
                n += 1
            if c.eq._calls:
                W.turn(ci)
                progress = True
                n += 1
            if c.svc.stopping is not None and not c.svc.stopping.called:
                W.svc_stopped(ci)
                progress = True
                n += 1


def _shuffle_only(W, rng, n, allowed):
    for _ in range(n):
        ops = [o for o in _enabled(W) if o[1] in allowed]
        if not ops:
            return
        W.do(rng.choice(ops))


def run_multi(case):
    """Several independent sessions in one process; every session is judged separately by the
    same oracle as a single pair."""
    rng = random.Random(case["seed"])
    ss = case["sessions"]
    with mb.World(seed=case["seed"] % 1000) as W:
        run = Run(W)
        run.crossed = set()
        vers = []
        for k, sc in enumerate(ss):
            vers.append(({"v": "A", "n": k}, {"v": "B", "n": k}))
            for side in (0, 1):
                c = W.add_client(delegated=sc["delegA" if side == 0 else "delegB"], versions=vers[k][side])
                run.taps.append(Tap(run, c))
        for c in W.clients:
            k = c.index // 2
            run.line("client %d %s %s" % (c.index, hs(mb.APPID),
                                          hx(json.dumps(vers[k][c.index % 2], sort_keys=True).encode())), "ok")
        declared = set()

        def declare(s):
            if s not in declared and NFC(s) != s:
                declared.add(s)
                run.line("nfc %s %s" % (hs(s), hs(NFC(s))), "ok")
        for sc in ss:
            declare(sc["codeA"])
            declare(sc["codeB"])
        for c in W.clients:
            if not c.delegated:
                for _ in range(4):
                    W.do(["api", c.index, "get_message"])
            W.do(["open", c.index])
        everyone = set(range(len(W.clients)))
        held = set()          # clients whose peer's PAKE frame is being held back
        gone = set()          # ... for good (leftover sessions)
        order = list(range(len(ss)))
        rng.shuffle(order)
        # every A side enters its code and publishes its PAKE
        for k in order:
            W.do(["api", 2 * k, "set_code", ss[k]["codeA"]])
            _settle_only(W, {2 * k})
        # sessions in which the VERSION overtakes the PAKE on side A
        for k in order:
            if not ss[k]["overtake"]:
                continue
            a, b = 2 * k, 2 * k + 1
            W.do(["api", b, "set_code", ss[k]["codeB"]])
            _settle_only(W, {b})                      # b: gets a's PAKE, publishes PAKE and VERSION
            frames = W.msg_frames(a)
            if len(frames) >= 2:
                W.swapmsg(a, 0, 1)                    # VERSION first
                for _ in range(frames[0] + 1):
                    W.s2c(a)                          # ... delivered; the PAKE frame stays queued
                held.add(a)
                if ss[k]["leftover"]:
                    gone.add(a)
        # the other sessions run their key exchange meanwhile
        for k in order:
            if ss[k]["overtake"]:
                continue
            W.do(["api", 2 * k + 1, "set_code", ss[k]["codeB"]])
            if case["shuffle"]:
                _shuffle_only(W, rng, case["shuffle"], everyone - held)
        _settle_only(W, everyone - held)
        # the held-back PAKE frames finally arrive (except in leftover sessions)
        live = everyone - gone
        _settle_only(W, live)
        for k in order:
            for side, key in ((0, "sendsA"), (1, "sendsB")):
                for m in ss[k][key]:
                    W.do(["api", 2 * k + side, "send", m])
            if case["shuffle"]:
                _shuffle_only(W, rng, 10, live)
        _settle_only(W, live)
        derived = {}
        for c in W.clients:
            derived[c.index] = {}
            for p in ("", "a"):
                r = W.api(c.index, "derive_key", p, 32)
                derived[c.index][(p, 32)] = r
                if not run.taps[c.index].off:
                    shown = r if r in ("NoKeyError", "ValueError", "TypeError") else "#%d" % run.val(bytes.fromhex(r))
                    run.line("derive %d %s 32" % (c.index, hs(p)), shown)
        for c in W.clients:
            W.do(["api", c.index, "close"])
        _settle_only(W, live)
        viol, tags = [], ["multi:%d" % len(ss)]
        for k, sc in enumerate(ss):
            A, B = W.clients[2 * k], W.clients[2 * k + 1]
            met = A.boss._M._mailbox is not None and A.boss._M._mailbox == B.boss._M._mailbox
            scase = dict(appidA=mb.APPID, appidB=mb.APPID, sendsA=sc["sendsA"], sendsB=sc["sendsB"], cross=False,
                         adversary=None, early_close="leftover" if sc["leftover"] else None)
            v, t = oracle(scase, W, run, sc["codeA"], sc["codeB"], met,
                          {0: derived[A.index], 1: derived[B.index]}, pair=(A, B), vers=vers[k])
            viol += [(sig, "session %d of %d (clients %d/%d%s): %s" % (
                k, len(ss), A.index, B.index, ", VERSION before PAKE on client %d" % A.index if sc["overtake"] else "", msg))
                for (sig, msg) in v]
            tags += ["multi-" + x for x in t]
            if sc["overtake"]:
                tags.append("multi-overtake" + ("-leftover" if sc["leftover"] else ""))
        if any("O=S0_no_pake" in e and "rx " in l and not l.endswith(" pake") for l, e in zip(run.lines, run.expect)):
            tags.append("multi-version-parked-before-pake")
        nontrivial = any(t.heard_pake for t in run.taps)
        return Result(run.lines, run.expect, viol, tags, nontrivial,
                      info=dict(events={c.index: c.events for c in W.clients}))


def run_case(case):
    if case["kind"] == "multi":
        return run_multi(case)
    if case["kind"] != "pair":
        raise ValueError(case["kind"])
    rng = random.Random(case["seed"])
    with mb.World(seed=case["seed"] % 1000) as W:
        run = Run(W)
        run.crossed = set()
        appids = [case["appidA"], case["appidB"]]
        versions = [{"v": "A", "n": 1}, {"v": "B"}]
        saved = mb.APPID
        try:
            for i in range(2):
                mb.APPID = appids[i]
                c = W.add_client(delegated=case["delegA" if i == 0 else "delegB"], versions=versions[i])
                run.taps.append(Tap(run, c))
        finally:
            mb.APPID = saved
        A, B = W.clients
        # everything that has an NFC form different from itself is declared to the model
        strings = set(appids + [case["codeA"], case["codeB"]] + PURPOSES)
        for i in range(2):
            run.line("client %d %s %s" % (i, hs(appids[i]), hx(json.dumps(versions[i], sort_keys=True).encode())), "ok")
        for c in (A, B):
            if not c.delegated:
                for _ in range(4):
                    W.do(["api", c.index, "get_message"])
        W.do(["open", 0])
        W.do(["open", 1])

        def step():
            if case["shuffle"]:
                _shuffle(W, rng, case["shuffle"])
            else:
                W.settle()

        # derive_key before any key: NoKeyError
        pre = W.api(0, "derive_key", "a", 32)
        run.line("derive 0 %s 32" % hs("a"), pre)

        sends = {0: list(case["sendsA"]), 1: list(case["sendsB"])}
        if case["early_send"]:
            for ci in (0, 1):
                if sends[ci]:
                    W.do(["api", ci, "send", sends[ci].pop(0)])

        codeA = case["codeA"]
        codeB = case["codeB"]
        declared = set()

        def declare(s):
            if s not in declared and NFC(s) != s:
                declared.add(s)
                run.line("nfc %s %s" % (hs(s), hs(NFC(s))), "ok")
        for s in sorted(strings):
            declare(s)

        if case["modeA"] == "allocate":
            W.do(["api", 0, "allocate_code"])
            W.settle()
            got = [v for (n, v) in A.events if n == "code"]
            if not A.delegated:
                got = [v for (n, v) in A.events if n == "code"]
            codeA = got[0] if got else A.boss._C._code if hasattr(A.boss._C, "_code") else None
            if codeA is None:
                raise RuntimeError("allocation did not finish")
            codeB = codeA if not case.get("xformB") else transform(codeA, case["xformB"], rng)
        else:
            declare(codeA)
            stepA = step
            if case["adversary"] == "hostile_pake" and case["hostile_when"] == "before_code":
                def stepA():
                    # the stranger's PAKE overtakes our own code (Key.S00 -> S01)
                    W.settle()
                    hb = hostile_body(case["hostile"], None, case["seed"])
                    run.hostile_kind = pake_kind(hb, None)
                    W.inject(0, "ff" * 5, "pake", hb.hex())
                    W.settle()
            _enter(W, 0, case["modeA"], codeA, stepA)
        step()
        if case["early_close"] == "A":
            W.do(["api", 0, "close"])
        adv = case["adversary"]
        if adv == "hostile_pake" and case["hostile_when"] != "before_code":
            W.settle()
            if case["hostile_when"] == "after_early_version":
                W.inject(0, "ff" * 5, "version", "00" * 40)     # parked by Order, judged right after the PAKE
                W.settle()
            hb = hostile_body(case["hostile"], run.taps[0].sent.get("pake"), case["seed"])
            run.hostile_kind = pake_kind(hb, run.taps[0].sent.get("pake"))
            W.inject(0, "ff" * 5, "pake", hb.hex())
            W.settle()
        if adv == "nopake":
            W.settle()
            W.inject(0, "ff" * 5, "pake", json.dumps({"pake_v2": "00"}).encode().hex())
            W.settle()
        elif adv == "early_version":
            W.settle()
            W.inject(0, "ff" * 5, "version", "00" * 40)
            W.settle()
        declare(codeB)
        _enter(W, 1, case["modeB"], codeB, step)
        step()
        if adv == "garbage_version":
            # the peer's version message is replaced by garbage on its way to client 0
            for _ in range(50):
                if W.msg_frames(0):
                    break
                ops = [o for o in _enabled(W) if o != ["s2c", 0]]
                if not ops:
                    break
                W.do(ops[0])
            W.tamper(0, 0, "phase", "version")
            W.tamper(0, 0, "random", 7)
        for ci in (0, 1):
            for m in sends[ci]:
                W.do(["api", ci, "send", m])
                if case["shuffle"]:
                    _shuffle(W, rng, 5)
        step()
        W.settle()
        met = A.boss._M._mailbox is not None and A.boss._M._mailbox == B.boss._M._mailbox
        if case["cross"]:
            _cross_deliver(W, run)

        # derive_key on both sides
        purposes, lengths = (PURPOSES, LENGTHS) if case["thorough_derive"] else (QUICK_PURPOSES, QUICK_LENGTHS)
        derived = {0: {}, 1: {}}
        for p in purposes:
            for n in lengths:
                for ci in (0, 1):
                    r = W.api(ci, "derive_key", p, n)
                    derived[ci][(p, n)] = r
                    if not run.taps[ci].off and n != 1:      # 1-byte outputs collide by chance: oracle only
                        shown = r
                        if r not in ("NoKeyError", "ValueError", "TypeError", "OverflowError"):
                            shown = "#%d" % run.val(bytes.fromhex(r))
                        run.line("derive %d %s %d" % (ci, hs(p), n), shown)
        # finish
        for ci in (0, 1):
            W.do(["api", ci, "close"])
        W.settle()
        for c in (A, B):
            if not c.delegated:
                pass
        viol, tags = oracle(case, W, run, codeA, codeB, met, derived)
        tags += ["modeA:" + case["modeA"], "modeB:" + case["modeB"], "met:%s" % met, "cross:%s" % case["cross"],
                 "K:" + automat_state(A.boss._K) + "/" + automat_state(B.boss._K)]
        for t in run.taps:
            if t.off:
                tags.append("off-model")
            if any("K=S01" in e for e in run.expect):
                tags.append("pake-before-code")
        if any(e.split(" ", 1)[0] not in ("ok", "NoKeyError", "ValueError") and not e.startswith("#") for e in run.expect):
            tags.append("exception-line")
        nontrivial = any(t.heard_pake for t in run.taps)
        return Result(run.lines, run.expect, viol, tags, nontrivial,
                      info=dict(codeA=codeA, codeB=codeB, eventsA=A.events, eventsB=B.events))


# ---------------------------------------------------------------------------
# the oracle: the property sentence on what the two applications saw

def evs(c, name):
    return [v for (n, v) in c.events if n == name]


def verdict(c):
    for (n, v) in c.events:
        if n in ("closed", "closed!"):
            return v
    return None


def oracle(case, W, run, codeA, codeB, met, derived, pair=None, vers=None):
    """`pair` = the two clients of the session being judged (default: the only two of the world);
    `vers` = the app versions they announce.  Every session is judged on its own."""
    A, B = pair if pair is not None else W.clients
    vA_, vB_ = vers if vers is not None else ({"v": "A", "n": 1}, {"v": "B"})
    viol = []
    tags = []
    same = NFC(codeA) == NFC(codeB) and NFC(case["appidA"]) == NFC(case["appidB"])
    exchanged = all(run.taps[c.index].heard_pake for c in (A, B))   # both sides were handed the other's PAKE message
    interfered = case["adversary"] is not None or case["early_close"] is not None
    tags.append("same" if same else "different")
    tags.append("exchanged" if exchanged else "not-exchanged")
    internal = [c.internal for c in (A, B) if c.internal]
    keyA, keyB = evs(A, "key"), evs(B, "key")
    if same and not interfered and (met or case["cross"]):
        # (same nameplate and appid always share a mailbox on a conformant server; NFC-equal but
        # differently spelled appids were cross-delivered by hand)
        # ---- same (NFC code, appid): identical key, verifier, derived keys; everything delivered
        if not keyA or not keyB or keyA[0] != keyB[0]:
            viol.append(("same-code-keys-differ", f"codes {codeA!r}/{codeB!r} appids {case['appidA']!r}/{case['appidB']!r}: keys {keyA} vs {keyB}"))
        vA, vB = evs(A, "verifier"), evs(B, "verifier")
        if len(vA) != 1 or len(vB) != 1 or vA != vB:
            viol.append(("same-code-verifier", f"codes {codeA!r}/{codeB!r}: verifiers {vA} vs {vB}"))
        for (c, o) in ((A, B), (B, A)):
            want = json.dumps(vA_ if o is A else vB_, sort_keys=True)
            if evs(c, "versions") != [want]:
                viol.append(("same-code-versions", f"client {c.index} got versions {evs(c, 'versions')} want {want}"))
            sent = case["sendsA"] if o is A else case["sendsB"]
            want_m = [("" if m == "-" else m) for m in sent]
            if evs(c, "message") != want_m:
                viol.append(("same-code-messages", f"client {c.index} got messages {evs(c, 'message')} want {want_m}"))
            if verdict(c) != "happy":
                viol.append(("same-code-verdict", f"client {c.index} closed with {verdict(c)}"))
        for (p, n), ra in derived[0].items():
            rb = derived[1][(p, n)]
            if ra != rb:
                viol.append(("same-code-derive-differs", f"derive_key({p!r}, {n}) {ra[:40]} vs {rb[:40]}"))
            if n > HKDF_MAX:
                if ra != "ValueError":
                    viol.append(("derive-length-guard", f"derive_key({p!r}, {n}) = {ra[:40]}"))
            elif ra in ("NoKeyError", "ValueError", "TypeError"):
                viol.append(("derive-fails-after-key", f"derive_key({p!r}, {n}) = {ra}"))
            elif len(bytes.fromhex(ra)) != n:
                viol.append(("derive-length", f"derive_key({p!r}, {n}) has {len(bytes.fromhex(ra))} bytes"))
        for (p, n), ra in derived[0].items():
            for (q, m), rq in derived[0].items():
                if m != n or not (p < q) or n > HKDF_MAX or ra in ("NoKeyError", "ValueError"):
                    continue
                if NFC(p) == NFC(q):
                    if ra != rq:
                        viol.append(("derive-nfc-purpose", f"NFC-equal purposes {p!r}/{q!r} n={n} differ"))
                elif n >= 16 and ra == rq:
                    viol.append(("purposes-not-separated", f"derive_key({p!r},{n}) == derive_key({q!r},{n})"))
                elif n == 0 and ra != rq:
                    viol.append(("derive-zero", f"n=0 outputs differ for {p!r}/{q!r}"))
    elif not same:
        # ---- different codes (or appids): nothing is ever delivered, and who heard closes scared
        # (judged by what the clients really did: if they claim the same server nameplate for code strings
        # that differ — e.g. "04-…" and "4-…" — and so do meet, they must still not agree)
        claimed = [sorted({f.get("nameplate") for f in W.sent.get(c.index, []) if f.get("type") == "claim"}) for c in (A, B)]
        if codeA.partition("-")[0] != codeB.partition("-")[0] and claimed[0] and claimed[0] == claimed[1]:
            tags.append("different-nameplate-strings-claimed-same")
            if keyA and keyB and keyA[0] == keyB[0]:
                viol.append(("codes-differ-keys-equal", f"codes {codeA!r}/{codeB!r} differ (nameplates are different strings) but both clients claimed nameplate {claimed[0]} and derived the same key {keyA[0]}"))
        for c in (A, B):
            for name in ("verifier", "versions", "message"):
                if evs(c, name):
                    viol.append(("mismatch-delivered", f"codes {codeA!r}/{codeB!r} appids {case['appidA']!r}/{case['appidB']!r}: client {c.index} got {name} {evs(c, name)}"))
        if keyA and keyB and keyA[0] == keyB[0]:
            viol.append(("mismatch-same-key", f"codes {codeA!r}/{codeB!r} appids {case['appidA']!r}/{case['appidB']!r}: both keys {keyA[0]}"))
        for c in (A, B):
            t = run.taps[c.index]
            closed_first = case["early_close"] == "A" and c is A
            if t.heard and not closed_first and not c.internal and case["adversary"] is None \
                    and case["early_close"] != "leftover":
                if verdict(c) != "WrongPasswordError":
                    viol.append(("mismatch-verdict", f"client {c.index} heard {t.heard} peer message(s) under a different code but closed with {verdict(c)}"))
        if keyA and keyB:
            for (p, n), ra in derived[0].items():
                rb = derived[1][(p, n)]
                if 16 <= n <= HKDF_MAX and ra == rb and ra not in ("NoKeyError", "ValueError"):
                    viol.append(("mismatch-derive-equal", f"derive_key({p!r},{n}) equal on both sides"))
        if exchanged and not interfered:
            for c in (A, B):
                if not run.taps[c.index].heard:
                    tags.append("mismatch-not-heard")
    if not exchanged and not interfered and not case["cross"]:
        # never met (different nameplate / appid on a conformant server): nobody learns anything
        if not met:
            for c in (A, B):
                for name in ("key", "verifier", "versions", "message"):
                    if evs(c, name):
                        viol.append(("unmet-delivered", f"client {c.index} got {name} without ever sharing a mailbox"))
    if case["adversary"] == "hostile_pake":
        # a hostile PAKE message is a "stranger" case: nothing is delivered on either side, the side that got
        # it fails with WrongPasswordError and with nothing else (no internal error), and unless the element
        # happened to be a valid one no key is reported either
        hk = run.hostile_kind
        tags.append("hostile:%s:%s:%s" % (case["hostile"], case["hostile_when"], hk))
        for c in (A, B):
            for name in ("verifier", "versions", "message"):
                if evs(c, name):
                    viol.append(("hostile-pake-delivered", f"hostile PAKE ({case['hostile']}, {case['hostile_when']}): client {c.index} got {name} {evs(c, name)}"))
        if hk in ("nopake", "refused"):
            if evs(A, "key"):
                viol.append(("hostile-pake-key", f"hostile PAKE ({case['hostile']}, {case['hostile_when']}): client 0 reported a key"))
            # exceptions raised into application calls other than the expected NoKeyError of derive_key
            api_raised = [(a, e) for (a, e) in A.api_errors if a != "derive_key"]
            raised = [n for (n, _) in A.internal] + [e for (_, e) in api_raised]
            if "RecursionError" in raised:
                viol.append(("hostile-pake-deepjson-escapes", f"hostile PAKE ({case['hostile']}, {case['hostile_when']}): a body of deeply nested JSON makes json.loads raise RecursionError (a RuntimeError, not a ValueError), which escapes _SortedKey.got_pake: client 0 closed with {verdict(A)} instead of WrongPasswordError"))
            elif "NotOnCurve" in raised:
                viol.append(("hostile-pake-offcurve-escapes", f"hostile PAKE ({case['hostile']}, {case['hostile_when']}): an element that is not on the curve makes spake2 raise NotOnCurve (not a SPAKEError/ValueError), which escapes compute_key: client 0 closed with {verdict(A)} instead of WrongPasswordError"))
            elif verdict(A) != "WrongPasswordError" or A.internal or api_raised:
                viol.append(("hostile-pake-verdict", f"hostile PAKE ({case['hostile']}, {case['hostile_when']}): client 0 closed with {verdict(A)}, internal failures {A.internal[:2]}, raised to the application {api_raised[:2]}"))
        elif hk == "accepted":
            if (run.taps[0].heard and verdict(A) != "WrongPasswordError") or A.internal:
                viol.append(("hostile-pake-verdict", f"hostile PAKE ({case['hostile']}, valid foreign element): client 0 heard {run.taps[0].heard} message(s), closed with {verdict(A)}, internal {A.internal[:2]}"))
        else:
            tags.append("hostile-not-delivered")
    if case["adversary"] in ("nopake", "garbage_version"):
        # a forged/garbled message must never be accepted as a delivery; the side that got it is scared
        if case["adversary"] == "nopake":
            for name in ("key", "verifier", "versions", "message"):
                if evs(A, name):
                    viol.append(("forged-pake-accepted", f"client 0 got {name} after a PAKE message without pake_v1"))
            if verdict(A) != "WrongPasswordError":
                viol.append(("forged-pake-verdict", f"client 0 closed with {verdict(A)}"))
        else:
            for name in ("verifier", "versions", "message"):
                if evs(A, name) and not same:
                    viol.append(("mismatch-delivered", f"client 0 got {name}"))
    if internal and case["adversary"] != "early_version":
        tags.append("internal:" + ",".join(sorted({n for l in internal for (n, _) in l})))
    return viol, tags


# ---------------------------------------------------------------------------

def search(rng, seconds, seeds):
    t0 = time.time()
    for c in seeds:
        yield c, run_case(c)
    for c in multi_corpus(rng) + corpus(rng):
        yield c, run_case(c)
        if time.time() - t0 > seconds:
            return
    while time.time() - t0 < seconds:
        c = random_multi(rng) if rng.random() < 0.3 else random_case(rng)
        yield c, run_case(c)


def shrink(case):
    if case.get("kind") == "multi":
        ss = case["sessions"]
        if len(ss) > 2:
            for i in range(len(ss)):
                rest = ss[:i] + ss[i + 1:]
                # keep the shape that matters (a parked VERSION next to another key exchange), so that
                # a smaller case is still a self-contained reproducer
                if any(x["overtake"] for x in ss) and not any(x["overtake"] for x in rest):
                    continue
                c = dict(case)
                c["sessions"] = rest
                yield c
        for i, sc in enumerate(ss):
            for k in ("sendsA", "sendsB"):
                if sc[k]:
                    c = dict(case)
                    c["sessions"] = [dict(x) for x in ss]
                    c["sessions"][i][k] = []
                    yield c
        if case.get("shuffle"):
            c = dict(case)
            c["shuffle"] = 0
            yield c
        return
    for k in ("sendsA", "sendsB"):
        if case.get(k):
            c = dict(case)
            c[k] = case[k][:-1]
            yield c
    if case.get("shuffle"):
        c = dict(case)
        c["shuffle"] = 0
        yield c
    if case.get("early_send"):
        c = dict(case)
        c["early_send"] = False
        yield c
    for k, v in (("modeA", "set"), ("modeB", "set")):
        if case.get(k) not in (v, "allocate") and case.get("modeA") != "allocate":
            c = dict(case)
            c[k] = v
            yield c
    if case.get("thorough_derive"):
        c = dict(case)
        c["thorough_derive"] = False
        yield c
