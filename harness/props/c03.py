"""C03 — mailbox messages arrive in order, exactly once, unmodified.

Three streams of cases:

* ``comp``  component-level correspondence: one REAL client built by ``wormhole.create`` in the mailbox
            World (real Boss, Send, Mailbox, Order, Receive, _DeferredWormhole, SequenceObserver,
            EventualQueue, real NaCl/HKDF); only the collaborators *outside* the modelled data path are
            recorders (RendezvousConnector.tx_*, Nameplate.release, Key.got_pake, Terminator, Dilator).
            The same op sequence goes to ``WV.C03.driver``; outputs (exception, outgoing calls, state
            digest) must agree line by line.  Real ciphertexts are mapped to/from the driver's toy sealing
            by the harness, which knows the key.
* ``e2e``   whole-client oracle: two real clients against the real mailbox-server protocol objects under a
            scheduled network (arbitrary delivery order, duplication, replay on re-open, drops anywhere,
            send_message before code / key / verification / after).  Oracle = the property sentence.  The
            observed arrival order is also replayed through the model's ``Pipe`` and reorder buffer.
* ``exh``   (thorough) exhaustive: 3 messages x all delivery orders x one drop point x all replay orders.
* ``mcomp`` / multi-wormhole ``e2e``: the property quantifies over pairs of wormholes, not over processes — SEVERAL real
            wormholes live in ONE process (the two ends of a pair, and several pairs: 2, 4 or 6 clients in one World).
            ``mcomp``: 2-3 real clients fed numbered phases and dilate seqnums out of order, the feeding interleaved
            across the clients, against the model's process (`proc` / `at <i> …`, `Props.C03.process_isolation`).
            ``e2e`` with ``len(deleg) > 2`` and the ``cross`` family (`hand` op: the server hands one stored message of the
            peer to one client, overtaking whatever else is queued): numbered phases and dilate-N phases are delivered
            reordered and interleaved across all clients, so that a number is held in one buffer while the cursor of
            another buffer of the process (the other wormhole, the other pair, the dilate stream of the same wormhole)
            reaches it.  Oracle: each application receives exactly a prefix of what ITS peer sent — nothing of anybody
            else's, nothing of its own, nothing of the other stream (`foreign-record:*`).

Observation is through public behaviour (arguments of `W.received` / `D.received_dilate`, delegate callbacks,
get_message() results, frames on the wire).  The per-step correspondence additionally shows the Boss's private reorder
buffers when they have HEAD's shape; when they do not (a refactoring), the view falls back to what behaviour alone
determines (`RxView`) and the oracle runs all the same (tag `…:observe=behaviour-only`).
"""
import itertools
import os
import random

from twisted.internet import defer
from twisted.python import failure

from wormhole._key import derive_phase_key, encrypt_data, decrypt_data, CryptoError
from wormhole.errors import ServerError, WelcomeError
from wormhole.util import bytes_to_dict

from .. import LOGGED
from ..core import Result
from ..util import automat_state
from ..worlds.mailbox import World, Client as WorldClient

ID = "C03"
PROP_MODULES = ["WV.Props.C03"]
# translation validation of the method bodies (tools/extract.py::extract_pyir -> WV/Gen/PyIR.lean, interpreter
# WV/Model/PyIR.lean): part of the check as soon as the modules are installed (agents/deepPyIR_integration.md)
for _m in ("PyIR_C03", "PyIR_C03_Boss"):
    if os.path.exists(os.path.join(os.path.dirname(os.path.dirname(os.path.dirname(os.path.abspath(__file__)))),
                                   "lean", "WV", "Props", _m + ".lean")):
        PROP_MODULES.append("WV.Props." + _m)
TRUSTED = [
    "SecretBox / HKDF / SPAKE2 (an ideal (side, phase)-keyed AEAD interface `Crypto.Ideal` in Lean; the real "
    "primitives run in the harness and ciphertexts are mapped to the driver's toy sealing by the harness)",
    "composition: proved in Lean for the composed model `Client` (e2e_prefix_clients: two Clients + a storing / "
    "duplicating / reordering / replaying server, all schedules); that the real client IS that `Client` is what the "
    "differential runs and the whole-client oracle check",
    "Python `\\d` / int() on non-ASCII digits in phase names (outside the model; phases are produced by '%d')",
    "the mailbox server and the network are the harness World (real wormhole_mailbox_server objects + scheduler)",
    "delegate / Deferred callbacks of the application do not raise",
    "several wormholes in one process: in the model every wormhole is a value of its own (process_isolation, "
    "e2e_prefix_process); that the real objects share nothing is WV.Props.Common.instances_do_not_share_state "
    "(syntactic: class-level / attrs-default containers mutated through self) plus the differential runs of the "
    "`proc`/`at` lines and the whole-client oracle on 2-6 real wormholes created in one process",
]
RULE = ("comp: random op sequences over the 12 driver ops on one real client (structured: honest key/pake/phase "
        "flows with duplicates, replays, reconnects; adversarial: wrong labels, corrupt bodies, illegal orders); "
        "e2e: two real clients, <= 8 messages each way, sizes 0..70 kB, schedules with reorder/dup/drop/re-open; "
        "mcomp / multi-pair e2e / cross: 2-6 real wormholes in one process, numbered and dilate-N phases handed over "
        "out of order and interleaved across the wormholes (random; thorough: all 720 global hand-over orders of 2+1 records each way); "
        "non-trivial = at least one message delivered or one exception/ignored branch; distinct = distinct "
        "canonical output traces")

KEY = bytes(range(32))
CODE = "4-purple-sausages"


def hx(b):
    return b.hex() if b else "-"


def unhx(h):
    return b"" if h == "-" else bytes.fromhex(h)


def hs(s):
    return hx(s.encode("utf8"))


# --------------------------------------------------------------------------- toy sealing (= WV.C03.toySeal)

def toy_seal(side, phase, m):
    s = side.encode("utf8")
    p = phase.encode("utf8")
    pre = bytes([len(s) % 256]) + s + bytes([len(p) % 256]) + p + m
    return pre + bytes([sum(pre) % 251])


# --------------------------------------------------------------------------- observing the strict-order buffers
#
# The per-step correspondence shows `_next_rx_phase` / `_rx_phases` (and the dilate twins) next to the model's buffers.
# Those are private attributes: when a Boss no longer has them in HEAD's shape (a refactoring, e.g. the loop factored
# into a helper object) the harness must still run — the oracle only needs public behaviour — so the view then falls
# back to what the behaviour alone determines: `next` = number of records handed on so far, `buf` = numbers that arrived
# (in arrival order) and have not been handed on.  For an implementation that keeps the property both views coincide.

def rx_private(b):
    """(next, keys, dnext, dkeys) from HEAD-shaped private state, or None when the Boss does not have it in that shape"""
    try:
        n, d, dn, dd = b._next_rx_phase, b._rx_phases, b._next_rx_dilate_seqnum, b._rx_dilate_seqnums
        if type(n) is int and type(dn) is int and isinstance(d, dict) and isinstance(dd, dict):
            return n, list(d.keys()), dn, list(dd.keys())
    except Exception:
        pass
    return None


class RxShadow:
    def __init__(self):
        self.next = 0
        self.keys = []

    def arrived(self, n, ndelivered, accepted=True):
        if accepted and n not in self.keys:
            self.keys.append(n)
        for _ in range(ndelivered):
            if self.next in self.keys:
                self.keys.remove(self.next)
            self.next += 1


class RxView:
    """wraps `Boss._got_phase` / `_got_dilate` of one real Boss (instance attributes; when they exist) and keeps the
    behaviour-only shadow; `delivered(kind)` is called by whoever records W.received / D.received_dilate"""

    def __init__(self, boss, before=None, after=None):
        self.b = boss
        self.shadow = {"rx": RxShadow(), "drx": RxShadow()}
        self.count = {"rx": 0, "drx": 0}
        self.before = before
        self.after = after
        self.behaviour_only = False
        self.wrapped = False
        for kind, name in (("rx", "_got_phase"), ("drx", "_got_dilate")):
            orig = getattr(boss, name, None)
            if orig is None:
                continue
            try:
                setattr(boss, name, self._wrap(kind, orig))
                self.wrapped = True
            except Exception:
                pass

    def delivered(self, kind):
        self.count[kind] += 1

    def _wrap(self, kind, orig):
        def f(n, pt):
            try:
                st0 = automat_state(self.b)
            except Exception:
                st0 = "?"
            c0 = self.count[kind]
            ok = False
            try:
                tok = self.before() if self.before is not None else None
            except Exception:
                tok = None
            try:
                r = orig(n, pt)
                ok = True
                return r
            finally:
                # observation only: must never raise into the real call
                try:
                    self.shadow[kind].arrived(n, self.count[kind] - c0, accepted=ok and st0 in ("S2_happy", "?"))
                    if self.after is not None and tok is not None:
                        self.after(kind, n, pt, st0, tok)
                except Exception:
                    pass
        return f

    def view(self):
        p = rx_private(self.b)
        if p is not None:
            return p
        self.behaviour_only = True
        return (self.shadow["rx"].next, list(self.shadow["rx"].keys),
                self.shadow["drx"].next, list(self.shadow["drx"].keys))

    def parked(self):
        return bool(self.view()[1])


def peek(f, default="?"):
    """a private attribute for the state digest; unreadable = `?` (the correspondence then disagrees, the run goes on)"""
    try:
        return f()
    except Exception:
        return default


# --------------------------------------------------------------------------- component world

class _RC:
    def __init__(self, log):
        self.log = log

    def tx_open(self, mailbox):
        self.log.append(("open",))

    def tx_add(self, phase, body):
        self.log.append(("add", phase, body))

    def tx_close(self, mailbox, mood):
        self.log.append(("close", mood))


class _N:
    def __init__(self, log):
        self.log = log

    def release(self):
        self.log.append(("release",))


class _T:
    def __init__(self, log):
        self.log = log

    def mailbox_done(self):
        self.log.append(("mdone",))

    def close(self, mood):
        self.log.append(("tclose", mood))


class _K:
    def __init__(self, log):
        self.log = log

    def got_pake(self, body):
        self.log.append(("pake", body))


class _D:
    _manager = None
    view = None

    def __init__(self, log):
        self.log = log

    def got_key(self, key):
        self.log.append(("dkey",))

    def received_dilate(self, pt):
        self.log.append(("dilate", pt))
        if self.view is not None:
            self.view.delivered("drx")

    def got_wormhole_versions(self, v):
        self.log.append(("dversions",))


class _W:
    """forwards to the real wormhole object, recording the calls"""

    def __init__(self, real, log):
        self.real = real
        self.log = log

    def got_welcome(self, w):
        self.real.got_welcome(w)

    def got_code(self, code):
        self.log.append(("code",))
        self.real.got_code(code)

    def got_key(self, key):
        self.log.append(("key",))
        self.real.got_key(key)

    def got_verifier(self, v):
        self.log.append(("verifier",))
        self.real.got_verifier(v)

    def got_versions(self, v):
        self.log.append(("versions",))
        self.real.got_versions(v)

    view = None

    def received(self, pt):
        self.log.append(("received", pt))
        if self.view is not None:
            self.view.delivered("rx")
        self.real.received(pt)

    def closed(self, result):
        self.log.append(("closed",))
        self.real.closed(result)


class _OwnClock:
    def __init__(self):
        from twisted.internet.task import Clock
        self.clock = Clock()


class Comp:
    def __init__(self, seed, world=None):
        self.own_world = world is None
        if world is None:
            world = World(seed=seed)
            world.__enter__()
        self.world = world
        if self.own_world:
            c = self.world.add_client()
            self.clock = world.clock
        else:
            # one of several wormholes of the process: its own reactor, so that `turn` is a turn of THIS wormhole's
            # eventual queue (the model's `at <i> turn`)
            shim = _OwnClock()
            c = WorldClient(shim, len(world.clients), False)
            world.clients.append(c)
            self.clock = shim.clock
        self.c = c
        self.w = c.w
        b = c.boss
        self.b = b
        self.side = b._side
        self.log = []
        b._M._RC = _RC(self.log)
        b._M._N = _N(self.log)
        b._M._T = _T(self.log)
        b._O._K = _K(self.log)
        b._T = _T(self.log)
        b._D = _D(self.log)
        b._W = _W(self.w, self.log)
        self.view = RxView(b)
        b._W.view = self.view
        b._D.view = self.view
        self.real2model = {}
        self.spec_cache = {}
        self.ndef = 0

    def close(self):
        if self.own_world:
            self.world.__exit__(None, None, None)

    # real body for a body spec, and the body the model sees
    def bodies(self, spec):
        key = tuple(spec)
        if key in self.spec_cache:
            return self.spec_cache[key]
        if spec[0] == "raw":
            real = model = unhx(spec[1])
        else:
            _, s2, p2, pth, corrupt = spec
            pt = unhx(pth)
            real = encrypt_data(derive_phase_key(KEY, s2, p2), pt)
            model = toy_seal(s2, p2, pt)
            if corrupt:
                real = real[:-1] + bytes([real[-1] ^ 0x41])
                model = model[:-1] + bytes([(model[-1] + 1) % 256])
        self.real2model[real] = model
        self.spec_cache[key] = (real, model)
        return real, model

    def model_body(self, phase, body):
        if body in self.real2model:
            return self.real2model[body]
        try:
            pt = decrypt_data(derive_phase_key(KEY, self.side, phase), body)
            m = toy_seal(self.side, phase, pt)
        except CryptoError:
            m = body
        self.real2model[body] = m
        return m

    def show_ev(self, ev):
        k = ev[0]
        if k == "add":
            return f"add {hs(ev[1])} {hx(self.model_body(ev[1], ev[2]))}"
        if k == "pake":
            return f"pake {hx(self.real2model.get(ev[1], ev[1]))}"
        if k in ("received", "dilate"):
            return f"{k} {hx(ev[1])}"
        if k == "cb":
            return f"cb {ev[1]} {ev[2]}"
        return " ".join(ev)

    def digest(self):
        b = self.b
        nxt, keys, dnxt, dkeys = self.view.view()
        return (f"B={peek(lambda: automat_state(b))} M={peek(lambda: automat_state(b._M))} "
                f"O={peek(lambda: automat_state(b._O))} S={peek(lambda: automat_state(b._S))} "
                f"R={peek(lambda: automat_state(b._R))} tx={peek(lambda: b._next_tx_phase)} rx={nxt} "
                f"buf=[{','.join(str(k) for k in keys)}] drx={dnxt} "
                f"dbuf=[{','.join(str(k) for k in dkeys)}] "
                f"pend=[{peek(lambda: ','.join(hs(k) for k in b._M._pending_outbound))}] "
                f"proc=[{peek(lambda: ','.join(hs(k) for k in sorted(b._M._processed)))}] "
                f"sq={peek(lambda: len(b._S._queue))} oq={peek(lambda: len(b._O._queue))} "
                f"res={peek(lambda: len(self.w._received_observer._results))} "
                f"obs={peek(lambda: len(self.w._received_observer._observers))}")

    def _cb(self, res, did):
        if isinstance(res, failure.Failure):
            self.log.append(("cb", str(did), "ERR"))
        else:
            self.log.append(("cb", str(did), hx(res)))
        return None

    def do(self, op):
        """-> (driver line, what the real code did)"""
        b = self.b
        k = op[0]
        del self.log[:]
        last_logged = LOGGED[-1] if LOGGED else None
        if k == "send":
            line = f"send {op[1]}"
            f = lambda: self.w.send_message(unhx(op[1]))     # through the real façade
        elif k == "boss":
            line = f"boss {op[1]}"
            name = op[1]
            if name in ("close", "closed", "happy", "scared"):
                f = lambda: getattr(b, name)()
            elif name == "error":
                f = lambda: b.error(ServerError("x"))
            elif name == "rx_error":
                f = lambda: b.rx_error("crowded", {})
            elif name == "rx_unwelcome":
                f = lambda: b.rx_unwelcome(WelcomeError("no"))
            elif name == "got_code":
                f = lambda: b.got_code(CODE)
            elif name == "got_key":
                f = lambda: b.got_key(KEY)
            else:
                f = lambda: b.got_verifier(b"v" * 32)
        elif k == "rx":
            line = f"rx {op[1]} {op[2]}"
            f = lambda: b._got_phase(op[1], unhx(op[2]))
        elif k == "drx":
            line = f"drx {op[1]} {op[2]}"
            f = lambda: b._got_dilate(op[1], unhx(op[2]))
        elif k == "got_message":
            line = f"got_message {hs(op[1])} {op[2]}"
            f = lambda: b.got_message(op[1], unhx(op[2]))
        elif k == "key":
            line = "key"
            f = lambda: b._R.got_key(KEY)
        elif k == "verified":
            line = "verified"
            f = lambda: b._S.got_verified_key(KEY)
        elif k == "mbox":
            line = "mbox " + " ".join(op[1:])
            name = op[1]
            if name == "got_mailbox":
                f = lambda: b._M.got_mailbox("mb1")
            elif name == "close":
                f = lambda: b._M.close(op[2])
            else:
                f = lambda: getattr(b._M, name)()
        elif k == "add":
            line = f"add {hs(op[1])} {op[2]}"
            f = lambda: b._M.add_message(op[1], unhx(op[2]))
        elif k == "mailbox_rx":
            side = self.side if op[1] == "@me" else op[1]
            spec = list(op[3])
            if spec[0] == "seal" and spec[1] == "@me":
                spec[1] = self.side
            real, model = self.bodies(spec)
            line = f"mailbox_rx {side} {hs(op[2])} {hx(model)}"
            f = lambda: b._M.rx_message(side, op[2], real)
        elif k == "get_message":
            line = "get_message"
            did = self.ndef
            self.ndef += 1

            def f():
                self.w.get_message().addBoth(self._cb, did)
        elif k == "turn":
            line = "turn"
            f = lambda: self.clock.advance(0)
        else:
            raise ValueError(op)
        try:
            f()
            head = "ok"
        except Exception as e:  # noqa
            head = type(e).__name__
        evs = [self.show_ev(e) for e in self.log]
        if LOGGED and LOGGED[-1] is not last_logged:
            fl = LOGGED[-1].get("log_failure") or LOGGED[-1].get("failure")
            if fl is not None and type(fl.value).__name__ == "_UnknownPhaseError":
                evs.append("unknown-phase")
            else:
                evs.append("logged-error")
        out = head + ((" " + "; ".join(evs)) if evs else "") + " | " + self.digest()
        return line, out


def comp_supplied(ops):
    """what one client was handed, per stream and number: the i-th record passed on must be one of those for number i"""
    import re
    supplied, dsupplied = {}, {}
    for op in ops:
        if op[0] == "rx":
            supplied.setdefault(op[1], set()).add(op[2])
        elif op[0] == "drx":
            dsupplied.setdefault(op[1], set()).add(op[2])
        elif op[0] == "got_message" and op[1].strip("\n").isdigit() and op[1].isascii():
            try:
                supplied.setdefault(int(op[1]), set()).add(op[2])
            except ValueError:
                pass
        elif op[0] == "got_message" and op[1].isascii() and re.search(r"^dilate-(\d+)$", op[1]):
            dsupplied.setdefault(int(re.search(r"^dilate-(\d+)$", op[1]).group(1)), set()).add(op[2])
        elif op[0] == "mailbox_rx" and op[3][0] == "seal" and op[2].isdigit() and op[2].isascii():
            supplied.setdefault(int(op[2]), set()).add(op[3][3])
        elif op[0] == "mailbox_rx" and op[3][0] == "seal" and op[2].isascii() and re.search(r"^dilate-(\d+)$", op[2]):
            dsupplied.setdefault(int(re.search(r"^dilate-(\d+)$", op[2]).group(1)), set()).add(op[3][3])
    return supplied, dsupplied


def comp_events(exp, word):
    got = []
    for e in exp:
        for ev in e.split(" | ")[0].split("; "):
            w = ev.split(" ")
            if word in w and w.index(word) + 1 < len(w):
                got.append(w[w.index(word) + 1])
    return got


def comp_oracle(ops, exp, who="", others=()):
    """oracle on a component run: the i-th plaintext handed to W.received must be one that was supplied for phase i
    (by `rx i`, `got_message "i"` or an intact peer message labelled i) - whatever else happens (close, error, scared,
    reconnects, OTHER wormholes or the dilate stream of this one being fed) nothing may be delivered across a gap, twice,
    or from somewhere else; the same for the records handed to the Dilator (dilate-i).
    `others`: the op lists of the other wormholes of the process (only used to say where a foreign record came from)"""
    viol = []
    supplied, dsupplied = comp_supplied(ops)
    for word, sup, other_sup, what, sig in (("received", supplied, dsupplied, "phase", "comp-delivery-out-of-sequence"),
                                            ("dilate", dsupplied, supplied, "dilate seqnum", "comp-dilate-out-of-sequence")):
        got = comp_events(exp, word)
        for i, g in enumerate(got):
            if g in sup.get(i, ()):
                continue
            origin = ""
            if any(g in v for v in other_sup.values()) and not any(g in v for v in sup.values()):
                sig, origin = "comp-foreign-record:other-stream", " (it was supplied to the OTHER strict-order stream of this wormhole)"
            else:
                for j, oops in others:
                    osup, odsup = comp_supplied(oops)
                    if any(g in v for v in list(osup.values()) + list(odsup.values())) and not any(g in v for v in sup.values()):
                        sig, origin = "comp-foreign-record:other-wormhole", f" (it was supplied to wormhole {j} of the same process)"
                        break
            viol.append((sig, f"{who}the {i}-th record handed on as `{word}` is {g[:16]}, which was never supplied for "
                              f"{what} {i}{origin} (handed on so far: {[x[:8] for x in got[:i + 1]]})"))
            break
    return viol


def run_comp(case):
    comp = Comp(case.get("seed", 0))
    try:
        lines = [f"new {comp.side}"]
        exp = ["ok"]
        tags = set()
        for op in case["ops"]:
            line, out = comp.do(op)
            lines.append(line)
            exp.append(out)
            head = out.split(" ", 1)[0]
            tags.add("comp:" + op[0] + ("" if head == "ok" else ":" + head))
            for ev in out.split(" | ")[0].split("; "):
                w = ev.split(" ")
                if "unknown-phase" in w:
                    tags.add("comp:unknown-phase")
        viol = comp_oracle(case["ops"], exp)
        if comp.view.behaviour_only:
            tags.add("comp:observe=behaviour-only")
        nontrivial = any(" received " in e or not e.startswith("ok") for e in exp)
        return Result(lines, exp, viol, sorted(tags), nontrivial)
    finally:
        comp.close()


def run_mcomp(case):
    """several real clients created in ONE process, driven op by op in an interleaved order; the same lines go to the
    model's process (`proc` / `at`)"""
    world = World(seed=case.get("seed", 0))
    world.__enter__()
    try:
        comps = [Comp(0, world) for _ in range(case["n"])]
        lines = ["proc " + " ".join(c.side for c in comps)]
        exp = ["ok"]
        tags = {"mcomp:n=%d" % len(comps)}
        per_ops = [[] for _ in comps]
        per_exp = [[] for _ in comps]
        for i, op in case["ops"]:
            before = [rx_private(c.b) for c in comps]
            line, out = comps[i].do(op)
            # a step of one wormhole must not change another wormhole's buffers (the model's `at` cannot)
            touched = [str(j) for j, c in enumerate(comps) if j != i and rx_private(c.b) != before[j]]
            if touched:
                out += " !touched=" + ",".join(touched)
                tags.add("mcomp:touched-another-wormhole")
            lines.append(f"at {i} {line}")
            exp.append(out)
            per_ops[i].append(op)
            per_exp[i].append(out)
            head = out.split(" ", 1)[0]
            tags.add("mcomp:" + op[0] + ("" if head == "ok" else ":" + head))
        viol = []
        for i in range(len(comps)):
            viol += comp_oracle(per_ops[i], per_exp[i], who=f"wormhole {i}: ",
                                others=[(j, per_ops[j]) for j in range(len(comps)) if j != i])
        # classes: a number parked in one buffer while another buffer of the process stands at that number
        import re
        state = {}
        for (i, op), out in zip(case["ops"], exp[1:]):
            m = re.search(r" rx=(\S+) buf=\[([^\]]*)\] drx=(\S+) dbuf=\[([^\]]*)\]", out)
            if not m:
                continue
            state[(i, "rx")] = (m.group(1), [k for k in m.group(2).split(",") if k])
            state[(i, "drx")] = (m.group(3), [k for k in m.group(4).split(",") if k])
            for stream in ("rx", "drx"):
                cur = state[(i, stream)][0]
                for (j, st2), (_, ks) in state.items():
                    if (j, st2) != (i, stream) and cur in ks:
                        tags.add("mcomp:cursor-at-number-parked-" + ("in-another-wormhole" if j != i else "in-the-other-stream"))
        if any(c.view.behaviour_only for c in comps):
            tags.add("mcomp:observe=behaviour-only")
        nontrivial = any(" received " in e or not e.startswith("ok") for e in exp)
        return Result(lines, exp, viol, sorted(tags), nontrivial)
    finally:
        world.__exit__(None, None, None)


PEER = "bb22bb22bb"
THIRD = "cc33cc33cc"


def gen_comp(rng, adversarial):
    """one component-level op sequence"""
    ops = []
    n = rng.randrange(8, 40)
    pts = ["-", "00", "01ff", "aa" * 5, "7b7d"] + ["%02x" % i * (i + 1) for i in range(6)]
    if rng.random() < 0.15:
        pts.append("ab" * rng.choice([300, 1500, 5000]))
    # honest skeleton, then noise
    stage = ["boss got_code", "mbox connected", "mbox got_mailbox", "key", "pake", "version"]
    rng.shuffle(stage) if adversarial and rng.random() < 0.5 else None
    peer_next = 0
    peer_msgs = []   # specs of peer phase messages, replayable

    def peer_rx(phase, pt, side=PEER, label_side=None, label_phase=None, corrupt=False):
        return ["mailbox_rx", side, phase, ["seal", label_side or side, label_phase or phase, pt, corrupt]]

    for _ in range(n):
        r = rng.random()
        if stage and r < 0.35:
            s = stage.pop(0)
            if s == "pake":
                ops.append(["mailbox_rx", PEER, "pake", ["raw", "70616b652d626f6479"]])
            elif s == "version":
                m = peer_rx("version", "7b7d")
                peer_msgs.append(m)
                ops.append(m)
            else:
                ops.append(s.split(" "))
            continue
        r = rng.random()
        if r < 0.16:
            ops.append(["send", rng.choice(pts)])
        elif r < 0.36:
            # a peer phase message: next in order, or out of order, or a replay
            q = rng.random()
            if q < 0.45 or not peer_msgs:
                ph = peer_next
                peer_next += 1
            elif q < 0.6:
                ph = peer_next + rng.randrange(1, 4)
            else:
                ops.append(rng.choice(peer_msgs))
                continue
            m = peer_rx(str(ph), rng.choice(pts))
            # functional in phase: one payload per phase
            old = [x for x in peer_msgs if x[2] == str(ph)]
            if old:
                m = old[0]
            else:
                peer_msgs.append(m)
            ops.append(m)
            if ph >= peer_next:
                peer_next = max(peer_next, 0)
        elif r < 0.44:
            # echo of one of our own phases (body irrelevant)
            ops.append(["mailbox_rx", "@me", rng.choice(["0", "1", "2", "pake", "version", "7"]), ["raw", "00"]])
        elif r < 0.54:
            ops.append(["mbox", rng.choice(["lost", "connected", "connected", "lost"])])
        elif r < 0.62:
            ops.append(["get_message"])
        elif r < 0.70:
            ops.append(["turn"])
        elif r < 0.74:
            ops.append(["add", rng.choice(["pake", "version", "0", "x"]), rng.choice(["-", "0102", "ffee"])])
        elif r < 0.78:
            ops.append(["rx", rng.randrange(0, 6), rng.choice(pts)])
        elif r < 0.80:
            ops.append(["drx", rng.randrange(0, 4), rng.choice(pts)])
        elif r < 0.84:
            ops.append(["got_message", rng.choice(["0", "1", "2", "007", "12", "version", "dilate-0", "dilate-2",
                                                   "x", "", "1a", "-1", "dilate-", "dilate-x", "3\n", "dilate-1\n",
                                                   " 1", "1 ", "\n", "1\n\n"]),
                        "7b7d"])
        elif adversarial and r < 0.92:
            q = rng.random()
            ph = str(rng.randrange(0, 4))
            if q < 0.25:
                ops.append(peer_rx(ph, rng.choice(pts), corrupt=True))
            elif q < 0.45:
                ops.append(peer_rx(ph, rng.choice(pts), label_phase=str(rng.randrange(0, 4))))
            elif q < 0.6:
                ops.append(peer_rx(ph, rng.choice(pts), label_side=THIRD))
            elif q < 0.7:
                ops.append(["mailbox_rx", PEER, ph, ["seal", "@me", ph, rng.choice(pts), False]])   # reflection
            elif q < 0.8:
                ops.append(["mailbox_rx", THIRD, ph, ["seal", THIRD, ph, rng.choice(pts), False]])
            elif q < 0.9:
                ops.append(["mailbox_rx", PEER, rng.choice(["pake", "x", ""]), ["raw", rng.choice(["-", "00", "abcd"])]])
            else:
                ops.append(["verified"])
        elif adversarial and r < 0.97:
            ops.append(rng.choice([["boss", "close"], ["boss", "closed"], ["boss", "error"], ["boss", "scared"],
                                   ["boss", "happy"], ["boss", "rx_error"], ["boss", "rx_unwelcome"],
                                   ["boss", "got_verifier"], ["boss", "got_key"], ["mbox", "close", "happy"],
                                   ["mbox", "rx_closed"], ["mbox", "got_mailbox"], ["key"], ["boss", "got_code"]]))
        else:
            ops.append(["boss", "got_key"])
    if rng.random() < 0.35:
        # finish with a close / self-close while phases are parked, then the Terminator's `closed`
        gap = peer_next + 1
        tail = [peer_rx(str(gap), rng.choice(pts)), peer_rx(str(gap + 1), rng.choice(pts)),
                ["rx", gap + 3, rng.choice(pts)],
                ["boss", rng.choice(["close", "scared", "rx_error", "rx_unwelcome", "close", "error"])],
                ["boss", "closed"], ["turn"], peer_rx(str(peer_next), rng.choice(pts)), ["get_message"], ["turn"]]
        for t in tail:
            if t[0] == "mailbox_rx" and any(x[0] == "mailbox_rx" and x[2] == t[2] for x in ops):
                continue
            ops.append(t)
    return ops


COMP_CORPUS = [
    # close()/closed, error, scared with messages parked in the reorder buffer: nothing may be flushed
    [["boss", "got_code"], ["boss", "happy"], ["rx", 0, "a0"], ["rx", 2, "a2"], ["rx", 3, "a3"], ["get_message"],
     ["get_message"], ["get_message"], ["boss", "close"], ["rx", 5, "a5"], ["boss", "closed"], ["turn"], ["rx", 1, "a1"],
     ["get_message"], ["turn"]],
    [["boss", "got_code"], ["boss", "happy"], ["rx", 1, "b1"], ["boss", "scared"], ["boss", "closed"], ["rx", 0, "b0"]],
    [["boss", "got_code"], ["boss", "happy"], ["rx", 2, "c2"], ["rx", 1, "c1"], ["boss", "rx_error"], ["boss", "closed"]],
    [["boss", "got_code"], ["boss", "happy"], ["rx", 1, "d1"], ["get_message"], ["boss", "error"], ["turn"], ["rx", 0, "d0"]],
    [["boss", "got_code"], ["boss", "happy"], ["drx", 1, "e1"], ["rx", 1, "e9"], ["boss", "rx_unwelcome"],
     ["boss", "closed"], ["drx", 0, "e0"], ["rx", 0, "e8"]],
    # reorder buffer: gaps, duplicates, stale phases
    [["boss", "got_code"], ["boss", "happy"], ["rx", 2, "02"], ["rx", 0, "00"], ["rx", 0, "00"], ["rx", 3, "03"],
     ["rx", 1, "01"], ["rx", 1, "01"], ["rx", 5, "05"], ["get_message"], ["turn"], ["get_message"], ["get_message"],
     ["get_message"], ["get_message"], ["turn"], ["rx", 4, "04"], ["turn"]],
    # send before everything, drained on verification; echo dequeues; reconnect re-sends the rest
    [["send", "aa"], ["send", "-"], ["boss", "got_code"], ["send", "bb"], ["mbox", "connected"],
     ["add", "pake", "0102"], ["mbox", "got_mailbox"], ["key"],
     ["mailbox_rx", PEER, "pake", ["raw", "0707"]],
     ["mailbox_rx", PEER, "version", ["seal", PEER, "version", "7b7d", False]],
     ["send", "cc"], ["mailbox_rx", "@me", "0", ["raw", "00"]], ["mailbox_rx", "@me", "pake", ["raw", "00"]],
     ["mbox", "lost"], ["send", "dd"], ["mbox", "connected"], ["mailbox_rx", "@me", "1", ["raw", "00"]],
     ["mbox", "lost"], ["mbox", "connected"]],
    # replay of the whole mailbox after a reconnect must not re-deliver
    [["boss", "got_code"], ["mbox", "connected"], ["mbox", "got_mailbox"], ["key"],
     ["mailbox_rx", PEER, "1", ["seal", PEER, "1", "11", False]],
     ["mailbox_rx", PEER, "pake", ["raw", "0707"]],
     ["mailbox_rx", PEER, "0", ["seal", PEER, "0", "10", False]],
     ["mbox", "lost"], ["mbox", "connected"],
     ["mailbox_rx", PEER, "pake", ["raw", "0707"]],
     ["mailbox_rx", PEER, "0", ["seal", PEER, "0", "10", False]],
     ["mailbox_rx", PEER, "1", ["seal", PEER, "1", "11", False]],
     ["mailbox_rx", PEER, "2", ["seal", PEER, "2", "12", False]],
     ["get_message"], ["get_message"], ["get_message"], ["get_message"], ["turn"]],
    # tampering: wrong phase label, corrupt body -> scared
    [["boss", "got_code"], ["mbox", "connected"], ["mbox", "got_mailbox"], ["key"],
     ["mailbox_rx", PEER, "pake", ["raw", "0707"]],
     ["mailbox_rx", PEER, "0", ["seal", PEER, "0", "10", False]],
     ["mailbox_rx", PEER, "1", ["seal", PEER, "2", "12", False]],
     ["mailbox_rx", PEER, "2", ["seal", PEER, "2", "12", False]]],
    # phase-name dispatch
    [["boss", "got_code"], ["boss", "happy"]] +
    [["got_message", p, "7b7d"] for p in ["version", "0", "007", "2", "1", "dilate-1", "dilate-0", "x", "", "1a",
                                          "-1", "dilate-", "3\n", "dilate-2\n", "1\n\n", " 4", "0x1", "version\n"]],
    # illegal orders: NoTransition / AssertionError paths
    [["rx", 0, "00"], ["boss", "happy"], ["mbox", "lost"], ["mailbox_rx", PEER, "0", ["raw", "00"]],
     ["mbox", "connected"], ["mbox", "connected"], ["mbox", "got_mailbox"],
     ["mailbox_rx", PEER, "0", ["seal", PEER, "0", "10", False]],
     ["mailbox_rx", PEER, "pake", ["raw", "01"]], ["verified"], ["send", "01"], ["verified"], ["key"], ["key"],
     ["mbox", "rx_closed"], ["mbox", "close", "happy"], ["mbox", "lost"], ["send", "02"], ["mbox", "connected"],
     ["mbox", "rx_closed"], ["boss", "closed"], ["boss", "close"], ["boss", "closed"], ["get_message"], ["turn"]],
    # close while unclaimed results wait: error wins
    [["boss", "got_code"], ["boss", "happy"], ["get_message"], ["rx", 0, "aa"], ["rx", 1, "bb"], ["rx", 2, "cc"],
     ["get_message"], ["boss", "error"], ["get_message"], ["get_message"], ["turn"], ["rx", 3, "dd"], ["send", "ee"]],
]


# --------------------------------------------------------------------------- whole-client world

SIZES = [0, 1, 2, 3, 17, 100, 1000]
BIG = [4096, 65535, 65536, 70000]


def payload(rng, i, who):
    n = rng.choice(BIG) if rng.random() < 0.06 else rng.choice(SIZES)
    base = bytes([(who * 16 + i) % 256, i % 256])
    return (base * (n // 2 + 1))[:n]


CODES = [CODE, "5-orange-marmalade", "6-violet-gherkins"]      # pair p = clients 2p, 2p+1 share CODES[p]


def peer_frames(c):
    """(index, phase) of the queued `message` frames from the peer, in queue order"""
    if c.conn is None:
        return []
    out = []
    for i, fr in enumerate(c.conn.s2c):
        try:
            m = bytes_to_dict(fr)
        except Exception:
            continue
        if m.get("type") == "message" and m.get("side") != c.side:
            out.append((i, m.get("phase")))
    return out


def gen_e2e(rng, tier, npairs=1):
    """a schedule generated against a live World, so that the fault operations hit states in which they
    do something (frames queued, connection up, …); the op list replays exactly.
    npairs > 1: several pairs of wormholes in the ONE process (pair p = clients 2p, 2p+1, own code each)"""
    n = 2 * npairs
    everyone = range(n)
    nmsg = [rng.randrange(0, 9 if npairs == 1 else 5) for _ in everyone]
    if rng.random() < 0.3:
        nmsg[rng.randrange(n)] = 0
    deleg = [rng.random() < 0.5 for _ in everyone]
    code_mode = rng.choice(["set", "set", "set", "alloc"])
    with_dilate = rng.random() < (0.5 if npairs == 1 else 0.7)
    with_close = rng.random() < (0.35 if npairs == 1 else 0.15)
    todo = {}
    for who in everyone:
        seq = [["api", who, "send", hx(payload(rng, i, who))] for i in range(nmsg[who])]
        if with_dilate:
            for j in range(rng.randrange(0, 4)):
                body = b'{"type": "%s", "n": %d, "w": %d}' % (rng.choice([b"please", b"connection-hints", b"reconnect"]), j, who)
                seq.insert(rng.randrange(0, len(seq) + 1), ["dsend", who, hx(body)])
        if code_mode == "alloc" and who % 2 == 0:
            codeop = ["api", who, "allocate_code"]
        elif code_mode == "alloc":
            codeop = ["code_from", who, who ^ 1]
        else:
            codeop = ["api", who, "set_code", CODES[who // 2]]
        pos = rng.randrange(0, len(seq) + 1) if rng.random() < 0.7 else 0
        seq.insert(pos, codeop)
        todo[who] = seq
    seed = rng.randrange(10**6)
    chaos = rng.choice([0.0, 0.3, 1.0, 2.0]) if npairs == 1 else rng.choice([0.3, 1.0, 2.0])
    eager = rng.choice([0.3, 1.0, 3.0])       # how eagerly the applications call the API
    ops = []
    # re-entrant applications: API calls made from inside delegate / Deferred callbacks
    script = None
    if rng.random() < 0.4:
        script = {}
        k = 0
        for who in everyone:
            d = {}
            for ev in ("welcome", "code", "key", "verifier", "versions", "message"):
                if rng.random() < 0.4:
                    occ = []
                    for _ in range(rng.choice([1, 1, 2])):
                        acts = []
                        for _ in range(rng.choice([1, 1, 2])):
                            k += 1
                            acts.append(["send", "5c%02x%02x" % (who, k)])
                        if with_close and rng.random() < 0.1:
                            acts.append(["close"])
                        occ.append(acts)
                    d[ev] = occ
            if d:
                script[str(who)] = d
    nfollow = 0
    slow = eagerr = None
    if rng.random() < 0.35:
        slow = [rng.choice([0.0, 0.005, 0.03, 0.2]) for _ in range(n - 1)] + [rng.choice([0.005, 0.03, 0.2])]
        rng.shuffle(slow)
        eagerr = [rng.random() < 0.6 for _ in everyone]
    run = E2ERun(seed, deleg, script, slow, eagerr)
    try:
        for _ in range(rng.randrange(40, 260) if npairs == 1 else rng.randrange(80, 360)):
            cand = []
            for who in everyone:
                c = run.cl[who]
                if todo[who]:
                    cand.append((eager, ["todo", who]))
                if c.conn is None:
                    if c.svc.started:
                        cand.append((1.5, ["open", who]))
                else:
                    cand.append((0.25 * chaos, ["drop", who]))
                    if c.conn.c2s:
                        cand.append((2.0, ["c2s", who]))
                    if c.conn.s2c:
                        cand.append((2.0, ["s2c", who]))
                    nm = len(run.W.msg_frames(who))
                    if nm >= 1:
                        cand.append((0.5 * chaos, ["dupmsg", who, rng.randrange(nm)]))
                    if nm >= 2:
                        cand.append((0.7 * chaos, ["swapmsg", who, rng.randrange(nm), rng.randrange(nm)]))
                    pf = peer_frames(c)
                    if len(pf) >= 2:
                        # the server hands over a later frame of the peer first (the earlier ones stay queued)
                        cand.append((0.6 * chaos, ["hand", who, rng.choice(pf[1:])[1]]))
                if c.eq._calls:
                    cand.append((1.0, ["turn", who]))
                if not c.delegated:
                    cand.append((0.9 if slow else 0.3, ["api", who, "get_message"]))   # pipelined reads
                if with_close and not run.any_close:
                    parked = run.taps[who].view.parked()
                    cand.append((0.6 if parked else 0.03, ["api", who, "close"]))
                    if c.conn is not None:
                        cand.append((0.3 if parked else 0.01, ["srverr", who]))
                        if run.W.msg_frames(who):
                            cand.append((0.2 if parked else 0.01, ["scare", who, 0]))
            cand.append((0.05, ["settle"]))
            tot = sum(w for w, _ in cand)
            x = rng.random() * tot
            for w, op in cand:
                x -= w
                if x <= 0:
                    break
            before = dict(run.reacted)
            if op[0] == "todo":
                nxt = todo[op[1]][0]
                if run.do(nxt):
                    todo[op[1]].pop(0)
                    ops.append(nxt)
                else:
                    ops.append(["s2c", op[1] ^ 1]) if run.do(["s2c", op[1] ^ 1]) else None
            else:
                run.do(op)
                ops.append(op)
            for who in everyone:
                # the application reacted inside a callback during this step: it may call send_message again
                # right after the triggering call returned, before any eventual turn runs
                if run.reacted[who] > before[who] and rng.random() < 0.7:
                    nfollow += 1
                    f = ["api", who, "send", "5d%02x%02x" % (who, nfollow)]
                    run.do(f)
                    ops.append(f)
    finally:
        run.close()
    for who in everyone:
        ops.extend(todo[who])
    case = dict(kind="e2e", seed=seed, deleg=deleg, ops=ops)
    if script:
        case["script"] = script
    if slow:
        case["slow"] = slow
        case["eager"] = eagerr
    return case


def cross_case(npairs, nmsg, ndil, seq, deleg, seed=29):
    """npairs pairs of wormholes in one process; after the handshakes every client submits dilate-0..(ndil-1) and sends
    nmsg numbered messages, the server stores everything, and then hands the peers' frames over one at a time in the
    GLOBAL order `seq` = [(client, phase name), …] — any order per client (early phases are held back), interleaved
    across the clients in any way; whatever `seq` leaves out follows in FIFO order"""
    n = 2 * npairs
    ops = [["open", i] for i in range(n)] + [["api", i, "set_code", CODES[i // 2]] for i in range(n)] + [["settle"]]
    for i in range(n):
        for j in range(ndil):
            ops.append(["dsend", i, hx(b'{"type": "dil", "w": %d, "n": %d}' % (i, j))])
        for k in range(nmsg):
            ops.append(["api", i, "send", "%02x%02x%02x" % (0xa0 + i, 16 * i + k, k)])
    for i in range(n):
        ops += [["c2s", i]] * (nmsg + ndil)
    ops += [["hand", x, ph] for (x, ph) in seq]
    ops += [["settle"]]
    return dict(kind="e2e", seed=seed, deleg=list(deleg), ops=ops, cross=True)


def cross_items(npairs, nmsg, ndil):
    return [(x, ph) for x in range(2 * npairs) for ph in [str(k) for k in range(nmsg)] + ["dilate-%d" % j for j in range(ndil)]]


def gen_cross(rng, npairs=None):
    """a random global hand-over order; half of them start with one client being handed a LATER number first and the
    other clients / the other stream then running up to and past that number while it is held"""
    npairs = npairs or rng.choice([1, 1, 2])
    nmsg, ndil = rng.choice([2, 3]), rng.choice([0, 1, 2])
    items = cross_items(npairs, nmsg, ndil)
    rng.shuffle(items)
    if rng.random() < 0.5:
        v = rng.randrange(2 * npairs)
        k = rng.randrange(1, nmsg)
        early = (v, rng.choice([str(k)] + (["dilate-%d" % min(k, ndil - 1)] if ndil > 1 else [])))
        others = [(x, ph) for (x, ph) in items if x != v]
        others.sort(key=lambda e: (int(e[1].split("-")[-1]), rng.random()))
        rest = [e for e in items if e[0] == v and e != early]
        items = [early] + others + rest
    if rng.random() < 0.3:
        items = items[:rng.randrange(1, len(items) + 1)]
    return cross_case(npairs, nmsg, ndil, items, [rng.random() < 0.5 for _ in range(2 * npairs)], seed=rng.randrange(10**6))


def slow_case(nmsg, nget, slow, eager, deleg0=False, order=None):
    """B (Deferred API) keeps `nget` get_message() calls outstanding, its callbacks take `slow` seconds and (eager)
    ask for the next message from inside the callback; A's `nmsg` messages all arrive before B's next eventual turn"""
    ops = [["open", 0], ["open", 1], ["api", 0, "set_code", CODE], ["api", 1, "set_code", CODE], ["settle"]]
    ops += [["api", 1, "get_message"]] * nget
    for i in range(nmsg):
        ops.append(["api", 0, "send", "%02x%02x" % (0xd0 + i, i)])
    ops += [["c2s", 0]] * nmsg
    if order:
        ops += [["swapmsg", 1, i, j] for i, j in perm_swaps(order)]
    ops += [["s2c", 1]] * nmsg
    ops += [["turn", 1]] * 3 + [["settle"]]
    return dict(kind="e2e", seed=17, deleg=[deleg0, False], ops=ops, slow=[0.0, slow], eager=[False, eager])


def reent_case(ev, deleg, nacts=1, follow=True, closing=False):
    """client 0's application calls send_message() from inside its `ev` callback and (follow) once more right after
    the call that triggered the callback has returned, before any eventual turn; everything else runs FIFO"""
    acts = [["send", "e1%02x" % i] for i in range(nacts)] + ([["close"]] if closing else [])
    script = {"0": {ev: [acts]}}
    run = E2ERun(21, deleg, script)
    ops = []

    def step(op):
        before = run.reacted[0]
        run.do(op)
        ops.append(op)
        if follow and run.reacted[0] > before:
            f = ["api", 0, "send", "f2%02x" % len(ops)]
            run.do(f)
            ops.append(f)
    try:
        for op in [["open", 0], ["open", 1], ["api", 1, "send", "b0"], ["api", 0, "send", "a0"],
                   ["api", 0, "set_code", CODE], ["api", 1, "set_code", CODE]]:
            step(op)
        for _ in range(400):
            progressed = False
            for who in (0, 1):
                c = run.cl[who]
                if c.conn is not None and c.conn.c2s:
                    step(["c2s", who]); progressed = True
                elif c.conn is not None and c.conn.s2c:
                    step(["s2c", who]); progressed = True
                elif c.eq._calls:
                    step(["turn", who]); progressed = True
            if not progressed:
                break
        step(["api", 0, "send", "a9"])
    finally:
        run.close()
    return dict(kind="e2e", seed=21, deleg=deleg, ops=ops, script=script, reent=True)


def early_case(order, deleg, nmsg=2):
    """A's numbered phases overtake A's `version` on the way to B: B stops reading once it has A's PAKE, A finishes
    the handshake and sends, then B is handed A's frames in `order` (phase names) in one go, before any eventual turn"""
    run = E2ERun(23, deleg)
    ops = []

    def step(op):
        run.do(op)
        ops.append(op)
    try:
        for op in [["open", 0], ["open", 1], ["api", 0, "set_code", CODE], ["api", 1, "set_code", CODE]]:
            step(op)
        for i in range(nmsg):
            step(["api", 0, "send", "%02x%02x" % (0xb0 + i, i)])
        for _ in range(400):
            progressed = False
            for who in (0, 1):
                c = run.cl[who]
                hold = who == 1 and automat_state(c.boss._O) == "S1_yes_pake"
                if c.conn is not None and c.conn.c2s:
                    step(["c2s", who]); progressed = True
                elif c.conn is not None and c.conn.s2c and not hold:
                    step(["s2c", who]); progressed = True
                elif c.eq._calls and not hold:
                    step(["turn", who]); progressed = True
            if not progressed:
                break
        step(["msgorder", 1, list(order)])
        if not deleg[1]:
            for _ in range(nmsg):
                step(["api", 1, "get_message"])
        n = len(run.cl[1].conn.s2c) if run.cl[1].conn else 0
        for _ in range(n):
            step(["s2c", 1])
        step(["settle"])
    finally:
        run.close()
    return dict(kind="e2e", seed=23, deleg=deleg, ops=ops, early=True)


def perm_swaps(perm):
    """swapmsg index pairs that turn the identity arrangement into `perm` (selection sort)"""
    cur = list(range(len(perm)))
    out = []
    for i in range(len(perm)):
        j = cur.index(perm[i])
        if j != i:
            out.append((i, j))
            cur[i], cur[j] = cur[j], cur[i]
    return out


def exh_case(pi, k, sigma, who_drops, deleg):
    """3 messages A->B after the key is verified; first delivery in order `pi`, connection of `who_drops`
    lost after k steps, then everything replayed in order `sigma`"""
    ops = [["open", 0], ["open", 1], ["api", 0, "set_code", CODE], ["api", 1, "set_code", CODE], ["settle"]]
    for i in range(3):
        ops.append(["api", 0, "send", "%02x%02x" % (0xa0 + i, i)])
    if who_drops == 1:
        ops += [["c2s", 0]] * 3                       # the server stores 0,1,2 and queues them to B (and the echoes to A)
        ops += [["swapmsg", 1, i, j] for i, j in perm_swaps(pi)]
        ops += [["s2c", 1]] * k
        ops += [["drop", 1], ["open", 1], ["c2s", 1], ["c2s", 1]]   # bind, open -> full replay queued
        # the replay holds pake/version from both sides and the three phases; permute the last three message frames
        ops += [["permtail", 1, list(sigma)]]
    else:
        ops += [["c2s", 0]] * k                       # the server has k of the three adds
        ops += [["drop", 0], ["open", 0], ["c2s", 0], ["c2s", 0]]   # bind, open (replay to A)
        ops += [["c2s", 0]] * 3                       # A's drain: re-adds everything not echoed
        ops += [["swapmsg", 1, i, j] for i, j in perm_swaps(pi)]
        ops += [["permtail", 1, list(sigma)]]
    return dict(kind="e2e", seed=7, deleg=deleg, ops=ops, exh=True)


def _keys(d):
    try:
        return list(d.keys())
    except Exception:
        try:
            return ["?%s" % (x[0] if isinstance(x, tuple) else x) for x in d]
        except Exception:
            return ["?"]


class _DStandIn:
    """Boss._D stand-in for the whole-client world: records what the Boss hands to the Dilator"""
    _manager = None

    def __init__(self, tap):
        self.tap = tap

    def got_key(self, key):
        pass

    def got_wormhole_versions(self, v):
        pass

    def received_dilate(self, pt):
        self.tap.dilated.append(pt)
        self.tap.order.append(("dilate", pt))
        self.tap.view.delivered("drx")


def dil_case(perm, deleg, ndil=2, nmsg=3):
    """A submits dilate-0..dilate-(ndil-1) and numbered messages 0..nmsg-1 after the key is verified; the server
    hands them to B in the order `perm` (a permutation of range(ndil + nmsg); index < ndil = dilate-index)"""
    ops = [["open", 0], ["open", 1], ["api", 0, "set_code", CODE], ["api", 1, "set_code", CODE], ["settle"]]
    for j in range(ndil):
        ops.append(["dsend", 0, hx(b'{"type": "dil", "n": %d}' % j)])
    for i in range(nmsg):
        ops.append(["api", 0, "send", "%02x%02x" % (0xa0 + i, i)])
    ops += [["c2s", 0]] * (ndil + nmsg)
    ops += [["permtail", 1, list(perm)]]
    ops += [["s2c", 1]] * (ndil + nmsg)
    return dict(kind="e2e", seed=11, deleg=deleg, ops=ops, dil=True)


def close_case(perm, k, how, deleg):
    """3 messages A->B delivered in order `perm`; after k of them B's wormhole closes (`how`: the application
    calls close(), the server sends an error, or the next message is corrupted), everything else still arrives"""
    ops = [["open", 0], ["open", 1], ["api", 0, "set_code", CODE], ["api", 1, "set_code", CODE], ["settle"]]
    ops += [["api", 1, "get_message"]] * 3
    for i in range(3):
        ops.append(["api", 0, "send", "%02x%02x" % (0xc0 + i, i)])
    ops += [["c2s", 0]] * 3
    ops += [["swapmsg", 1, i, j] for i, j in perm_swaps(perm)]
    ops += [["s2c", 1]] * k
    if how == "close":
        ops.append(["api", 1, "close"])
    elif how == "srverr":
        ops += [["srverr", 1], ["s2c", 1]]
    else:
        ops += [["scare", 1, 0], ["s2c", 1]]
    ops.append(["settle"])
    return dict(kind="e2e", seed=13, deleg=deleg, ops=ops, closing=True)


class Tap:
    """observation points on one real client (instance attributes only; nothing in /repo changes).  What the oracle
    uses is public behaviour: the arguments of `W.received` / `D.received_dilate` and the application's own events."""

    def __init__(self, run, c, idx):
        self.run = run
        self.c = c
        self.idx = idx
        self.delivered = []     # W.received(pt) calls
        self.dilated = []       # D.received_dilate(pt) calls
        self.order = []         # both, in call order
        self.got_phase = []     # Boss._got_phase / _got_dilate calls with what they caused and the buffers afterwards
        b = c.boss
        w = c.w
        orig_received = w.received
        b._D = _DStandIn(self)
        events = run.events

        def received(pt):
            self.delivered.append(pt)
            self.order.append(("received", pt))
            self.view.delivered("rx")
            return orig_received(pt)

        w.received = received
        self.view = RxView(b, before=self._before, after=self._after)
        orig_rx = getattr(getattr(b, "_M", None), "rx_message", None)
        if orig_rx is not None:
            def rx_message(side, phase, body):
                events.append(("rx", idx, side, phase))
                return orig_rx(side, phase, body)
            b._M.rx_message = rx_message

    def _before(self):
        return len(self.order), [rx_private(t.c.boss) for t in self.run.taps]

    def _after(self, kind, n, pt, st0, tok):
        n0, before = tok
        nxt, keys, dnxt, dkeys = self.view.view()
        # a step of this wormhole must not change the buffers of another wormhole of the process
        touched = [j for j, t in enumerate(self.run.taps) if j != self.idx and j < len(before)
                   and rx_private(t.c.boss) != before[j]]
        entry = (kind, n, pt, st0, list(self.order[n0:]), nxt, keys, dnxt, dkeys, touched)
        self.got_phase.append(entry)
        self.run.glog.append((self.idx, entry))


def app_received(c):
    return [bytes.fromhex(v) if v else b"" for (n, v) in c.events if n == "message"]


def classify(recv, sent):
    """why `recv` is not a prefix of `sent`"""
    for i, m in enumerate(recv):
        if i < len(sent) and m == sent[i]:
            continue
        if m in recv[:i]:
            return "duplicate"
        if m in sent[:i]:
            return "duplicate"
        if m in sent[i + 1:]:
            j = sent.index(m, i + 1)
            return "reordered" if any(x in recv[i + 1:] for x in sent[i:j]) else "gap"
        return "altered-or-unsent"
    return "extra"


DELEGATE_EVENTS = {"wormhole_got_welcome": "welcome", "wormhole_got_code": "code",
                   "wormhole_got_unverified_key": "key", "wormhole_got_verifier": "verifier",
                   "wormhole_got_versions": "versions", "wormhole_got_message": "message",
                   "wormhole_closed": "closed"}


class ScriptDelegate:
    """A re-entrant application (Delegated API): forwards every callback to the World's recording delegate and then,
    still INSIDE the callback, performs the scripted API calls (send_message / close) for that event."""

    def __init__(self, orig, run, who):
        self._orig = orig
        self._run = run
        self._who = who

    def __getattr__(self, name):
        f = getattr(self._orig, name)
        ev = DELEGATE_EVENTS.get(name)
        if ev is None:
            return f

        def cb(*a):
            r = f(*a)
            if self._run.slow[self._who]:
                self._run.W.clock.rightNow += self._run.slow[self._who]
            self._run.react(self._who, ev)
            return r
        return cb


class E2ERun:
    """n = len(deleg) real wormholes in ONE process (one World: one server, one reactor clock); clients 2p and 2p+1 are
    the two ends of pair p"""

    def __init__(self, seed, deleg, script=None, slow=None, eager=None):
        self.W = World(seed=seed)
        self.W.__enter__()
        W = self.W
        self.deleg = deleg
        self.n = n = len(deleg)
        self.cl = [W.add_client(delegated=d) for d in deleg]
        # what the applications do from inside their callbacks: script[str(who)][event] = [[action, …] per occurrence]
        self.script = {int(k): {e: [list(x) for x in v] for e, v in d.items()} for k, d in (script or {}).items()}
        self.reacted = {i: 0 for i in range(n)}        # number of scripted reactions performed so far, per client
        # applications whose callbacks take time (the clock moves while one runs) and which ask for the next message
        # from inside a callback (Deferred API: the World's Client does both; Delegated API: ScriptDelegate bumps)
        self.slow = (list(slow or []) + [0.0] * n)[:n]
        eager = (list(eager or []) + [False] * n)[:n]
        for who in range(n):
            c = self.cl[who]
            c.slow = self.slow[who]
            c.read_in_callback = bool(eager[who])
            if c.delegated and self.slow[who] and who not in self.script:
                c.w._delegate = ScriptDelegate(c.w._delegate, self, who)
        for who in range(n):
            c = self.cl[who]
            if who not in self.script:
                continue
            if c.delegated:
                c.w._delegate = ScriptDelegate(c.w._delegate, self, who)
            else:
                # Deferred API: the application reacts inside its Deferred callbacks (which run in an eventual turn)
                for ev, meth in (("welcome", c.w.get_welcome), ("code", c.w.get_code), ("key", c.w.get_unverified_key),
                                 ("verifier", c.w.get_verifier), ("versions", c.w.get_versions)):
                    d = meth()
                    d.addCallbacks(lambda r, ev=ev, who=who: self.react(who, ev), lambda f: None)
        self.events = []
        self.glog = []                   # every _got_phase / _got_dilate call of every client, in the order they happened
        self.taps = []
        for i in range(n):
            self.taps.append(Tap(self, self.cl[i], i))
        self.sent = {i: [] for i in range(n)}
        self.any_close = False           # some wormhole was told to close or closed itself: no completeness claim
        self.dsent = {i: [] for i in range(n)}   # bodies submitted as dilate-0, dilate-1, … (what Manager.send_dilation_phase does)
        self.ngets = {i: 0 for i in range(n)}
        self.viol = []
        self.tags = set()

    def close(self):
        self.W.__exit__(None, None, None)

    def react(self, who, ev):
        """the application's scripted reaction to one callback, performed inside that callback"""
        acts = self.script.get(who, {}).get(ev)
        if not acts:
            return
        for act in acts.pop(0):
            self.reacted[who] += 1
            self.tags.add("e2e:reentrant:" + ev + ":" + act[0] + (":deleg" if self.cl[who].delegated else ":defer"))
            if act[0] == "send":
                self.do(["api", who, "send", act[1]])
            elif act[0] == "close":
                self.do(["api", who, "close"])

    def foreign(self, x, records, stream):
        """(origin, record) for the first record handed to client x on `stream` ("message": its application,
        "dilate": its Dilator) that its peer never submitted on that stream although somebody in the process did:
        nothing of anybody else's, nothing of its own, nothing of the other stream"""
        y = x ^ 1
        same = self.sent if stream == "message" else self.dsent      # submissions on this stream, per client
        other = self.dsent if stream == "message" else self.sent
        for m in records:
            if m in same[y]:
                continue
            for z in range(self.n):
                if z != y and m in same[z]:
                    return ("own-submission" if z == x else "another-wormhole"), m
            for z in range(self.n):
                if m in other[z]:
                    return "other-stream" + ("" if z in (x, y) else ":another-wormhole"), m
        return None

    def check(self, where):
        cl, sent, taps, viol = self.cl, self.sent, self.taps, self.viol
        for x in range(self.n):
            y = x ^ 1
            r = app_received(cl[x])
            for stream, recs, what in (("message", r, "application received"), ("message", taps[x].delivered, "W.received got"),
                                       ("dilate", taps[x].dilated, "Dilator was handed")):
                f = self.foreign(x, recs, stream)
                if f is not None:
                    viol.append(("foreign-record:" + stream + ":" + f[0],
                                 f"{where}: client {x}'s {what} {f[1].hex()[:24]}, which its peer (client {y}) never "
                                 f"submitted as a {stream} record — it comes from {f[0]}; got so far "
                                 f"{[m.hex()[:16] for m in recs]}"))
                    return False
            s = sent[y]
            if r != s[:len(r)]:
                why = classify(r, s)
                viol.append(("not-prefix:" + why,
                             f"{where}: client {x} received {[m.hex()[:16] for m in r]} but its peer sent "
                             f"{[m.hex()[:16] for m in s]}"))
                return False
            d = taps[x].delivered
            if d != s[:len(d)]:
                viol.append(("not-prefix:" + classify(d, s),
                             f"{where}: client {x} W.received {[m.hex()[:16] for m in d]} vs sent "
                             f"{[m.hex()[:16] for m in s]}"))
                return False
            dd = taps[x].dilated
            ds = self.dsent[y]
            if dd != ds[:len(dd)]:
                viol.append(("dilate-not-prefix:" + classify(dd, ds),
                             f"{where}: client {x}'s Dilator was handed {[m.hex()[:16] for m in dd]} but its peer "
                             f"submitted dilate-0.. = {[m.hex()[:16] for m in ds]}"))
                return False
        return True

    def parked(self, who):
        return self.taps[who].view.parked()

    def do(self, op):
        W, cl, sent = self.W, self.cl, self.sent
        k = op[0]
        if k == "code_from":
            code = [v for (n, v) in cl[op[2]].events if n == "code"]
            if not code:
                return False
            W.do(["api", op[1], "set_code", code[0]])
            return True
        if k == "hand":
            # the server hands client op[1] its peer's stored message with phase op[2] NOW, ahead of whatever else is
            # queued for that client (which stays queued): reordering, per client and across clients
            c = cl[op[1]]
            hit = [i for (i, ph) in peer_frames(c) if ph == op[2]]
            stopping = c.svc.stopping is not None and not c.svc.stopping.called
            if not hit or stopping or getattr(c.conn, "closing", False):
                self.tags.add("e2e:hand:noop")
                return True
            fr = c.conn.s2c[hit[0]]
            del c.conn.s2c[hit[0]]
            W._guard(c, lambda: c.rc.ws_message(fr))
            self.tags.add("e2e:hand" + (":overtaking" if hit[0] > 0 else ""))
            return True
        if k == "msgorder":
            # the peer's queued `message` frames with the listed phases are handed over in the listed order
            c = cl[op[1]]
            if c.conn is None:
                return True
            q = c.conn.s2c
            pos = {}
            for i, fr in enumerate(q):
                m = bytes_to_dict(fr)
                if m.get("type") == "message" and m.get("side") != c.side and m.get("phase") in op[2]:
                    pos.setdefault(m["phase"], i)
            if sorted(pos) != sorted(op[2]):
                return True
            slots = sorted(pos.values())
            frames = [q[pos[ph]] for ph in op[2]]
            for i, fr in zip(slots, frames):
                q[i] = fr
            self.tags.add("e2e:msgorder")
            return True
        if k == "permtail":
            idx = W.msg_frames(op[1])
            q = cl[op[1]].conn.s2c if cl[op[1]].conn else None
            if q is None or len(idx) < len(op[2]):
                return True
            tail = idx[-len(op[2]):]
            frames = [q[i] for i in tail]
            for pos, src in zip(tail, op[2]):
                q[pos] = frames[src]
            return True
        if k == "api" and op[2] == "send":
            r = W.do(op)
            if r == "ok":
                sent[op[1]].append(unhx(op[3]))
                self.events.append(("send", op[1], len(sent[op[1]]) - 1))
            return True
        if k == "api" and op[2] == "get_message":
            if cl[op[1]].delegated:
                return True
            self.ngets[op[1]] += 1
        if k == "api" and op[2] == "close":
            self.any_close = True
            self.tags.add("e2e:close" + (":parked" if self.parked(op[1]) else ""))
        if k == "srverr":
            # the server sends an `error` frame (e.g. crowded) ahead of whatever is queued: the wormhole closes itself
            c = cl[op[1]]
            if c.conn is None:
                return True
            from wormhole.util import dict_to_bytes
            c.conn.s2c.appendleft(dict_to_bytes({"type": "error", "error": "crowded", "orig": {"type": "open"}}))
            self.any_close = True
            self.tags.add("e2e:srverr" + (":parked" if self.parked(op[1]) else ""))
            return True
        if k == "scare":
            # the next queued peer message is corrupted: Receive is scared, the wormhole closes itself
            r = W.do(["tamper", op[1], op[2], "flip", 5])
            if r == "ok":
                self.any_close = True
                self.tags.add("e2e:scare")
            return True
        if k == "dsend":
            # exactly what _dilation.manager.Manager.send_dilation_phase does: S.send("dilate-%d" % n, body);
            # the real Send seals it with the real key (or queues it until the key is verified)
            body = unhx(op[2])
            n = len(self.dsent[op[1]])
            self.dsent[op[1]].append(body)
            cl[op[1]].boss._S.send("dilate-%d" % n, body)
            self.tags.add("e2e:dsend")
            return True
        r = W.do(op)
        self.tags.add("e2e:" + k + (":noop" if r == "noop" else ""))
        return True


Z = ("M=S0A O=S0_no_pake S=S0_no_key R=S0_unknown_key tx=0 rx={rx} buf=[{buf}] drx={drx} dbuf=[{dbuf}] "
     "pend=[] proc=[] sq=0 oq=0 res={res} obs=0")


def run_e2e(case):
    lines, exp = [], []
    run = E2ERun(case["seed"], case["deleg"], case.get("script"), case.get("slow"), case.get("eager"))
    try:
        W, cl, taps, sent, viol, tags, events = run.W, run.cl, run.taps, run.sent, run.viol, run.tags, run.events
        do, check, ngets = run.do, run.check, run.ngets
        n = run.n
        deferred_ops = []
        for op in case["ops"]:
            if not do(op):
                deferred_ops.append(op)
            if op[0] in ("s2c", "turn", "settle", "hand") and not check("during the schedule"):
                break
        if not viol:
            check("during the schedule")
        # final: reconnect, run to quiescence, claim everything
        if not viol:
            for x in range(n):
                W.do(["open", x])
            W.do(["settle"])
            for op in deferred_ops:
                if not do(op):
                    W.do(["settle"])
                    do(op)
            W.do(["settle"])
            for x in range(n):
                if not cl[x].delegated:
                    for _ in range(max(0, len(sent[x ^ 1]) - ngets[x])):
                        W.do(["api", x, "get_message"])
            W.do(["settle"])
            codes = [[v for (nm, v) in c.events if nm == "code"] for c in cl]
            # "two wormholes that share a code": pair by pair
            shared = all(bool(codes[x]) and codes[x] == codes[x ^ 1] for x in range(n))
            if run.any_close:
                shared = False      # after a close only the prefix property is claimed, not completeness
                tags.add("e2e:closed-run")
            if not shared:
                tags.add("e2e:no-shared-code")
            if check("after the final settle") and shared:
                for x in range(n):
                    r = app_received(cl[x])
                    if r != sent[x ^ 1]:
                        viol.append(("incomplete-after-settle",
                                     f"client {x} received {len(r)} of the {len(sent[x ^ 1])} messages its peer sent "
                                     f"(internal errors: {cl[x].internal[:2]} / {cl[x ^ 1].internal[:2]})"))
                        break
                if not viol:
                    for x in range(n):
                        if taps[x].dilated != run.dsent[x ^ 1]:
                            viol.append(("dilate-incomplete-after-settle",
                                         f"client {x}'s Dilator got {len(taps[x].dilated)} of the "
                                         f"{len(run.dsent[x ^ 1])} dilate-N messages its peer submitted"))
                            break
        # ---- the same run through the model: Pipe per direction …
        for x in range(n):          # receiver x, sender y
            y = x ^ 1
            acts = []
            for ev in events:
                if ev[0] == "send" and ev[1] == y:
                    acts.append("s" + hx(sent[y][ev[2]]))
                elif ev[0] == "rx" and ev[1] == x and ev[2] == cl[y].side and ev[3].isdigit() and ev[3].isascii():
                    acts.append("d" + str(int(ev[3])))
            if run.any_close:
                # a closing Boss ignores what still arrives: replay only what it took while S2_happy
                acts = ["s" + hx(m) for m in sent[y]]
                acts += ["d" + str(g[1]) for g in taps[x].got_phase
                         if g[0] == "rx" and g[3] == "S2_happy" and g[1] < len(sent[y])]
            nxt, keys, _, _ = taps[x].view.view()
            lines.append("pipe " + " ".join(acts) if acts else "pipe")
            exp.append(f"received=[{','.join(hx(m) for m in taps[x].delivered)}] next={nxt} buf={len(keys)}")
        # … and the process of n wormholes: both reorder buffers (numbered phases and dilate-N) of every Boss, fed in
        # the GLOBAL order in which the real Bosses were fed (interleaved across the wormholes of the process)
        lines.append("proc " + " ".join(c.side for c in cl))
        exp.append("ok")
        for x in range(n):
            lines += [f"at {x} boss got_code", f"at {x} boss happy"]
            exp += ["ok code | B=S1_lonely " + Z.format(rx=0, buf="", drx=0, dbuf="", res=0),
                    "ok | B=S2_happy " + Z.format(rx=0, buf="", drx=0, dbuf="", res=0)]
        res = [0] * n
        for x, (kind, phase, pt, st0, evs, nxt, keys, dnxt, dkeys, touched) in run.glog:
            if st0 != "S2_happy":
                continue
            res[x] += sum(1 for e in evs if e[0] == "received")
            lines.append(f"at {x} {kind} {phase} {hx(pt)}")
            ev = "; ".join(e[0] + " " + hx(e[1]) for e in evs)
            exp.append("ok" + (" " + ev if ev else "") + " | B=S2_happy " +
                       Z.format(rx=nxt, buf=",".join(str(k) for k in keys), drx=dnxt,
                                dbuf=",".join(str(k) for k in dkeys), res=res[x]) +
                       (" !touched=" + ",".join(str(j) for j in touched) if touched else ""))
            if touched:
                tags.add("e2e:touched-another-wormhole")
        nd_ = sum(len(t.delivered) for t in taps)
        tags.add("e2e:delivered=%d" % min(nd_, 16))
        nd = sum(len(t.dilated) for t in taps)
        if nd:
            tags.add("e2e:dilate-delivered=%d" % min(nd, 8))
        tags.add("e2e:wormholes-in-process=%d" % n)
        for x in range(n):
            if any(g[0] == "drx" and g[8] for g in taps[x].got_phase) and any(g[0] == "rx" for g in taps[x].got_phase):
                tags.add("e2e:dilate-parked-while-phases-arrive")
        # the new dimension: a number is parked in one buffer of the process while ANOTHER buffer's cursor stands at it
        state = {}
        for x, g in run.glog:
            state[(x, "rx")] = (g[5], list(g[6]))
            state[(x, "drx")] = (g[7], list(g[8]))
            for stream in ("rx", "drx"):
                cur = state[(x, stream)][0]
                for (j, st2), (_, ks) in state.items():
                    if (j, st2) != (x, stream) and cur in ks:
                        tags.add("e2e:cursor-at-number-parked-" + ("in-another-wormhole" if j != x else "in-the-other-stream")
                                 + (":other-pair" if j // 2 != x // 2 else ""))
        if any(t.view.behaviour_only for t in taps):
            tags.add("e2e:observe=behaviour-only")
        if case.get("cross"):
            tags.add("e2e:cross-schedule")
        if any(case.get("slow") or []):
            tags.add("e2e:slow-app" + (":eager" if any(case.get("eager") or []) else ""))
        tags.add("e2e:api=" + "/".join("deleg" if d else "defer" for d in case["deleg"][:2]))
        nrx = {}
        for ev in events:
            if ev[0] == "rx" and ev[3].isdigit():
                nrx[(ev[1], ev[2], ev[3])] = nrx.get((ev[1], ev[2], ev[3]), 0) + 1
        if any(v > 1 for v in nrx.values()):
            tags.add("e2e:phase-arrived-more-than-once")
        for x in range(n):
            order = [int(ev[3]) for ev in events if ev[0] == "rx" and ev[1] == x and ev[2] == cl[x ^ 1].side and ev[3].isdigit()]
            first = []
            for o in order:
                if o not in first:
                    first.append(o)
            if first != sorted(first):
                tags.add("e2e:arrived-out-of-order")
        for c in cl:
            for (name, *_rest) in c.internal:
                tags.add("e2e:internal:" + name)
        return Result(lines, exp, viol, sorted(tags), nontrivial=nd_ > 0)
    finally:
        run.close()


# --------------------------------------------------------------------------- entry points

REENT_EVENTS = ["welcome", "code", "key", "verifier", "versions", "message"]

MCOMP_CORPUS = [
    # wormhole 1 is handed phase 1 early and holds it; wormhole 0 then gets its phases 0 and 1, wormhole 1 its phase 0
    dict(kind="mcomp", seed=1, n=2, ops=[[0, ["boss", "got_code"]], [0, ["boss", "happy"]], [1, ["boss", "got_code"]],
                                         [1, ["boss", "happy"]], [1, ["rx", 1, "b1b1"]], [0, ["rx", 0, "a0a0"]],
                                         [0, ["rx", 1, "a1a1"]], [1, ["rx", 0, "b0b0"]], [0, ["get_message"]],
                                         [1, ["get_message"]], [0, ["turn"]], [1, ["turn"]]]),
    # … and the dilate stream of the same wormhole: dilate-1 held while the numbered phases run past 1 (and vice versa)
    dict(kind="mcomp", seed=2, n=2, ops=[[0, ["boss", "got_code"]], [0, ["boss", "happy"]], [1, ["boss", "got_code"]],
                                         [1, ["boss", "happy"]], [1, ["rx", 1, "b1b1"]], [0, ["drx", 1, "d1d1"]],
                                         [0, ["rx", 0, "a0a0"]], [0, ["rx", 1, "a1a1"]], [0, ["rx", 2, "a2a2"]],
                                         [1, ["drx", 0, "e0e0"]], [1, ["drx", 1, "e1e1"]], [1, ["rx", 0, "b0b0"]],
                                         [0, ["drx", 0, "d0d0"]]]),
    # three wormholes, the phases arrive through Boss.got_message / the Mailbox, one of them closes meanwhile
    dict(kind="mcomp", seed=3, n=3, ops=[[i, ["boss", "got_code"]] for i in range(3)] + [[i, ["boss", "happy"]] for i in range(3)] +
         [[2, ["got_message", "2", "c2c2"]], [1, ["got_message", "1", "b1b1"]], [0, ["got_message", "dilate-1", "d1d1"]],
          [0, ["got_message", "0", "a0a0"]], [0, ["got_message", "1", "a1a1"]], [1, ["boss", "close"]],
          [0, ["got_message", "2", "a2a2"]], [0, ["got_message", "3", "a3a3"]], [2, ["got_message", "0", "c0c0"]],
          [2, ["got_message", "1", "c1c1"]], [1, ["got_message", "0", "b0b0"]], [0, ["got_message", "dilate-0", "d0d0"]]]),
]


def gen_mcomp(rng):
    """several wormholes of one process, each fed numbered phases and dilate seqnums out of order, the feeding
    interleaved across the wormholes; payloads are unique per (wormhole, stream, number)"""
    n = rng.choice([2, 2, 3])
    if rng.random() < 0.3:
        # full component op sequences (honest + adversarial), interleaved
        seqs = [gen_comp(rng, adversarial=rng.random() < 0.3) for _ in range(n)]
    else:
        seqs = []
        for i in range(n):
            k, d = rng.randrange(2, 6), rng.randrange(0, 4)
            recs = [("rx", q, "%02x%02x%02x" % (0xc0 + i, 0, q)) for q in range(k)] + \
                   [("drx", q, "%02x%02x%02x" % (0xc0 + i, 1, q)) for q in range(d)]
            rng.shuffle(recs)
            if rng.random() < 0.6:
                recs.sort(key=lambda r: -r[1] if rng.random() < 0.7 else r[1])     # mostly high numbers first: they are held
            ops = [["boss", "got_code"], ["boss", "happy"]]
            for (kind, q, pt) in recs:
                r = rng.random()
                if r < 0.6:
                    ops.append([kind, q, pt])
                else:
                    ops.append(["got_message", ("%d" if kind == "rx" else "dilate-%d") % q, pt])
                if rng.random() < 0.15:
                    ops.append(list(ops[-1]))                                   # the same record again
                if rng.random() < 0.2:
                    ops.append(rng.choice([["get_message"], ["turn"], ["send", "%02x%02x" % (0xe0 + i, q)]]))
            if rng.random() < 0.15:
                ops.insert(rng.randrange(2, len(ops) + 1), ["boss", rng.choice(["close", "scared", "rx_error"])])
            seqs.append(ops)
    out = []
    while any(seqs):
        i = rng.choice([j for j in range(n) if seqs[j]])
        out.append([i, seqs[i].pop(0)])
    return dict(kind="mcomp", seed=rng.randrange(10**6), n=n, ops=out)


E2E_CORPUS = [
    # TWO wormholes of one process hold each other's numbers: B is handed A's phase 1 first (held), then A gets B's
    # phase 0 — A's cursor reaches 1 while B holds a 1 (the in-process pair of the test-suite, with a reordering server)
    cross_case(1, 2, 0, [(1, "1"), (0, "0")], [False, False]),
    cross_case(1, 2, 1, [(1, "1"), (0, "dilate-0"), (0, "0"), (0, "1"), (1, "dilate-0"), (1, "0")], [True, False]),
    # two PAIRS in one process: a number held in one pair while the cursors of the other pair pass it
    cross_case(2, 2, 1, [(3, "1"), (0, "0"), (0, "1"), (2, "dilate-0"), (1, "1"), (2, "0"), (1, "0"), (3, "0")],
               [False, True, True, False]),
    cross_case(2, 3, 2, [(0, "2"), (2, "dilate-1"), (1, "0"), (3, "0"), (1, "1"), (3, "1"), (1, "2"), (3, "2"),
                         (1, "dilate-0"), (1, "dilate-1"), (3, "dilate-0"), (3, "dilate-1")], [False, False, False, False]),
    # the peer's numbered phases overtake its `version`
    early_case(["0", "version", "1"], [False, False]),
    early_case(["1", "0", "version"], [True, True]),
    # slow applications with pipelined reads (the clock moves inside an eventual turn)
    slow_case(3, 2, 0.03, True),
    slow_case(5, 3, 0.2, True, order=[1, 0, 2, 4, 3]),
    slow_case(4, 2, 0.005, True),
    slow_case(4, 4, 0.03, False),
    # re-entrant applications: send_message() from inside a callback, then again right after it (both API styles)
    reent_case("code", [True, False]),
    reent_case("verifier", [True, True], nacts=2),
    reent_case("message", [True, False]),
    reent_case("key", [False, True]),
    reent_case("versions", [True, False], closing=True),
    # the peer's PAKE arrives corrupted (fix 6e06ee8: scared instead of an internal failure); messages queued behind it
    dict(kind="e2e", seed=5, deleg=[False, True],
         ops=[["open", 0], ["api", 0, "set_code", CODE], ["api", 0, "send", "a0"], ["settle"], ["open", 1],
              ["api", 1, "send", "b0"], ["api", 1, "set_code", CODE], ["c2s", 1], ["c2s", 1], ["s2c", 1], ["s2c", 1], ["s2c", 1],
              ["s2c", 1], ["c2s", 1], ["scare", 1, 0], ["settle"], ["api", 0, "send", "a1"], ["settle"]]),
    # phase 1 parked in B's reorder buffer, then B closes (three ways): B's application must not see it
    close_case([1, 0, 2], 1, "close", [False, False]),
    close_case([1, 2, 0], 2, "close", [False, True]),
    close_case([2, 0, 1], 1, "srverr", [False, True]),
    close_case([1, 0, 2], 1, "scare", [False, False]),
    # dilate-N phases share the mailbox with numbered phases: order to B = dilate-1, 0, 1, 2, dilate-0
    dil_case([1, 2, 3, 4, 0], [False, False]),
    dil_case([1, 0, 3, 2, 4], [True, False]),
    # two-digit dilate-N phases (a long dilated session: every reconnect costs two or three of them): in order, and with
    # dilate-10..12 overtaking dilate-0..9
    dil_case(list(range(15)), [False, False], ndil=13, nmsg=2),
    dil_case([12, 11, 10] + list(range(10)) + [13, 14], [True, False], ndil=13, nmsg=2),
    # send before code on both sides, everything in order
    dict(kind="e2e", seed=1, deleg=[False, True],
         ops=[["api", 0, "send", "a0"], ["api", 1, "send", "b0"], ["open", 0], ["open", 1],
              ["api", 0, "set_code", CODE], ["api", 0, "send", "a1"], ["api", 1, "set_code", CODE], ["settle"],
              ["api", 0, "send", "-"], ["api", 1, "send", "b1b1"], ["settle"]]),
    # B loses its connection mid-delivery and gets the whole mailbox again
    dict(kind="e2e", seed=2, deleg=[True, True],
         ops=[["open", 0], ["open", 1], ["api", 0, "set_code", CODE], ["api", 1, "set_code", CODE], ["settle"],
              ["api", 0, "send", "a0"], ["api", 0, "send", "a1"], ["api", 0, "send", "a2"], ["c2s", 0], ["c2s", 0],
              ["c2s", 0], ["swapmsg", 1, 0, 2], ["s2c", 1], ["dupmsg", 1, 0], ["drop", 1], ["open", 1], ["settle"]]),
    # A loses its connection before the echoes: re-sends, the server stores duplicates
    dict(kind="e2e", seed=3, deleg=[False, False],
         ops=[["open", 0], ["open", 1], ["api", 0, "set_code", CODE], ["api", 1, "set_code", CODE], ["settle"],
              ["api", 0, "send", "a0"], ["api", 0, "send", "a1"], ["c2s", 0], ["drop", 0], ["api", 0, "send", "a2"],
              ["open", 0], ["settle"], ["drop", 0], ["open", 0], ["settle"], ["api", 1, "get_message"]]),
    # 70 kB both ways, never connected until the end
    dict(kind="e2e", seed=4, deleg=[True, False],
         ops=[["api", 0, "set_code", CODE], ["api", 1, "set_code", CODE], ["api", 0, "send", "5a" * 70000],
              ["api", 1, "send", "a5" * 65536], ["api", 0, "send", "-"]]),
]


def cases(rng, tier):
    out = []
    out.extend(E2E_CORPUS)        # whole-client witnesses first: a violation is reported with a two-client replay
    for i, ops in enumerate(COMP_CORPUS):
        out.append(dict(kind="comp", seed=i, ops=ops))
    out.extend(MCOMP_CORPUS)
    # one record delivered far behind the others (more phases early than any plausible reorder window)
    for nfar, late, dl in ([(12, 0, True), (40, 0, True), (70, 3, False), (150, 0, True)] if tier == "quick" else
                           [(12, 0, True), (40, 0, True), (40, 7, False), (70, 3, False), (150, 0, True), (300, 1, True), (1100, 0, True)]):
        out.append(dict(kind="farahead", n=nfar, late=late, delegB=dl))
    m = 1 if tier == "quick" else 12
    for i in range(140 * m):
        out.append(dict(kind="comp", seed=rng.randrange(10**6), ops=gen_comp(rng, adversarial=(i % 3 == 2))))
    for i in range(40 * m):
        out.append(gen_mcomp(rng))
    for i in range(125 * m):
        out.append(gen_e2e(rng, tier))
    for i in range(14 * m):
        out.append(gen_e2e(rng, tier, npairs=2))       # two pairs (four wormholes) in the one process
    for i in range(1 * m):
        out.append(gen_e2e(rng, tier, npairs=3))
    for i in range(24 * m):
        out.append(gen_cross(rng))
    if tier == "thorough":
        # one pair, 2 numbered + 1 dilate each way: ALL global hand-over orders
        for seq in itertools.permutations(cross_items(1, 2, 1)):
            out.append(cross_case(1, 2, 1, list(seq), [False, True]))
    orders = list(itertools.permutations(["version", "0", "1", "2"]))
    if tier == "thorough":
        for o in orders:
            for d1 in (False, True):
                out.append(early_case(list(o), [False, d1], nmsg=3))
    else:
        for _ in range(4):
            out.append(early_case(list(rng.choice(orders)), [rng.random() < 0.5, rng.random() < 0.5], nmsg=3))
    if tier == "thorough":
        for nmsg in (3, 4, 6):
            for nget in (1, 2, 3):
                for sl in (0.005, 0.03, 0.2):
                    for eg in (False, True):
                        out.append(slow_case(nmsg, nget, sl, eg))
    else:
        for _ in range(6):
            out.append(slow_case(rng.choice([3, 4, 6]), rng.choice([1, 2, 3]), rng.choice([0.005, 0.03, 0.2]),
                                 rng.random() < 0.7, deleg0=rng.random() < 0.5))
    if tier == "thorough":
        for ev in REENT_EVENTS:
            for d0 in (True, False):
                for d1 in (True, False):
                    for na in (1, 2):
                        out.append(reent_case(ev, [d0, d1], nacts=na))
                    out.append(reent_case(ev, [d0, d1], follow=False))
                    out.append(reent_case(ev, [d0, d1], closing=True))
    else:
        for _ in range(6):
            out.append(reent_case(rng.choice(REENT_EVENTS), [rng.random() < 0.7, rng.random() < 0.5],
                                  nacts=rng.choice([1, 2])))
    perms3 = list(itertools.permutations(range(3)))
    if tier == "thorough":
        for pm in perms3:
            for k in range(4):
                for how in ("close", "srverr", "scare"):
                    for dl in (False, True):
                        out.append(close_case(list(pm), k, how, [False, dl]))
    else:
        for _ in range(8):
            out.append(close_case(list(rng.choice(perms3)), rng.randrange(4), rng.choice(["close", "srverr", "scare"]),
                                  [rng.random() < 0.5, rng.random() < 0.5]))
    perms5 = list(itertools.permutations(range(5)))
    if tier == "thorough":
        for pm in perms5:
            out.append(dil_case(list(pm), [False, True]))
    else:
        for _ in range(10):
            out.append(dil_case(list(rng.choice(perms5)), [rng.random() < 0.5, rng.random() < 0.5]))
    if tier == "thorough":
        perms = list(itertools.permutations(range(3)))
        for pi in perms:
            for k in range(4):
                for sigma in perms:
                    for who in (0, 1):
                        out.append(exh_case(list(pi), k, sigma, who, [who == 0, True]))
    else:
        perms = list(itertools.permutations(range(3)))
        for _ in range(12):
            out.append(exh_case(list(rng.choice(perms)), rng.randrange(4), rng.choice(perms), rng.randrange(2),
                                [rng.random() < 0.5, rng.random() < 0.5]))
    return out


def run_farahead(case):
    """A message that arrives `gap` or more phases EARLY (the server delays one stored record while delivering the `n - 1`
    others, or replays out of order after a re-open): whatever holds early phases back must hold them by their phase
    number, however far ahead they are.  Scripted on two real clients: the peer submits `n` numbered records, the server
    hands the receiver all of them except record `late` first, then `late`, then one more."""
    from ..worlds.mailbox import World
    from wormhole.util import bytes_to_dict
    n, late = case["n"], case.get("late", 0)
    viol = []
    with World(seed=case.get("seed", 0)) as W:
        a = W.add_client(delegated=True)
        b = W.add_client(delegated=bool(case.get("delegB", True)))
        code = "3-farahead-reorder"
        for ci in (0, 1):
            W.do(["api", ci, "set_code", code]); W.do(["open", ci])
        W.settle()
        sent = []
        for i in range(n):
            W.do(["api", 0, "send", "%04x" % i]); sent.append("%04x" % i)
        while a.conn is not None and a.conn.c2s:
            W.do(["c2s", 0])
        # b's inbound queue now holds the n records in submission order: the record of phase `late` goes last
        q = b.conn.s2c
        frames = list(q)
        held = [f for f in frames if bytes_to_dict(f).get("type") == "message" and bytes_to_dict(f).get("phase") == str(late)
                and bytes_to_dict(f).get("side") == a.side]
        rest = [f for f in frames if f not in held]
        q.clear(); q.extend(rest + held)
        if not b.delegated:
            for _ in range(n + 1):
                W.do(["api", 1, "get_message"])
        W.settle()
        W.do(["api", 0, "send", "ffff"]); sent.append("ffff")
        W.settle()
        got = [v for nm, v in b.events if nm == "message"]
        if got != sent:
            bad = next((i for i in range(min(len(got), len(sent))) if got[i] != sent[i]), min(len(got), len(sent)))
            viol.append(("e2e-prefix", f"{n} records submitted, record {late} delivered last by the server: the application received "
                         f"{len(got)} records, first difference at #{bad}: got {got[bad:bad + 3]}, sent {sent[bad:bad + 3]}"))
        for c in (a, b):
            for ent in c.internal:
                viol.append(("internal:" + ent[0], f"far-ahead delivery: internal failure {ent}"))
    return Result([], [], viol, ["farahead:n=%d" % n, "farahead:held=%d" % len(held)], bool(held))


def run_case(case):
    if case["kind"] == "farahead":
        return run_farahead(case)
    if case["kind"] == "comp":
        return run_comp(case)
    if case["kind"] == "mcomp":
        return run_mcomp(case)
    return run_e2e(case)


def search(rng, seconds, seeds):
    import time
    t0 = time.time()
    for c in seeds:
        if c.get("kind") == "e2e":
            yield c, run_case(c)
    for c in E2E_CORPUS:
        yield c, run_case(c)
    for c in MCOMP_CORPUS:
        yield c, run_case(c)
    for seq in itertools.permutations(cross_items(1, 2, 0)):
        c = cross_case(1, 2, 0, list(seq), [False, True])
        yield c, run_case(c)
    for _ in range(12):
        c = gen_cross(rng, npairs=2)
        yield c, run_case(c)
    for nmsg in (3, 5):
        for nget in (2, 3):
            for sl in (0.03, 0.2):
                c = slow_case(nmsg, nget, sl, True)
                yield c, run_case(c)
    for o in itertools.permutations(["version", "0", "1", "2"]):
        c = early_case(list(o), [False, False], nmsg=3)
        yield c, run_case(c)
    for ev in REENT_EVENTS:
        for d0 in (True, False):
            c = reent_case(ev, [d0, True])
            yield c, run_case(c)
    for pm in itertools.permutations(range(3)):
        for k in range(4):
            for how in ("close", "srverr", "scare"):
                c = close_case(list(pm), k, how, [False, True])
                yield c, run_case(c)
    for pm in itertools.permutations(range(5)):
        if time.time() - t0 > seconds:
            return
        c = dil_case(list(pm), [False, True])
        yield c, run_case(c)
    perms = list(itertools.permutations(range(3)))
    for pi in perms:
        for k in range(4):
            for sigma in perms[:3]:
                for who in (0, 1):
                    if time.time() - t0 > seconds:
                        return
                    c = exh_case(list(pi), k, sigma, who, [False, True])
                    yield c, run_case(c)
    while time.time() - t0 < seconds:
        c = gen_e2e(rng, "quick")
        yield c, run_case(c)


def shrink(case):
    if case.get("kind") not in ("e2e", "mcomp"):
        return
    ops = case["ops"]
    n = len(ops)
    step = max(n // 4, 1)
    while step >= 1:
        for i in range(0, n, step):
            c = dict(case)
            c["ops"] = ops[:i] + ops[i + step:]
            if c["ops"] != ops:
                yield c
        step //= 2
