"""C03 — mailbox messages arrive in order, exactly once, unmodified.

Three streams of cases:

* ``comp``  component-level correspondence: one REAL client built by ``wormhole.create`` in the mailbox
            World (real Boss, Send, Mailbox, Order, Receive, _DeferredWormhole, SequenceObserver,
            EventualQueue, real NaCl/HKDF); only the collaborators *outside* the modelled data path are
            recorders (RendezvousConnector.tx_*, Nameplate.release, Key.got_pake, Terminator, Dilator).
            The same op sequence goes to ``WV.C03.driver``; outputs (exception, outgoing calls, state
            digest) must agree line by line.  Real ciphertexts are mapped to/from the driver's toy sealing
            by the harness, which knows the key.
* ``e2e``   whole-client oracle: two real clients against the real mailbox-server protocol objects under a
            scheduled network (arbitrary delivery order, duplication, replay on re-open, drops anywhere,
            send_message before code / key / verification / after).  Oracle = the property sentence.  The
            observed arrival order is also replayed through the model's ``Pipe`` and reorder buffer.
* ``exh``   (thorough) exhaustive: 3 messages x all delivery orders x one drop point x all replay orders.
"""
import itertools
import os
import random

from twisted.internet import defer
from twisted.python import failure

from wormhole._key import derive_phase_key, encrypt_data, decrypt_data, CryptoError
from wormhole.errors import ServerError, WelcomeError

from .. import LOGGED
from ..core import Result
from ..util import automat_state
from ..worlds.mailbox import World

ID = "C03"
PROP_MODULES = ["WV.Props.C03"]
# translation validation of the method bodies (tools/extract.py::extract_pyir -> WV/Gen/PyIR.lean, interpreter
# WV/Model/PyIR.lean): part of the check as soon as the modules are installed (agents/deepPyIR_integration.md)
for _m in ("PyIR_C03", "PyIR_C03_Boss"):
    if os.path.exists(os.path.join(os.path.dirname(os.path.dirname(os.path.dirname(os.path.abspath(__file__)))),
                                   "lean", "WV", "Props", _m + ".lean")):
        PROP_MODULES.append("WV.Props." + _m)
TRUSTED = [
    "SecretBox / HKDF / SPAKE2 (an ideal (side, phase)-keyed AEAD interface `Crypto.Ideal` in Lean; the real "
    "primitives run in the harness and ciphertexts are mapped to the driver's toy sealing by the harness)",
    "composition: proved in Lean for the composed model `Client` (e2e_prefix_clients: two Clients + a storing / "
    "duplicating / reordering / replaying server, all schedules); that the real client IS that `Client` is what the "
    "differential runs and the whole-client oracle check",
    "Python `\\d` / int() on non-ASCII digits in phase names (outside the model; phases are produced by '%d')",
    "the mailbox server and the network are the harness World (real wormhole_mailbox_server objects + scheduler)",
    "delegate / Deferred callbacks of the application do not raise",
]
RULE = ("comp: random op sequences over the 12 driver ops on one real client (structured: honest key/pake/phase "
        "flows with duplicates, replays, reconnects; adversarial: wrong labels, corrupt bodies, illegal orders); "
        "e2e: two real clients, <= 8 messages each way, sizes 0..70 kB, schedules with reorder/dup/drop/re-open; "
        "non-trivial = at least one message delivered or one exception/ignored branch; distinct = distinct "
        "canonical output traces")

KEY = bytes(range(32))
CODE = "4-purple-sausages"


def hx(b):
    return b.hex() if b else "-"


def unhx(h):
    return b"" if h == "-" else bytes.fromhex(h)


def hs(s):
    return hx(s.encode("utf8"))


# --------------------------------------------------------------------------- toy sealing (= WV.C03.toySeal)

def toy_seal(side, phase, m):
    s = side.encode("utf8")
    p = phase.encode("utf8")
    pre = bytes([len(s) % 256]) + s + bytes([len(p) % 256]) + p + m
    return pre + bytes([sum(pre) % 251])


# --------------------------------------------------------------------------- component world

class _RC:
    def __init__(self, log):
        self.log = log

    def tx_open(self, mailbox):
        self.log.append(("open",))

    def tx_add(self, phase, body):
        self.log.append(("add", phase, body))

    def tx_close(self, mailbox, mood):
        self.log.append(("close", mood))


class _N:
    def __init__(self, log):
        self.log = log

    def release(self):
        self.log.append(("release",))


class _T:
    def __init__(self, log):
        self.log = log

    def mailbox_done(self):
        self.log.append(("mdone",))

    def close(self, mood):
        self.log.append(("tclose", mood))


class _K:
    def __init__(self, log):
        self.log = log

    def got_pake(self, body):
        self.log.append(("pake", body))


class _D:
    _manager = None

    def __init__(self, log):
        self.log = log

    def got_key(self, key):
        self.log.append(("dkey",))

    def received_dilate(self, pt):
        self.log.append(("dilate", pt))

    def got_wormhole_versions(self, v):
        self.log.append(("dversions",))


class _W:
    """forwards to the real wormhole object, recording the calls"""

    def __init__(self, real, log):
        self.real = real
        self.log = log

    def got_welcome(self, w):
        self.real.got_welcome(w)

    def got_code(self, code):
        self.log.append(("code",))
        self.real.got_code(code)

    def got_key(self, key):
        self.log.append(("key",))
        self.real.got_key(key)

    def got_verifier(self, v):
        self.log.append(("verifier",))
        self.real.got_verifier(v)

    def got_versions(self, v):
        self.log.append(("versions",))
        self.real.got_versions(v)

    def received(self, pt):
        self.log.append(("received", pt))
        self.real.received(pt)

    def closed(self, result):
        self.log.append(("closed",))
        self.real.closed(result)


class Comp:
    def __init__(self, seed):
        self.world = World(seed=seed)
        self.world.__enter__()
        c = self.world.add_client()
        self.c = c
        self.w = c.w
        b = c.boss
        self.b = b
        self.side = b._side
        self.log = []
        b._M._RC = _RC(self.log)
        b._M._N = _N(self.log)
        b._M._T = _T(self.log)
        b._O._K = _K(self.log)
        b._T = _T(self.log)
        b._D = _D(self.log)
        b._W = _W(self.w, self.log)
        self.real2model = {}
        self.spec_cache = {}
        self.ndef = 0

    def close(self):
        self.world.__exit__(None, None, None)

    # real body for a body spec, and the body the model sees
    def bodies(self, spec):
        key = tuple(spec)
        if key in self.spec_cache:
            return self.spec_cache[key]
        if spec[0] == "raw":
            real = model = unhx(spec[1])
        else:
            _, s2, p2, pth, corrupt = spec
            pt = unhx(pth)
            real = encrypt_data(derive_phase_key(KEY, s2, p2), pt)
            model = toy_seal(s2, p2, pt)
            if corrupt:
                real = real[:-1] + bytes([real[-1] ^ 0x41])
                model = model[:-1] + bytes([(model[-1] + 1) % 256])
        self.real2model[real] = model
        self.spec_cache[key] = (real, model)
        return real, model

    def model_body(self, phase, body):
        if body in self.real2model:
            return self.real2model[body]
        try:
            pt = decrypt_data(derive_phase_key(KEY, self.side, phase), body)
            m = toy_seal(self.side, phase, pt)
        except CryptoError:
            m = body
        self.real2model[body] = m
        return m

    def show_ev(self, ev):
        k = ev[0]
        if k == "add":
            return f"add {hs(ev[1])} {hx(self.model_body(ev[1], ev[2]))}"
        if k == "pake":
            return f"pake {hx(self.real2model.get(ev[1], ev[1]))}"
        if k in ("received", "dilate"):
            return f"{k} {hx(ev[1])}"
        if k == "cb":
            return f"cb {ev[1]} {ev[2]}"
        return " ".join(ev)

    def digest(self):
        b = self.b
        ro = self.w._received_observer
        return (f"B={automat_state(b)} M={automat_state(b._M)} O={automat_state(b._O)} S={automat_state(b._S)} "
                f"R={automat_state(b._R)} tx={b._next_tx_phase} rx={b._next_rx_phase} "
                f"buf=[{','.join(str(k) for k in b._rx_phases)}] drx={b._next_rx_dilate_seqnum} "
                f"dbuf=[{','.join(str(k) for k in b._rx_dilate_seqnums)}] "
                f"pend=[{','.join(hs(k) for k in b._M._pending_outbound)}] "
                f"proc=[{','.join(hs(k) for k in sorted(b._M._processed))}] "
                f"sq={len(b._S._queue)} oq={len(b._O._queue)} res={len(ro._results)} obs={len(ro._observers)}")

    def _cb(self, res, did):
        if isinstance(res, failure.Failure):
            self.log.append(("cb", str(did), "ERR"))
        else:
            self.log.append(("cb", str(did), hx(res)))
        return None

    def do(self, op):
        """-> (driver line, what the real code did)"""
        b = self.b
        k = op[0]
        del self.log[:]
        last_logged = LOGGED[-1] if LOGGED else None
        if k == "send":
            line = f"send {op[1]}"
            f = lambda: self.w.send_message(unhx(op[1]))     # through the real façade
        elif k == "boss":
            line = f"boss {op[1]}"
            name = op[1]
            if name in ("close", "closed", "happy", "scared"):
                f = lambda: getattr(b, name)()
            elif name == "error":
                f = lambda: b.error(ServerError("x"))
            elif name == "rx_error":
                f = lambda: b.rx_error("crowded", {})
            elif name == "rx_unwelcome":
                f = lambda: b.rx_unwelcome(WelcomeError("no"))
            elif name == "got_code":
                f = lambda: b.got_code(CODE)
            elif name == "got_key":
                f = lambda: b.got_key(KEY)
            else:
                f = lambda: b.got_verifier(b"v" * 32)
        elif k == "rx":
            line = f"rx {op[1]} {op[2]}"
            f = lambda: b._got_phase(op[1], unhx(op[2]))
        elif k == "drx":
            line = f"drx {op[1]} {op[2]}"
            f = lambda: b._got_dilate(op[1], unhx(op[2]))
        elif k == "got_message":
            line = f"got_message {hs(op[1])} {op[2]}"
            f = lambda: b.got_message(op[1], unhx(op[2]))
        elif k == "key":
            line = "key"
            f = lambda: b._R.got_key(KEY)
        elif k == "verified":
            line = "verified"
            f = lambda: b._S.got_verified_key(KEY)
        elif k == "mbox":
            line = "mbox " + " ".join(op[1:])
            name = op[1]
            if name == "got_mailbox":
                f = lambda: b._M.got_mailbox("mb1")
            elif name == "close":
                f = lambda: b._M.close(op[2])
            else:
                f = lambda: getattr(b._M, name)()
        elif k == "add":
            line = f"add {hs(op[1])} {op[2]}"
            f = lambda: b._M.add_message(op[1], unhx(op[2]))
        elif k == "mailbox_rx":
            side = self.side if op[1] == "@me" else op[1]
            spec = list(op[3])
            if spec[0] == "seal" and spec[1] == "@me":
                spec[1] = self.side
            real, model = self.bodies(spec)
            line = f"mailbox_rx {side} {hs(op[2])} {hx(model)}"
            f = lambda: b._M.rx_message(side, op[2], real)
        elif k == "get_message":
            line = "get_message"
            did = self.ndef
            self.ndef += 1

            def f():
                self.w.get_message().addBoth(self._cb, did)
        elif k == "turn":
            line = "turn"
            f = lambda: self.world.clock.advance(0)
        else:
            raise ValueError(op)
        try:
            f()
            head = "ok"
        except Exception as e:  # noqa
            head = type(e).__name__
        evs = [self.show_ev(e) for e in self.log]
        if LOGGED and LOGGED[-1] is not last_logged:
            fl = LOGGED[-1].get("log_failure") or LOGGED[-1].get("failure")
            if fl is not None and type(fl.value).__name__ == "_UnknownPhaseError":
                evs.append("unknown-phase")
            else:
                evs.append("logged-error")
        out = head + ((" " + "; ".join(evs)) if evs else "") + " | " + self.digest()
        return line, out


def run_comp(case):
    comp = Comp(case.get("seed", 0))
    try:
        lines = [f"new {comp.side}"]
        exp = ["ok"]
        viol = []
        tags = set()
        sent = []       # plaintexts accepted by Boss.send, in order (while the wormhole is not closing)
        for op in case["ops"]:
            line, out = comp.do(op)
            lines.append(line)
            exp.append(out)
            head = out.split(" ", 1)[0]
            tags.add("comp:" + op[0] + ("" if head == "ok" else ":" + head))
            for ev in out.split(" | ")[0].split("; "):
                w = ev.split(" ")
                if "unknown-phase" in w:
                    tags.add("comp:unknown-phase")
        # oracle on the component run: the i-th plaintext handed to W.received must be one that was supplied
        # for phase i (by `rx i`, `got_message "i"` or an intact peer message labelled i) - whatever else
        # happens (close, error, scared, reconnects) nothing may be delivered across a gap or twice
        supplied = {}
        for op in case["ops"]:
            if op[0] == "rx":
                supplied.setdefault(op[1], set()).add(op[2])
            elif op[0] == "got_message" and op[1].strip("\n").isdigit() and op[1].isascii():
                try:
                    supplied.setdefault(int(op[1]), set()).add(op[2])
                except ValueError:
                    pass
            elif op[0] == "mailbox_rx" and op[3][0] == "seal" and op[2].isdigit() and op[2].isascii():
                supplied.setdefault(int(op[2]), set()).add(op[3][3])
        got = []
        for e in exp:
            for ev in e.split(" | ")[0].split("; "):
                w = ev.split(" ")
                if "received" in w:
                    got.append(w[w.index("received") + 1])
        for i, g in enumerate(got):
            if g not in supplied.get(i, ()):
                viol.append(("comp-delivery-out-of-sequence",
                             f"the {i}-th plaintext handed to the application is {g[:16]}, which was never supplied "
                             f"for phase {i} (delivered so far: {[x[:8] for x in got[:i + 1]]})"))
                break
        nontrivial = any(" received " in e or not e.startswith("ok") for e in exp)
        return Result(lines, exp, viol, sorted(tags), nontrivial)
    finally:
        comp.close()


PEER = "bb22bb22bb"
THIRD = "cc33cc33cc"


def gen_comp(rng, adversarial):
    """one component-level op sequence"""
    ops = []
    n = rng.randrange(8, 40)
    pts = ["-", "00", "01ff", "aa" * 5, "7b7d"] + ["%02x" % i * (i + 1) for i in range(6)]
    if rng.random() < 0.15:
        pts.append("ab" * rng.choice([300, 1500, 5000]))
    # honest skeleton, then noise
    stage = ["boss got_code", "mbox connected", "mbox got_mailbox", "key", "pake", "version"]
    rng.shuffle(stage) if adversarial and rng.random() < 0.5 else None
    peer_next = 0
    peer_msgs = []   # specs of peer phase messages, replayable

    def peer_rx(phase, pt, side=PEER, label_side=None, label_phase=None, corrupt=False):
        return ["mailbox_rx", side, phase, ["seal", label_side or side, label_phase or phase, pt, corrupt]]

    for _ in range(n):
        r = rng.random()
        if stage and r < 0.35:
            s = stage.pop(0)
            if s == "pake":
                ops.append(["mailbox_rx", PEER, "pake", ["raw", "70616b652d626f6479"]])
            elif s == "version":
                m = peer_rx("version", "7b7d")
                peer_msgs.append(m)
                ops.append(m)
            else:
                ops.append(s.split(" "))
            continue
        r = rng.random()
        if r < 0.16:
            ops.append(["send", rng.choice(pts)])
        elif r < 0.36:
            # a peer phase message: next in order, or out of order, or a replay
            q = rng.random()
            if q < 0.45 or not peer_msgs:
                ph = peer_next
                peer_next += 1
            elif q < 0.6:
                ph = peer_next + rng.randrange(1, 4)
            else:
                ops.append(rng.choice(peer_msgs))
                continue
            m = peer_rx(str(ph), rng.choice(pts))
            # functional in phase: one payload per phase
            old = [x for x in peer_msgs if x[2] == str(ph)]
            if old:
                m = old[0]
            else:
                peer_msgs.append(m)
            ops.append(m)
            if ph >= peer_next:
                peer_next = max(peer_next, 0)
        elif r < 0.44:
            # echo of one of our own phases (body irrelevant)
            ops.append(["mailbox_rx", "@me", rng.choice(["0", "1", "2", "pake", "version", "7"]), ["raw", "00"]])
        elif r < 0.54:
            ops.append(["mbox", rng.choice(["lost", "connected", "connected", "lost"])])
        elif r < 0.62:
            ops.append(["get_message"])
        elif r < 0.70:
            ops.append(["turn"])
        elif r < 0.74:
            ops.append(["add", rng.choice(["pake", "version", "0", "x"]), rng.choice(["-", "0102", "ffee"])])
        elif r < 0.78:
            ops.append(["rx", rng.randrange(0, 6), rng.choice(pts)])
        elif r < 0.80:
            ops.append(["drx", rng.randrange(0, 4), rng.choice(pts)])
        elif r < 0.84:
            ops.append(["got_message", rng.choice(["0", "1", "2", "007", "12", "version", "dilate-0", "dilate-2",
                                                   "x", "", "1a", "-1", "dilate-", "dilate-x", "3\n", "dilate-1\n",
                                                   " 1", "1 ", "\n", "1\n\n"]),
                        "7b7d"])
        elif adversarial and r < 0.92:
            q = rng.random()
            ph = str(rng.randrange(0, 4))
            if q < 0.25:
                ops.append(peer_rx(ph, rng.choice(pts), corrupt=True))
            elif q < 0.45:
                ops.append(peer_rx(ph, rng.choice(pts), label_phase=str(rng.randrange(0, 4))))
            elif q < 0.6:
                ops.append(peer_rx(ph, rng.choice(pts), label_side=THIRD))
            elif q < 0.7:
                ops.append(["mailbox_rx", PEER, ph, ["seal", "@me", ph, rng.choice(pts), False]])   # reflection
            elif q < 0.8:
                ops.append(["mailbox_rx", THIRD, ph, ["seal", THIRD, ph, rng.choice(pts), False]])
            elif q < 0.9:
                ops.append(["mailbox_rx", PEER, rng.choice(["pake", "x", ""]), ["raw", rng.choice(["-", "00", "abcd"])]])
            else:
                ops.append(["verified"])
        elif adversarial and r < 0.97:
            ops.append(rng.choice([["boss", "close"], ["boss", "closed"], ["boss", "error"], ["boss", "scared"],
                                   ["boss", "happy"], ["boss", "rx_error"], ["boss", "rx_unwelcome"],
                                   ["boss", "got_verifier"], ["boss", "got_key"], ["mbox", "close", "happy"],
                                   ["mbox", "rx_closed"], ["mbox", "got_mailbox"], ["key"], ["boss", "got_code"]]))
        else:
            ops.append(["boss", "got_key"])
    if rng.random() < 0.35:
        # finish with a close / self-close while phases are parked, then the Terminator's `closed`
        gap = peer_next + 1
        tail = [peer_rx(str(gap), rng.choice(pts)), peer_rx(str(gap + 1), rng.choice(pts)),
                ["rx", gap + 3, rng.choice(pts)],
                ["boss", rng.choice(["close", "scared", "rx_error", "rx_unwelcome", "close", "error"])],
                ["boss", "closed"], ["turn"], peer_rx(str(peer_next), rng.choice(pts)), ["get_message"], ["turn"]]
        for t in tail:
            if t[0] == "mailbox_rx" and any(x[0] == "mailbox_rx" and x[2] == t[2] for x in ops):
                continue
            ops.append(t)
    return ops


COMP_CORPUS = [
    # close()/closed, error, scared with messages parked in the reorder buffer: nothing may be flushed
    [["boss", "got_code"], ["boss", "happy"], ["rx", 0, "a0"], ["rx", 2, "a2"], ["rx", 3, "a3"], ["get_message"],
     ["get_message"], ["get_message"], ["boss", "close"], ["rx", 5, "a5"], ["boss", "closed"], ["turn"], ["rx", 1, "a1"],
     ["get_message"], ["turn"]],
    [["boss", "got_code"], ["boss", "happy"], ["rx", 1, "b1"], ["boss", "scared"], ["boss", "closed"], ["rx", 0, "b0"]],
    [["boss", "got_code"], ["boss", "happy"], ["rx", 2, "c2"], ["rx", 1, "c1"], ["boss", "rx_error"], ["boss", "closed"]],
    [["boss", "got_code"], ["boss", "happy"], ["rx", 1, "d1"], ["get_message"], ["boss", "error"], ["turn"], ["rx", 0, "d0"]],
    [["boss", "got_code"], ["boss", "happy"], ["drx", 1, "e1"], ["rx", 1, "e9"], ["boss", "rx_unwelcome"],
     ["boss", "closed"], ["drx", 0, "e0"], ["rx", 0, "e8"]],
    # reorder buffer: gaps, duplicates, stale phases
    [["boss", "got_code"], ["boss", "happy"], ["rx", 2, "02"], ["rx", 0, "00"], ["rx", 0, "00"], ["rx", 3, "03"],
     ["rx", 1, "01"], ["rx", 1, "01"], ["rx", 5, "05"], ["get_message"], ["turn"], ["get_message"], ["get_message"],
     ["get_message"], ["get_message"], ["turn"], ["rx", 4, "04"], ["turn"]],
    # send before everything, drained on verification; echo dequeues; reconnect re-sends the rest
    [["send", "aa"], ["send", "-"], ["boss", "got_code"], ["send", "bb"], ["mbox", "connected"],
     ["add", "pake", "0102"], ["mbox", "got_mailbox"], ["key"],
     ["mailbox_rx", PEER, "pake", ["raw", "0707"]],
     ["mailbox_rx", PEER, "version", ["seal", PEER, "version", "7b7d", False]],
     ["send", "cc"], ["mailbox_rx", "@me", "0", ["raw", "00"]], ["mailbox_rx", "@me", "pake", ["raw", "00"]],
     ["mbox", "lost"], ["send", "dd"], ["mbox", "connected"], ["mailbox_rx", "@me", "1", ["raw", "00"]],
     ["mbox", "lost"], ["mbox", "connected"]],
    # replay of the whole mailbox after a reconnect must not re-deliver
    [["boss", "got_code"], ["mbox", "connected"], ["mbox", "got_mailbox"], ["key"],
     ["mailbox_rx", PEER, "1", ["seal", PEER, "1", "11", False]],
     ["mailbox_rx", PEER, "pake", ["raw", "0707"]],
     ["mailbox_rx", PEER, "0", ["seal", PEER, "0", "10", False]],
     ["mbox", "lost"], ["mbox", "connected"],
     ["mailbox_rx", PEER, "pake", ["raw", "0707"]],
     ["mailbox_rx", PEER, "0", ["seal", PEER, "0", "10", False]],
     ["mailbox_rx", PEER, "1", ["seal", PEER, "1", "11", False]],
     ["mailbox_rx", PEER, "2", ["seal", PEER, "2", "12", False]],
     ["get_message"], ["get_message"], ["get_message"], ["get_message"], ["turn"]],
    # tampering: wrong phase label, corrupt body -> scared
    [["boss", "got_code"], ["mbox", "connected"], ["mbox", "got_mailbox"], ["key"],
     ["mailbox_rx", PEER, "pake", ["raw", "0707"]],
     ["mailbox_rx", PEER, "0", ["seal", PEER, "0", "10", False]],
     ["mailbox_rx", PEER, "1", ["seal", PEER, "2", "12", False]],
     ["mailbox_rx", PEER, "2", ["seal", PEER, "2", "12", False]]],
    # phase-name dispatch
    [["boss", "got_code"], ["boss", "happy"]] +
    [["got_message", p, "7b7d"] for p in ["version", "0", "007", "2", "1", "dilate-1", "dilate-0", "x", "", "1a",
                                          "-1", "dilate-", "3\n", "dilate-2\n", "1\n\n", " 4", "0x1", "version\n"]],
    # illegal orders: NoTransition / AssertionError paths
    [["rx", 0, "00"], ["boss", "happy"], ["mbox", "lost"], ["mailbox_rx", PEER, "0", ["raw", "00"]],
     ["mbox", "connected"], ["mbox", "connected"], ["mbox", "got_mailbox"],
     ["mailbox_rx", PEER, "0", ["seal", PEER, "0", "10", False]],
     ["mailbox_rx", PEER, "pake", ["raw", "01"]], ["verified"], ["send", "01"], ["verified"], ["key"], ["key"],
     ["mbox", "rx_closed"], ["mbox", "close", "happy"], ["mbox", "lost"], ["send", "02"], ["mbox", "connected"],
     ["mbox", "rx_closed"], ["boss", "closed"], ["boss", "close"], ["boss", "closed"], ["get_message"], ["turn"]],
    # close while unclaimed results wait: error wins
    [["boss", "got_code"], ["boss", "happy"], ["get_message"], ["rx", 0, "aa"], ["rx", 1, "bb"], ["rx", 2, "cc"],
     ["get_message"], ["boss", "error"], ["get_message"], ["get_message"], ["turn"], ["rx", 3, "dd"], ["send", "ee"]],
]


# --------------------------------------------------------------------------- whole-client world

SIZES = [0, 1, 2, 3, 17, 100, 1000]
BIG = [4096, 65535, 65536, 70000]


def payload(rng, i, who):
    n = rng.choice(BIG) if rng.random() < 0.06 else rng.choice(SIZES)
    base = bytes([(who * 16 + i) % 256, i % 256])
    return (base * (n // 2 + 1))[:n]


def gen_e2e(rng, tier):
    """a schedule generated against a live World, so that the fault operations hit states in which they
    do something (frames queued, connection up, …); the op list replays exactly"""
    nmsg = [rng.randrange(0, 9), rng.randrange(0, 9)]
    if rng.random() < 0.3:
        nmsg[rng.randrange(2)] = 0
    deleg = [rng.random() < 0.5, rng.random() < 0.5]
    code_mode = rng.choice(["set", "set", "set", "alloc"])
    with_dilate = rng.random() < 0.5
    with_close = rng.random() < 0.35
    todo = {}
    for who in (0, 1):
        seq = [["api", who, "send", hx(payload(rng, i, who))] for i in range(nmsg[who])]
        if with_dilate:
            for j in range(rng.randrange(0, 4)):
                body = b'{"type": "%s", "n": %d}' % (rng.choice([b"please", b"connection-hints", b"reconnect"]), j)
                seq.insert(rng.randrange(0, len(seq) + 1), ["dsend", who, hx(body)])
        if code_mode == "alloc" and who == 0:
            codeop = ["api", 0, "allocate_code"]
        elif code_mode == "alloc":
            codeop = ["code_from", 1, 0]
        else:
            codeop = ["api", who, "set_code", CODE]
        pos = rng.randrange(0, len(seq) + 1) if rng.random() < 0.7 else 0
        seq.insert(pos, codeop)
        todo[who] = seq
    seed = rng.randrange(10**6)
    chaos = rng.choice([0.0, 0.3, 1.0, 2.0])
    eager = rng.choice([0.3, 1.0, 3.0])       # how eagerly the applications call the API
    ops = []
    # re-entrant applications: API calls made from inside delegate / Deferred callbacks
    script = None
    if rng.random() < 0.4:
        script = {}
        n = 0
        for who in (0, 1):
            d = {}
            for ev in ("welcome", "code", "key", "verifier", "versions", "message"):
                if rng.random() < 0.4:
                    occ = []
                    for _ in range(rng.choice([1, 1, 2])):
                        acts = []
                        for _ in range(rng.choice([1, 1, 2])):
                            n += 1
                            acts.append(["send", "5c%02x%02x" % (who, n)])
                        if with_close and rng.random() < 0.1:
                            acts.append(["close"])
                        occ.append(acts)
                    d[ev] = occ
            if d:
                script[str(who)] = d
    nfollow = 0
    slow = eagerr = None
    if rng.random() < 0.35:
        slow = [rng.choice([0.0, 0.005, 0.03, 0.2]), rng.choice([0.005, 0.03, 0.2])]
        rng.shuffle(slow)
        eagerr = [rng.random() < 0.6, rng.random() < 0.6]
    run = E2ERun(seed, deleg, script, slow, eagerr)
    try:
        for _ in range(rng.randrange(40, 260)):
            cand = []
            for who in (0, 1):
                c = run.cl[who]
                if todo[who]:
                    cand.append((eager, ["todo", who]))
                if c.conn is None:
                    if c.svc.started:
                        cand.append((1.5, ["open", who]))
                else:
                    cand.append((0.25 * chaos, ["drop", who]))
                    if c.conn.c2s:
                        cand.append((2.0, ["c2s", who]))
                    if c.conn.s2c:
                        cand.append((2.0, ["s2c", who]))
                    nm = len(run.W.msg_frames(who))
                    if nm >= 1:
                        cand.append((0.5 * chaos, ["dupmsg", who, rng.randrange(nm)]))
                    if nm >= 2:
                        cand.append((0.7 * chaos, ["swapmsg", who, rng.randrange(nm), rng.randrange(nm)]))
                if c.eq._calls:
                    cand.append((1.0, ["turn", who]))
                if not c.delegated:
                    cand.append((0.9 if slow else 0.3, ["api", who, "get_message"]))   # pipelined reads
                if with_close and not run.any_close:
                    parked = bool(_keys(getattr(c.boss, "_rx_phases", None)))
                    cand.append((0.6 if parked else 0.03, ["api", who, "close"]))
                    if c.conn is not None:
                        cand.append((0.3 if parked else 0.01, ["srverr", who]))
                        if run.W.msg_frames(who):
                            cand.append((0.2 if parked else 0.01, ["scare", who, 0]))
            cand.append((0.05, ["settle"]))
            tot = sum(w for w, _ in cand)
            x = rng.random() * tot
            for w, op in cand:
                x -= w
                if x <= 0:
                    break
            before = dict(run.reacted)
            if op[0] == "todo":
                nxt = todo[op[1]][0]
                if run.do(nxt):
                    todo[op[1]].pop(0)
                    ops.append(nxt)
                else:
                    ops.append(["s2c", op[1] ^ 1]) if run.do(["s2c", op[1] ^ 1]) else None
            else:
                run.do(op)
                ops.append(op)
            for who in (0, 1):
                # the application reacted inside a callback during this step: it may call send_message again
                # right after the triggering call returned, before any eventual turn runs
                if run.reacted[who] > before[who] and rng.random() < 0.7:
                    nfollow += 1
                    f = ["api", who, "send", "5d%02x%02x" % (who, nfollow)]
                    run.do(f)
                    ops.append(f)
    finally:
        run.close()
    for who in (0, 1):
        ops.extend(todo[who])
    case = dict(kind="e2e", seed=seed, deleg=deleg, ops=ops)
    if script:
        case["script"] = script
    if slow:
        case["slow"] = slow
        case["eager"] = eagerr
    return case


def slow_case(nmsg, nget, slow, eager, deleg0=False, order=None):
    """B (Deferred API) keeps `nget` get_message() calls outstanding, its callbacks take `slow` seconds and (eager)
    ask for the next message from inside the callback; A's `nmsg` messages all arrive before B's next eventual turn"""
    ops = [["open", 0], ["open", 1], ["api", 0, "set_code", CODE], ["api", 1, "set_code", CODE], ["settle"]]
    ops += [["api", 1, "get_message"]] * nget
    for i in range(nmsg):
        ops.append(["api", 0, "send", "%02x%02x" % (0xd0 + i, i)])
    ops += [["c2s", 0]] * nmsg
    if order:
        ops += [["swapmsg", 1, i, j] for i, j in perm_swaps(order)]
    ops += [["s2c", 1]] * nmsg
    ops += [["turn", 1]] * 3 + [["settle"]]
    return dict(kind="e2e", seed=17, deleg=[deleg0, False], ops=ops, slow=[0.0, slow], eager=[False, eager])


def reent_case(ev, deleg, nacts=1, follow=True, closing=False):
    """client 0's application calls send_message() from inside its `ev` callback and (follow) once more right after
    the call that triggered the callback has returned, before any eventual turn; everything else runs FIFO"""
    acts = [["send", "e1%02x" % i] for i in range(nacts)] + ([["close"]] if closing else [])
    script = {"0": {ev: [acts]}}
    run = E2ERun(21, deleg, script)
    ops = []

    def step(op):
        before = run.reacted[0]
        run.do(op)
        ops.append(op)
        if follow and run.reacted[0] > before:
            f = ["api", 0, "send", "f2%02x" % len(ops)]
            run.do(f)
            ops.append(f)
    try:
        for op in [["open", 0], ["open", 1], ["api", 1, "send", "b0"], ["api", 0, "send", "a0"],
                   ["api", 0, "set_code", CODE], ["api", 1, "set_code", CODE]]:
            step(op)
        for _ in range(400):
            progressed = False
            for who in (0, 1):
                c = run.cl[who]
                if c.conn is not None and c.conn.c2s:
                    step(["c2s", who]); progressed = True
                elif c.conn is not None and c.conn.s2c:
                    step(["s2c", who]); progressed = True
                elif c.eq._calls:
                    step(["turn", who]); progressed = True
            if not progressed:
                break
        step(["api", 0, "send", "a9"])
    finally:
        run.close()
    return dict(kind="e2e", seed=21, deleg=deleg, ops=ops, script=script, reent=True)


def early_case(order, deleg, nmsg=2):
    """A's numbered phases overtake A's `version` on the way to B: B stops reading once it has A's PAKE, A finishes
    the handshake and sends, then B is handed A's frames in `order` (phase names) in one go, before any eventual turn"""
    run = E2ERun(23, deleg)
    ops = []

    def step(op):
        run.do(op)
        ops.append(op)
    try:
        for op in [["open", 0], ["open", 1], ["api", 0, "set_code", CODE], ["api", 1, "set_code", CODE]]:
            step(op)
        for i in range(nmsg):
            step(["api", 0, "send", "%02x%02x" % (0xb0 + i, i)])
        for _ in range(400):
            progressed = False
            for who in (0, 1):
                c = run.cl[who]
                hold = who == 1 and automat_state(c.boss._O) == "S1_yes_pake"
                if c.conn is not None and c.conn.c2s:
                    step(["c2s", who]); progressed = True
                elif c.conn is not None and c.conn.s2c and not hold:
                    step(["s2c", who]); progressed = True
                elif c.eq._calls and not hold:
                    step(["turn", who]); progressed = True
            if not progressed:
                break
        step(["msgorder", 1, list(order)])
        if not deleg[1]:
            for _ in range(nmsg):
                step(["api", 1, "get_message"])
        n = len(run.cl[1].conn.s2c) if run.cl[1].conn else 0
        for _ in range(n):
            step(["s2c", 1])
        step(["settle"])
    finally:
        run.close()
    return dict(kind="e2e", seed=23, deleg=deleg, ops=ops, early=True)


def perm_swaps(perm):
    """swapmsg index pairs that turn the identity arrangement into `perm` (selection sort)"""
    cur = list(range(len(perm)))
    out = []
    for i in range(len(perm)):
        j = cur.index(perm[i])
        if j != i:
            out.append((i, j))
            cur[i], cur[j] = cur[j], cur[i]
    return out


def exh_case(pi, k, sigma, who_drops, deleg):
    """3 messages A->B after the key is verified; first delivery in order `pi`, connection of `who_drops`
    lost after k steps, then everything replayed in order `sigma`"""
    ops = [["open", 0], ["open", 1], ["api", 0, "set_code", CODE], ["api", 1, "set_code", CODE], ["settle"]]
    for i in range(3):
        ops.append(["api", 0, "send", "%02x%02x" % (0xa0 + i, i)])
    if who_drops == 1:
        ops += [["c2s", 0]] * 3                       # the server stores 0,1,2 and queues them to B (and the echoes to A)
        ops += [["swapmsg", 1, i, j] for i, j in perm_swaps(pi)]
        ops += [["s2c", 1]] * k
        ops += [["drop", 1], ["open", 1], ["c2s", 1], ["c2s", 1]]   # bind, open -> full replay queued
        # the replay holds pake/version from both sides and the three phases; permute the last three message frames
        ops += [["permtail", 1, list(sigma)]]
    else:
        ops += [["c2s", 0]] * k                       # the server has k of the three adds
        ops += [["drop", 0], ["open", 0], ["c2s", 0], ["c2s", 0]]   # bind, open (replay to A)
        ops += [["c2s", 0]] * 3                       # A's drain: re-adds everything not echoed
        ops += [["swapmsg", 1, i, j] for i, j in perm_swaps(pi)]
        ops += [["permtail", 1, list(sigma)]]
    return dict(kind="e2e", seed=7, deleg=deleg, ops=ops, exh=True)


def _keys(d):
    try:
        return list(d.keys())
    except Exception:
        try:
            return ["?%s" % (x[0] if isinstance(x, tuple) else x) for x in d]
        except Exception:
            return ["?"]


class _DStandIn:
    """Boss._D stand-in for the whole-client world: records what the Boss hands to the Dilator"""
    _manager = None

    def __init__(self, tap):
        self.tap = tap

    def got_key(self, key):
        pass

    def got_wormhole_versions(self, v):
        pass

    def received_dilate(self, pt):
        self.tap.dilated.append(pt)
        self.tap.order.append(("dilate", pt))


def dil_case(perm, deleg, ndil=2, nmsg=3):
    """A submits dilate-0..dilate-(ndil-1) and numbered messages 0..nmsg-1 after the key is verified; the server
    hands them to B in the order `perm` (a permutation of range(ndil + nmsg); index < ndil = dilate-index)"""
    ops = [["open", 0], ["open", 1], ["api", 0, "set_code", CODE], ["api", 1, "set_code", CODE], ["settle"]]
    for j in range(ndil):
        ops.append(["dsend", 0, hx(b'{"type": "dil", "n": %d}' % j)])
    for i in range(nmsg):
        ops.append(["api", 0, "send", "%02x%02x" % (0xa0 + i, i)])
    ops += [["c2s", 0]] * (ndil + nmsg)
    ops += [["permtail", 1, list(perm)]]
    ops += [["s2c", 1]] * (ndil + nmsg)
    return dict(kind="e2e", seed=11, deleg=deleg, ops=ops, dil=True)


def close_case(perm, k, how, deleg):
    """3 messages A->B delivered in order `perm`; after k of them B's wormhole closes (`how`: the application
    calls close(), the server sends an error, or the next message is corrupted), everything else still arrives"""
    ops = [["open", 0], ["open", 1], ["api", 0, "set_code", CODE], ["api", 1, "set_code", CODE], ["settle"]]
    ops += [["api", 1, "get_message"]] * 3
    for i in range(3):
        ops.append(["api", 0, "send", "%02x%02x" % (0xc0 + i, i)])
    ops += [["c2s", 0]] * 3
    ops += [["swapmsg", 1, i, j] for i, j in perm_swaps(perm)]
    ops += [["s2c", 1]] * k
    if how == "close":
        ops.append(["api", 1, "close"])
    elif how == "srverr":
        ops += [["srverr", 1], ["s2c", 1]]
    else:
        ops += [["scare", 1, 0], ["s2c", 1]]
    ops.append(["settle"])
    return dict(kind="e2e", seed=13, deleg=deleg, ops=ops, closing=True)


class Tap:
    """observation points on one real client (instance attributes only; nothing in /repo changes)"""

    def __init__(self, events, c, idx):
        self.c = c
        self.idx = idx
        self.delivered = []     # W.received(pt) calls
        self.dilated = []       # D.received_dilate(pt) calls
        self.order = []         # both, in call order
        self.got_phase = []     # Boss._got_phase / _got_dilate calls with what they caused and the buffers afterwards
        b = c.boss
        w = c.w
        orig_received = w.received
        orig_got_phase = b._got_phase
        orig_got_dilate = b._got_dilate
        orig_rx = b._M.rx_message
        b._D = _DStandIn(self)

        def received(pt):
            self.delivered.append(pt)
            self.order.append(("received", pt))
            return orig_received(pt)

        def wrap(kind, orig):
            def f(n, pt):
                n0 = len(self.order)
                st0 = automat_state(b)
                try:
                    return orig(n, pt)
                finally:
                    # observation only: must never raise into the real call, whatever the buffers look like
                    self.got_phase.append((kind, n, pt, st0, list(self.order[n0:]), getattr(b, "_next_rx_phase", "?"),
                                           _keys(getattr(b, "_rx_phases", None)),
                                           getattr(b, "_next_rx_dilate_seqnum", "?"),
                                           _keys(getattr(b, "_rx_dilate_seqnums", None))))
            return f

        def rx_message(side, phase, body):
            events.append(("rx", idx, side, phase))
            return orig_rx(side, phase, body)

        w.received = received
        b._got_phase = wrap("rx", orig_got_phase)
        b._got_dilate = wrap("drx", orig_got_dilate)
        b._M.rx_message = rx_message


def app_received(c):
    return [bytes.fromhex(v) if v else b"" for (n, v) in c.events if n == "message"]


def classify(recv, sent):
    """why `recv` is not a prefix of `sent`"""
    for i, m in enumerate(recv):
        if i < len(sent) and m == sent[i]:
            continue
        if m in recv[:i]:
            return "duplicate"
        if m in sent[:i]:
            return "duplicate"
        if m in sent[i + 1:]:
            j = sent.index(m, i + 1)
            return "reordered" if any(x in recv[i + 1:] for x in sent[i:j]) else "gap"
        return "altered-or-unsent"
    return "extra"


DELEGATE_EVENTS = {"wormhole_got_welcome": "welcome", "wormhole_got_code": "code",
                   "wormhole_got_unverified_key": "key", "wormhole_got_verifier": "verifier",
                   "wormhole_got_versions": "versions", "wormhole_got_message": "message",
                   "wormhole_closed": "closed"}


class ScriptDelegate:
    """A re-entrant application (Delegated API): forwards every callback to the World's recording delegate and then,
    still INSIDE the callback, performs the scripted API calls (send_message / close) for that event."""

    def __init__(self, orig, run, who):
        self._orig = orig
        self._run = run
        self._who = who

    def __getattr__(self, name):
        f = getattr(self._orig, name)
        ev = DELEGATE_EVENTS.get(name)
        if ev is None:
            return f

        def cb(*a):
            r = f(*a)
            if self._run.slow[self._who]:
                self._run.W.clock.rightNow += self._run.slow[self._who]
            self._run.react(self._who, ev)
            return r
        return cb


class E2ERun:
    def __init__(self, seed, deleg, script=None, slow=None, eager=None):
        self.W = World(seed=seed)
        self.W.__enter__()
        W = self.W
        self.deleg = deleg
        self.cl = [W.add_client(delegated=deleg[0]), W.add_client(delegated=deleg[1])]
        # what the applications do from inside their callbacks: script[str(who)][event] = [[action, …] per occurrence]
        self.script = {int(k): {e: [list(x) for x in v] for e, v in d.items()} for k, d in (script or {}).items()}
        self.reacted = {0: 0, 1: 0}        # number of scripted reactions performed so far, per client
        # applications whose callbacks take time (the clock moves while one runs) and which ask for the next message
        # from inside a callback (Deferred API: the World's Client does both; Delegated API: ScriptDelegate bumps)
        self.slow = list(slow or [0.0, 0.0])
        for who in (0, 1):
            c = self.cl[who]
            c.slow = self.slow[who]
            c.read_in_callback = bool((eager or [False, False])[who])
            if c.delegated and self.slow[who] and who not in self.script:
                c.w._delegate = ScriptDelegate(c.w._delegate, self, who)
        for who in (0, 1):
            c = self.cl[who]
            if who not in self.script:
                continue
            if c.delegated:
                c.w._delegate = ScriptDelegate(c.w._delegate, self, who)
            else:
                # Deferred API: the application reacts inside its Deferred callbacks (which run in an eventual turn)
                for ev, meth in (("welcome", c.w.get_welcome), ("code", c.w.get_code), ("key", c.w.get_unverified_key),
                                 ("verifier", c.w.get_verifier), ("versions", c.w.get_versions)):
                    d = meth()
                    d.addCallbacks(lambda r, ev=ev, who=who: self.react(who, ev), lambda f: None)
        self.events = []
        self.taps = [Tap(self.events, self.cl[0], 0), Tap(self.events, self.cl[1], 1)]
        self.sent = {0: [], 1: []}
        self.any_close = False           # some wormhole was told to close or closed itself: no completeness claim
        self.dsent = {0: [], 1: []}      # bodies submitted as dilate-0, dilate-1, … (what Manager.send_dilation_phase does)
        self.ngets = {0: 0, 1: 0}
        self.viol = []
        self.tags = set()

    def close(self):
        self.W.__exit__(None, None, None)

    def react(self, who, ev):
        """the application's scripted reaction to one callback, performed inside that callback"""
        acts = self.script.get(who, {}).get(ev)
        if not acts:
            return
        for act in acts.pop(0):
            self.reacted[who] += 1
            self.tags.add("e2e:reentrant:" + ev + ":" + act[0] + (":deleg" if self.cl[who].delegated else ":defer"))
            if act[0] == "send":
                self.do(["api", who, "send", act[1]])
            elif act[0] == "close":
                self.do(["api", who, "close"])

    def check(self, where):
        cl, sent, taps, viol = self.cl, self.sent, self.taps, self.viol
        for x in (0, 1):
            r = app_received(cl[x])
            s = sent[1 - x]
            if r != s[:len(r)]:
                why = classify(r, s)
                viol.append(("not-prefix:" + why,
                             f"{where}: client {x} received {[m.hex()[:16] for m in r]} but its peer sent "
                             f"{[m.hex()[:16] for m in s]}"))
                return False
            d = taps[x].delivered
            if d != s[:len(d)]:
                viol.append(("not-prefix:" + classify(d, s),
                             f"{where}: client {x} W.received {[m.hex()[:16] for m in d]} vs sent "
                             f"{[m.hex()[:16] for m in s]}"))
                return False
            dd = taps[x].dilated
            ds = self.dsent[1 - x]
            if dd != ds[:len(dd)]:
                viol.append(("dilate-not-prefix:" + classify(dd, ds),
                             f"{where}: client {x}'s Dilator was handed {[m.hex()[:16] for m in dd]} but its peer "
                             f"submitted dilate-0.. = {[m.hex()[:16] for m in ds]}"))
                return False
        return True

    def do(self, op):
        W, cl, sent = self.W, self.cl, self.sent
        k = op[0]
        if k == "code_from":
            code = [v for (n, v) in cl[op[2]].events if n == "code"]
            if not code:
                return False
            W.do(["api", op[1], "set_code", code[0]])
            return True
        if k == "msgorder":
            # the peer's queued `message` frames with the listed phases are handed over in the listed order
            c = cl[op[1]]
            if c.conn is None:
                return True
            from wormhole.util import bytes_to_dict
            q = c.conn.s2c
            pos = {}
            for i, fr in enumerate(q):
                m = bytes_to_dict(fr)
                if m.get("type") == "message" and m.get("side") != c.side and m.get("phase") in op[2]:
                    pos.setdefault(m["phase"], i)
            if sorted(pos) != sorted(op[2]):
                return True
            slots = sorted(pos.values())
            frames = [q[pos[ph]] for ph in op[2]]
            for i, fr in zip(slots, frames):
                q[i] = fr
            self.tags.add("e2e:msgorder")
            return True
        if k == "permtail":
            idx = W.msg_frames(op[1])
            q = cl[op[1]].conn.s2c if cl[op[1]].conn else None
            if q is None or len(idx) < len(op[2]):
                return True
            tail = idx[-len(op[2]):]
            frames = [q[i] for i in tail]
            for pos, src in zip(tail, op[2]):
                q[pos] = frames[src]
            return True
        if k == "api" and op[2] == "send":
            r = W.do(op)
            if r == "ok":
                sent[op[1]].append(unhx(op[3]))
                self.events.append(("send", op[1], len(sent[op[1]]) - 1))
            return True
        if k == "api" and op[2] == "get_message":
            if cl[op[1]].delegated:
                return True
            self.ngets[op[1]] += 1
        if k == "api" and op[2] == "close":
            self.any_close = True
            self.tags.add("e2e:close" + (":parked" if _keys(getattr(cl[op[1]].boss, "_rx_phases", None)) else ""))
        if k == "srverr":
            # the server sends an `error` frame (e.g. crowded) ahead of whatever is queued: the wormhole closes itself
            c = cl[op[1]]
            if c.conn is None:
                return True
            from wormhole.util import dict_to_bytes
            c.conn.s2c.appendleft(dict_to_bytes({"type": "error", "error": "crowded", "orig": {"type": "open"}}))
            self.any_close = True
            self.tags.add("e2e:srverr" + (":parked" if _keys(getattr(c.boss, "_rx_phases", None)) else ""))
            return True
        if k == "scare":
            # the next queued peer message is corrupted: Receive is scared, the wormhole closes itself
            r = W.do(["tamper", op[1], op[2], "flip", 5])
            if r == "ok":
                self.any_close = True
                self.tags.add("e2e:scare")
            return True
        if k == "dsend":
            # exactly what _dilation.manager.Manager.send_dilation_phase does: S.send("dilate-%d" % n, body);
            # the real Send seals it with the real key (or queues it until the key is verified)
            body = unhx(op[2])
            n = len(self.dsent[op[1]])
            self.dsent[op[1]].append(body)
            cl[op[1]].boss._S.send("dilate-%d" % n, body)
            self.tags.add("e2e:dsend")
            return True
        r = W.do(op)
        self.tags.add("e2e:" + k + (":noop" if r == "noop" else ""))
        return True


def run_e2e(case):
    lines, exp = [], []
    run = E2ERun(case["seed"], case["deleg"], case.get("script"), case.get("slow"), case.get("eager"))
    try:
        W, cl, taps, sent, viol, tags, events = run.W, run.cl, run.taps, run.sent, run.viol, run.tags, run.events
        do, check, ngets = run.do, run.check, run.ngets
        deferred_ops = []
        for op in case["ops"]:
            if not do(op):
                deferred_ops.append(op)
            if op[0] in ("s2c", "turn", "settle") and not check("during the schedule"):
                break
        if not viol:
            check("during the schedule")
        # final: reconnect, run to quiescence, claim everything
        if not viol:
            for x in (0, 1):
                W.do(["open", x])
            W.do(["settle"])
            for op in deferred_ops:
                if not do(op):
                    W.do(["settle"])
                    do(op)
            W.do(["settle"])
            for x in (0, 1):
                if not cl[x].delegated:
                    for _ in range(max(0, len(sent[1 - x]) - ngets[x])):
                        W.do(["api", x, "get_message"])
            W.do(["settle"])
            codes = [[v for (n, v) in c.events if n == "code"] for c in cl]
            shared = bool(codes[0]) and codes[0] == codes[1]      # "two wormholes that share a code"
            if run.any_close:
                shared = False      # after a close only the prefix property is claimed, not completeness
                tags.add("e2e:closed-run")
            if not shared:
                tags.add("e2e:no-shared-code")
            if check("after the final settle") and shared:
                for x in (0, 1):
                    r = app_received(cl[x])
                    if r != sent[1 - x]:
                        viol.append(("incomplete-after-settle",
                                     f"client {x} received {len(r)} of the {len(sent[1 - x])} messages its peer sent "
                                     f"(internal errors: {cl[x].internal[:2]} / {cl[1 - x].internal[:2]})"))
                        break
                if not viol:
                    for x in (0, 1):
                        if taps[x].dilated != run.dsent[1 - x]:
                            viol.append(("dilate-incomplete-after-settle",
                                         f"client {x}'s Dilator got {len(taps[x].dilated)} of the "
                                         f"{len(run.dsent[1 - x])} dilate-N messages its peer submitted"))
                            break
        # ---- the same run through the model: Pipe per direction, reorder buffer per client
        for x in (0, 1):          # receiver x, sender y
            y = 1 - x
            acts = []
            for ev in events:
                if ev[0] == "send" and ev[1] == y:
                    acts.append("s" + hx(sent[y][ev[2]]))
                elif ev[0] == "rx" and ev[1] == x and ev[2] == cl[y].side and ev[3].isdigit() and ev[3].isascii():
                    acts.append("d" + str(int(ev[3])))
            if run.any_close:
                # a closing Boss ignores what still arrives: replay only what it took while S2_happy
                acts = ["s" + hx(m) for m in sent[y]]
                acts += ["d" + str(g[1]) for g in taps[x].got_phase
                         if g[0] == "rx" and g[3] == "S2_happy" and g[1] < len(sent[y])]
            b = cl[x].boss
            lines.append("pipe " + " ".join(acts) if acts else "pipe")
            exp.append(f"received=[{','.join(hx(m) for m in taps[x].delivered)}] next={b._next_rx_phase} "
                       f"buf={len(_keys(getattr(b, '_rx_phases', None)))}")
            # replay of both reorder buffers (numbered phases and dilate-N), in the order the Boss saw them
            lines += [f"new {cl[x].side}", "boss got_code", "boss happy"]
            z = ("M=S0A O=S0_no_pake S=S0_no_key R=S0_unknown_key tx=0 rx={rx} buf=[{buf}] drx={drx} dbuf=[{dbuf}] "
                 "pend=[] proc=[] sq=0 oq=0 res={res} obs=0")
            exp += ["ok", "ok code | B=S1_lonely " + z.format(rx=0, buf="", drx=0, dbuf="", res=0),
                    "ok | B=S2_happy " + z.format(rx=0, buf="", drx=0, dbuf="", res=0)]
            res = 0
            for (kind, phase, pt, st0, evs, nxt, keys, dnxt, dkeys) in taps[x].got_phase:
                if st0 != "S2_happy":
                    continue
                res += sum(1 for e in evs if e[0] == "received")
                lines.append(f"{kind} {phase} {hx(pt)}")
                ev = "; ".join(e[0] + " " + hx(e[1]) for e in evs)
                exp.append("ok" + (" " + ev if ev else "") + " | B=S2_happy " +
                           z.format(rx=nxt, buf=",".join(str(k) for k in keys), drx=dnxt,
                                    dbuf=",".join(str(k) for k in dkeys), res=res))
        n = sum(len(t.delivered) for t in taps)
        tags.add("e2e:delivered=%d" % min(n, 16))
        nd = sum(len(t.dilated) for t in taps)
        if nd:
            tags.add("e2e:dilate-delivered=%d" % min(nd, 8))
        for x in (0, 1):
            if any(g[0] == "drx" and g[8] for g in taps[x].got_phase) and any(g[0] == "rx" for g in taps[x].got_phase):
                tags.add("e2e:dilate-parked-while-phases-arrive")
        if any(case.get("slow") or []):
            tags.add("e2e:slow-app" + (":eager" if any(case.get("eager") or []) else ""))
        tags.add("e2e:api=" + ("deleg" if case["deleg"][0] else "defer") + "/" + ("deleg" if case["deleg"][1] else "defer"))
        nrx = {}
        for ev in events:
            if ev[0] == "rx" and ev[3].isdigit():
                nrx[(ev[1], ev[2], ev[3])] = nrx.get((ev[1], ev[2], ev[3]), 0) + 1
        if any(v > 1 for v in nrx.values()):
            tags.add("e2e:phase-arrived-more-than-once")
        for x in (0, 1):
            order = [int(ev[3]) for ev in events if ev[0] == "rx" and ev[1] == x and ev[2] == cl[1 - x].side and ev[3].isdigit()]
            first = []
            for o in order:
                if o not in first:
                    first.append(o)
            if first != sorted(first):
                tags.add("e2e:arrived-out-of-order")
        for c in cl:
            for (name, _) in c.internal:
                tags.add("e2e:internal:" + name)
        return Result(lines, exp, viol, sorted(tags), nontrivial=n > 0)
    finally:
        run.close()


# --------------------------------------------------------------------------- entry points

REENT_EVENTS = ["welcome", "code", "key", "verifier", "versions", "message"]

E2E_CORPUS = [
    # the peer's numbered phases overtake its `version`
    early_case(["0", "version", "1"], [False, False]),
    early_case(["1", "0", "version"], [True, True]),
    # slow applications with pipelined reads (the clock moves inside an eventual turn)
    slow_case(3, 2, 0.03, True),
    slow_case(5, 3, 0.2, True, order=[1, 0, 2, 4, 3]),
    slow_case(4, 2, 0.005, True),
    slow_case(4, 4, 0.03, False),
    # re-entrant applications: send_message() from inside a callback, then again right after it (both API styles)
    reent_case("code", [True, False]),
    reent_case("verifier", [True, True], nacts=2),
    reent_case("message", [True, False]),
    reent_case("key", [False, True]),
    reent_case("versions", [True, False], closing=True),
    # the peer's PAKE arrives corrupted (fix 6e06ee8: scared instead of an internal failure); messages queued behind it
    dict(kind="e2e", seed=5, deleg=[False, True],
         ops=[["open", 0], ["api", 0, "set_code", CODE], ["api", 0, "send", "a0"], ["settle"], ["open", 1],
              ["api", 1, "send", "b0"], ["api", 1, "set_code", CODE], ["c2s", 1], ["c2s", 1], ["s2c", 1], ["s2c", 1], ["s2c", 1],
              ["s2c", 1], ["c2s", 1], ["scare", 1, 0], ["settle"], ["api", 0, "send", "a1"], ["settle"]]),
    # phase 1 parked in B's reorder buffer, then B closes (three ways): B's application must not see it
    close_case([1, 0, 2], 1, "close", [False, False]),
    close_case([1, 2, 0], 2, "close", [False, True]),
    close_case([2, 0, 1], 1, "srverr", [False, True]),
    close_case([1, 0, 2], 1, "scare", [False, False]),
    # dilate-N phases share the mailbox with numbered phases: order to B = dilate-1, 0, 1, 2, dilate-0
    dil_case([1, 2, 3, 4, 0], [False, False]),
    dil_case([1, 0, 3, 2, 4], [True, False]),
    # send before code on both sides, everything in order
    dict(kind="e2e", seed=1, deleg=[False, True],
         ops=[["api", 0, "send", "a0"], ["api", 1, "send", "b0"], ["open", 0], ["open", 1],
              ["api", 0, "set_code", CODE], ["api", 0, "send", "a1"], ["api", 1, "set_code", CODE], ["settle"],
              ["api", 0, "send", "-"], ["api", 1, "send", "b1b1"], ["settle"]]),
    # B loses its connection mid-delivery and gets the whole mailbox again
    dict(kind="e2e", seed=2, deleg=[True, True],
         ops=[["open", 0], ["open", 1], ["api", 0, "set_code", CODE], ["api", 1, "set_code", CODE], ["settle"],
              ["api", 0, "send", "a0"], ["api", 0, "send", "a1"], ["api", 0, "send", "a2"], ["c2s", 0], ["c2s", 0],
              ["c2s", 0], ["swapmsg", 1, 0, 2], ["s2c", 1], ["dupmsg", 1, 0], ["drop", 1], ["open", 1], ["settle"]]),
    # A loses its connection before the echoes: re-sends, the server stores duplicates
    dict(kind="e2e", seed=3, deleg=[False, False],
         ops=[["open", 0], ["open", 1], ["api", 0, "set_code", CODE], ["api", 1, "set_code", CODE], ["settle"],
              ["api", 0, "send", "a0"], ["api", 0, "send", "a1"], ["c2s", 0], ["drop", 0], ["api", 0, "send", "a2"],
              ["open", 0], ["settle"], ["drop", 0], ["open", 0], ["settle"], ["api", 1, "get_message"]]),
    # 70 kB both ways, never connected until the end
    dict(kind="e2e", seed=4, deleg=[True, False],
         ops=[["api", 0, "set_code", CODE], ["api", 1, "set_code", CODE], ["api", 0, "send", "5a" * 70000],
              ["api", 1, "send", "a5" * 65536], ["api", 0, "send", "-"]]),
]


def cases(rng, tier):
    out = []
    out.extend(E2E_CORPUS)        # whole-client witnesses first: a violation is reported with a two-client replay
    for i, ops in enumerate(COMP_CORPUS):
        out.append(dict(kind="comp", seed=i, ops=ops))
    m = 1 if tier == "quick" else 12
    for i in range(140 * m):
        out.append(dict(kind="comp", seed=rng.randrange(10**6), ops=gen_comp(rng, adversarial=(i % 3 == 2))))
    for i in range(150 * m):
        out.append(gen_e2e(rng, tier))
    orders = list(itertools.permutations(["version", "0", "1", "2"]))
    if tier == "thorough":
        for o in orders:
            for d1 in (False, True):
                out.append(early_case(list(o), [False, d1], nmsg=3))
    else:
        for _ in range(4):
            out.append(early_case(list(rng.choice(orders)), [rng.random() < 0.5, rng.random() < 0.5], nmsg=3))
    if tier == "thorough":
        for nmsg in (3, 4, 6):
            for nget in (1, 2, 3):
                for sl in (0.005, 0.03, 0.2):
                    for eg in (False, True):
                        out.append(slow_case(nmsg, nget, sl, eg))
    else:
        for _ in range(6):
            out.append(slow_case(rng.choice([3, 4, 6]), rng.choice([1, 2, 3]), rng.choice([0.005, 0.03, 0.2]),
                                 rng.random() < 0.7, deleg0=rng.random() < 0.5))
    if tier == "thorough":
        for ev in REENT_EVENTS:
            for d0 in (True, False):
                for d1 in (True, False):
                    for na in (1, 2):
                        out.append(reent_case(ev, [d0, d1], nacts=na))
                    out.append(reent_case(ev, [d0, d1], follow=False))
                    out.append(reent_case(ev, [d0, d1], closing=True))
    else:
        for _ in range(6):
            out.append(reent_case(rng.choice(REENT_EVENTS), [rng.random() < 0.7, rng.random() < 0.5],
                                  nacts=rng.choice([1, 2])))
    perms3 = list(itertools.permutations(range(3)))
    if tier == "thorough":
        for pm in perms3:
            for k in range(4):
                for how in ("close", "srverr", "scare"):
                    for dl in (False, True):
                        out.append(close_case(list(pm), k, how, [False, dl]))
    else:
        for _ in range(8):
            out.append(close_case(list(rng.choice(perms3)), rng.randrange(4), rng.choice(["close", "srverr", "scare"]),
                                  [rng.random() < 0.5, rng.random() < 0.5]))
    perms5 = list(itertools.permutations(range(5)))
    if tier == "thorough":
        for pm in perms5:
            out.append(dil_case(list(pm), [False, True]))
    else:
        for _ in range(10):
            out.append(dil_case(list(rng.choice(perms5)), [rng.random() < 0.5, rng.random() < 0.5]))
    if tier == "thorough":
        perms = list(itertools.permutations(range(3)))
        for pi in perms:
            for k in range(4):
                for sigma in perms:
                    for who in (0, 1):
                        out.append(exh_case(list(pi), k, sigma, who, [who == 0, True]))
    else:
        perms = list(itertools.permutations(range(3)))
        for _ in range(12):
            out.append(exh_case(list(rng.choice(perms)), rng.randrange(4), rng.choice(perms), rng.randrange(2),
                                [rng.random() < 0.5, rng.random() < 0.5]))
    return out


def run_case(case):
    if case["kind"] == "comp":
        return run_comp(case)
    return run_e2e(case)


def search(rng, seconds, seeds):
    import time
    t0 = time.time()
    for c in seeds:
        if c.get("kind") == "e2e":
            yield c, run_case(c)
    for c in E2E_CORPUS:
        yield c, run_case(c)
    for nmsg in (3, 5):
        for nget in (2, 3):
            for sl in (0.03, 0.2):
                c = slow_case(nmsg, nget, sl, True)
                yield c, run_case(c)
    for o in itertools.permutations(["version", "0", "1", "2"]):
        c = early_case(list(o), [False, False], nmsg=3)
        yield c, run_case(c)
    for ev in REENT_EVENTS:
        for d0 in (True, False):
            c = reent_case(ev, [d0, True])
            yield c, run_case(c)
    for pm in itertools.permutations(range(3)):
        for k in range(4):
            for how in ("close", "srverr", "scare"):
                c = close_case(list(pm), k, how, [False, True])
                yield c, run_case(c)
    for pm in itertools.permutations(range(5)):
        if time.time() - t0 > seconds:
            return
        c = dil_case(list(pm), [False, True])
        yield c, run_case(c)
    perms = list(itertools.permutations(range(3)))
    for pi in perms:
        for k in range(4):
            for sigma in perms[:3]:
                for who in (0, 1):
                    if time.time() - t0 > seconds:
                        return
                    c = exh_case(list(pi), k, sigma, who, [False, True])
                    yield c, run_case(c)
    while time.time() - t0 < seconds:
        c = gen_e2e(rng, "quick")
        yield c, run_case(c)


def shrink(case):
    if case.get("kind") != "e2e":
        return
    ops = case["ops"]
    n = len(ops)
    step = max(n // 4, 1)
    while step >= 1:
        for i in range(0, n, step):
            c = dict(case)
            c["ops"] = ops[:i] + ops[i + step:]
            if c["ops"] != ops:
                yield c
        step //= 2
