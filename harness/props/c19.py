"""C19 — codes well-formed with the promised entropy; code entry consistent.

Pure world: the real `PGPWordList`, `validate_nameplate`, `validate_code`, and a real `Boss` whose
workers are the real `Code`, `Allocator`, `Input` (+ `Helper`) wired to recording stand-ins for
Nameplate / Key / Lister / RendezvousConnector (substituted inside this process only).
`os.urandom` as seen by `_wordlist` is replaced by a scripted byte feeder for the duration of a call.

Sessions: the objects of one case live for the whole case (one `PGPWordList` per `gcseq` object, one Input/Helper/
CodeInputter per client of an `api` case, `new` = another client in the same process), and EVERY query of a session is
judged by the oracle and compared with the model's pure answer (`gc`, `gcs`, `h wc`, `rl tab` lines) — so an implementation
that remembers answers under a key that forgets part of the typed text, or that shares an iterator between objects, cannot
agree with the model.  `shrink` only proposes cases that fail when run alone in a fresh interpreter.
"""
import re
import types
from unittest import mock

from zope.interface import alsoProvides

from wormhole import _wordlist, _interfaces, timing
from wormhole._allocator import Allocator
from wormhole._boss import Boss
from wormhole._code import Code, validate_code
from wormhole._input import Input, Helper
from wormhole._nameplate import validate_nameplate
from wormhole import _rlcompleter
from wormhole._rlcompleter import CodeInputter
from twisted.internet.defer import Deferred
from wormhole._wordlist import PGPWordList
from wormhole.journal import ImmediateJournal
from wormhole import xfer_util
from twisted.internet.task import Clock
from twisted.python.failure import Failure
from zope.interface import implementer

from ..core import Result
from ..fakes import hx
from ..util import automat_state

ID = "C19"
PROP_MODULES = ["WV.Props.C19"]
TRUSTED = ["os.urandom returns independent uniform bytes (the entropy source is not tested)",
           "Python `re`/`str` semantics of the two known nameplate regexes and of `\\d` (= str.isdecimal(), Unicode Nd): "
           "modelled; the generated Nd range table is compared with `re` over all 0x110000 code points on every run",
           "Nameplate / Key / Lister / RendezvousConnector behind Code, Allocator and Input are recording stand-ins "
           "(their own behaviour belongs to C08/C09/C14)",
           "_rlcompleter: readline and blockingCallFromThread are replaced by synchronous calls in the reactor thread; the one "
           "call that really blocks (when_wordlist_is_available after the commit) is resolved by delivering got_wordlist meanwhile"]
RULE = ("all 256x2 byte->word lookups through the real choose_words under a scripted os.urandom; choose_words for "
        "lengths 0..20; validate_nameplate/validate_code on a corpus of boundary strings (trailing newline, tabs, "
        "non-ASCII digits, empty) and random mutations of well-formed codes; get_completions on prefixes of 0-4 words "
        "with partial words, stray hyphens, upper case and non-ASCII; API histories over Boss.allocate_code/set_code/"
        "input_code, Allocator connected/lost/rx_allocated, Input got_nameplates/got_wordlist and all Helper calls in "
        "legal and illegal orders; readline edit histories on the real CodeInputter (TAB/Return on lines whose nameplate is "
        "extended, shortened, replaced or kept after it was committed); edit SESSIONS on one wordlist object, one Input/Helper "
        "and one CodeInputter: ask, go back and change an earlier word (same last partial word, same number of hyphens, at "
        "word positions 1-4), retype the last letters, change only the case / the expected number of words, return to an "
        "earlier line, ask again — every answer of the session is judged by the oracle and compared with the model's pure "
        "answer; several clients (fresh Boss/Input/CodeInputter, `new`) in one case typing the same words under different "
        "nameplates; allocation sessions with odd and even lengths on several wordlist objects and several clients in one "
        "case; non-trivial = every case (each reaches a modelled branch); distinct = distinct "
        "canonical output traces")

ODD = [_wordlist.byte_to_odd_word[bytes([i])].lower() for i in range(256)]
EVEN = [_wordlist.byte_to_even_word[bytes([i])].lower() for i in range(256)]


def hs(s):
    return hx(s.encode("utf8"))


def hl(strs):
    strs = sorted(strs)
    return ",".join(hs(s) for s in strs) if strs else "."


class Feeder:
    """what `_wordlist.os.urandom` is during a scripted call"""

    def __init__(self, data):
        self.data = list(data)
        self.used = 0

    def urandom(self, n):
        out = []
        for _ in range(n):
            # beyond the script: keep answering (deterministically) so that an over-consuming
            # implementation shows up in the oracle, not as a harness error
            out.append(self.data[self.used] if self.used < len(self.data) else (self.used * 37 + 11) % 256)
            self.used += 1
        return bytes(out)


def with_urandom(data, f):
    fd = Feeder(data)
    shim = types.SimpleNamespace(urandom=fd.urandom)
    with mock.patch.object(_wordlist, "os", shim):
        r = f()
    return r, fd


def _catch(f):
    try:
        return f()
    except Exception as e:
        return type(e).__name__


def _call(f, *a):
    """call for effect: "ok" or the exception class name (Automat inputs return lists we do not compare)"""
    try:
        f(*a)
        return "ok"
    except Exception as e:
        return type(e).__name__


# ---------------------------------------------------------------------------
# the property, stated independently of the model

def malformed_nameplate(np):
    """'non-numeric nameplate': empty, or some character that is not a decimal digit"""
    return np == "" or not all(ch.isdecimal() for ch in np)


def malformed_code(code):
    return " " in code or malformed_nameplate(code.split("-")[0])


def expected_completions(pfx, num_words):
    """every word the peer's choose_words could put at this position and that extends what was typed"""
    count = pfx.count("-")
    lst = ODD if count % 2 == 0 else EVEN
    last = pfx.rsplit("-", 1)[-1]
    stem = pfx[:len(pfx) - len(last)]
    tail = "-" if count + 1 < num_words else ""
    return {stem + w + tail for w in lst if w.startswith(last)}


def completion_violations(pfx, num_words, got):
    viol = []
    exp = expected_completions(pfx, num_words)
    for c in sorted(got):
        if not c.startswith(pfx):
            viol.append(("completion-not-extending", f"get_completions({pfx!r},{num_words}) offers {c!r}"))
            break
    bad = sorted(set(got) - exp)
    if bad and not viol:
        viol.append(("completion-unacceptable",
                     f"get_completions({pfx!r},{num_words}) offers {bad[0]!r}: not a word choose_words can produce at this position"))
    miss = sorted(exp - set(got))
    if miss:
        viol.append(("completion-missing", f"get_completions({pfx!r},{num_words}) does not offer {miss[0]!r}"))
    return viol


def words_violations(n, data, fd, words):
    """`words` = choose_words(n) when urandom yields `data`"""
    viol = []
    if fd.used != n:
        viol.append(("entropy-count", f"choose_words({n}) drew {fd.used} random bytes"))
    want = "-".join((ODD if i % 2 == 0 else EVEN)[data[i]] for i in range(n))
    if words != want:
        viol.append(("words-shape", f"choose_words({n}) with bytes {list(data[:n])} = {words!r}, expected {want!r}"))
    return viol


# ---------------------------------------------------------------------------
# cases

NAMEPLATES = ["4", "42", "007", "0", "", "4\n", "\n4", "4\n\n", "4 ", " 4", "4\t", "\t4", "4\r", "4\r\n", "4a", "a",
              "a4", "4.0", "+4", "-4", "4_2", "٣", "４", "²", "①", "\U0001d7dc", "٤٢",
              "4٣", "٣\n", "4\x00", "4 ", "4\u0085", "4\x0b", "4\x0c", "१२", "12345678901234567890",
              "4\n5", "４２", "٤٢\n", "4\n\r", "x\n"]
WORDS_TAILS = ["", "-", "-purple-sausages", "-purple sausages", "-purple\tsausages", " -purple-sausages", "-purple-sausages ",
               "-purple-sausages\n", "--", "-a-b-c-d", "- ", "-é", "- x", "purple"]


def rand_word(rng, parity):
    return rng.choice(ODD if parity % 2 == 0 else EVEN)


def rand_prefix(rng):
    nwords = rng.choice([0, 0, 1, 1, 2, 3, 4])
    parts = []
    for i in range(nwords):
        r = rng.random()
        if r < 0.75:
            parts.append(rand_word(rng, i))
        elif r < 0.85:
            parts.append(rand_word(rng, i + 1))
        elif r < 0.9:
            parts.append(rand_word(rng, i).upper())
        else:
            parts.append(rng.choice(["", "zzz", "4", "é", "a b", "名"]))
    i = len(parts)
    r = rng.random()
    w = rand_word(rng, i)
    if r < 0.2:
        last = ""
    elif r < 0.7:
        last = w[:rng.randrange(1, len(w) + 1)]
    elif r < 0.8:
        last = w[:rng.randrange(1, 4)].upper()
    elif r < 0.9:
        last = rng.choice(["a", "b", "c", "s", "t", "u", "y", "z", "w"])
    else:
        last = rng.choice(["zz", "é", " ", "a ", "ß", "名", "x" * 30, "A"])
    parts.append(last)
    p = "-".join(parts)
    if rng.random() < 0.08:
        p = "-" + p
    if rng.random() < 0.08:
        p = p + "-"
    return p


def rand_code(rng):
    np = rng.choice(NAMEPLATES) if rng.random() < 0.5 else str(rng.randrange(1000))
    if rng.random() < 0.6:
        tail = "-" + "-".join(rand_word(rng, i) for i in range(rng.choice([1, 2, 2, 3])))
        if rng.random() < 0.3:
            i = rng.randrange(len(tail))
            tail = tail[:i] + rng.choice([" ", "\t", "\n", "-", " ", "　", "X"]) + tail[i:]
    else:
        tail = rng.choice(WORDS_TAILS)
    return np + tail


def rand_np_list(rng):
    n = rng.choice([0, 1, 2, 3, 5])
    return sorted({rng.choice(["1", "2", "12", "13", "123", "4", "40", "41", "7", "99", "", "x", "1-", "٣"]) for _ in range(n)})


def rand_bytes(rng, n):
    return [rng.choice([0, 1, 127, 128, 254, 255]) if rng.random() < 0.3 else rng.randrange(256) for _ in range(n)]


HELPER_OPS = ["refresh", "npc", "choosenp", "wc", "choosewords", "wwa"]


def rand_helper_op(rng):
    k = rng.choice(HELPER_OPS)
    if k == "npc":
        return ["h", "npc", rng.choice(["", "1", "12", "4", "x", "9", "٣"])]
    if k == "choosenp":
        return ["h", "choosenp", rng.choice(NAMEPLATES) if rng.random() < 0.4 else str(rng.randrange(200))]
    if k == "wc":
        return ["h", "wc", rand_prefix(rng)]
    if k == "choosewords":
        r = rng.random()
        if r < 0.6:
            return ["h", "choosewords", "-".join(rand_word(rng, i) for i in range(rng.choice([1, 2, 2, 3])))]
        return ["h", "choosewords", rng.choice(["", "a b", "-", "purple-sausages ", "x"])]
    return ["h", k]


def legal_api(rng):
    """a legal history along one of the three routes, with a few extra calls mixed in"""
    route = rng.choice(["alloc", "set", "input"])
    ops = []
    if route == "alloc":
        n = rng.choice([0, 1, 2, 2, 2, 3, 4, 7])
        pre = rng.random() < 0.5
        if pre:
            ops.append(["connected"])
        if rng.random() < 0.2:
            ops += [["lost"], ["connected"]] if pre else []
        ops.append(["alloc", n])
        if not pre:
            ops.append(["connected"])
        if rng.random() < 0.3:
            ops += [["lost"], ["connected"]]
        ops.append(["rxalloc", str(rng.randrange(1, 500)), rand_bytes(rng, n)])
        if rng.random() < 0.5:
            ops.append(rng.choice([["lost"], ["connected"]]))
    elif route == "set":
        ops.append(["set", str(rng.randrange(1, 500)) + "-" + "-".join(rand_word(rng, i) for i in range(rng.choice([1, 2, 2, 3])))])
    else:
        ops.append(["input"])
        nps = rand_np_list(rng)
        if rng.random() < 0.8:
            ops.append(["gotnp", nps])
        if rng.random() < 0.5:
            ops.append(["h", "npc", rng.choice(["", "1", "4"])])
        if rng.random() < 0.3:
            ops.append(["h", "refresh"])
        if rng.random() < 0.3:
            ops.append(["h", "wwa"])
        np = rng.choice([n for n in nps if not malformed_nameplate(n)] or ["5"])
        ops.append(["h", "choosenp", np])
        if rng.random() < 0.4:
            ops.append(["h", "wc", rand_prefix(rng)])
        if rng.random() < 0.85:
            ops.append(["gotwl"])
        k = rng.choice([1, 2, 2, 3])
        ws = [rand_word(rng, i) for i in range(k)]
        typed = ""
        for i, w in enumerate(ws):
            q = typed + w[:rng.randrange(0, len(w) + 1)]
            ops.append(["h", "wc", q])
            if rng.random() < 0.5:
                ops.append(["h", "wc", case_variant(rng, typed + w[:rng.randrange(1, len(w) + 1)])])
            typed += w + "-"
        ops.append(["h", "choosewords", "-".join(ws)])
    # sprinkle extra (mostly illegal) calls
    for _ in range(rng.choice([0, 0, 1, 2, 4])):
        pos = rng.randrange(len(ops) + 1)
        ops.insert(pos, rand_op(rng))
    return ops


def rand_op(rng):
    r = rng.random()
    if r < 0.12:
        return ["alloc", rng.choice([0, 1, 2, 3])]
    if r < 0.3:
        return ["set", rand_code(rng)]
    if r < 0.4:
        return ["input"]
    if r < 0.48:
        return rng.choice([["connected"], ["lost"]])
    if r < 0.55:
        n = rng.choice([0, 1, 2, 3])
        return ["rxalloc", rng.choice(["1", "77", "", "x y", "4\n"]), rand_bytes(rng, 3)]
    if r < 0.62:
        return ["gotnp", rand_np_list(rng)]
    if r < 0.7:
        return ["gotwl"]
    return rand_helper_op(rng)


RL_NPS = ["12", "123", "4", "47", "7", "9", "124"]


def case_variant(rng, text):
    """the same keys with shift / caps-lock / a keyboard's auto-capitalisation in play, plus a few non-ASCII
    characters whose lower() is an ASCII letter or longer than one character"""
    r = rng.random()
    if r < 0.25:
        return text.upper()
    if r < 0.45:
        return "-".join(w[:1].upper() + w[1:] for w in text.split("-"))
    if r < 0.8:
        cs = list(text)
        idx = [i for i, ch in enumerate(cs) if ch.isalpha()]
        for i in rng.sample(idx, min(len(idx), rng.choice([1, 1, 2, 3]))):
            cs[i] = cs[i].upper()
        return "".join(cs)
    sub = {"k": "\u212a", "i": "\u0130", "s": "\u017f", "a": "\u00c0", "e": "\u00c9"}
    cs = list(text)
    idx = [i for i, ch in enumerate(cs) if ch in sub]
    for i in rng.sample(idx, min(len(idx), 1)):
        cs[i] = sub[cs[i]]
    return "".join(cs)


def rl_history(rng):
    """an edit history at the readline prompt: type, TAB, commit with '-', go back and change the nameplate
    (to an extension of the committed one, to a different one, to a shorter one, or not at all), TAB, Return"""
    listed = sorted(set(rng.sample(RL_NPS, rng.randrange(0, 5))))
    a = rng.choice(listed or RL_NPS)
    ops = [["input"]]
    if rng.random() < 0.85:
        ops.append(["gotnp", listed])
    if rng.random() < 0.6:
        ops.append(["rl", "tab", a[:rng.randrange(0, len(a) + 1)]])
    if rng.random() < 0.3:
        ops.append(["rl", "tab", a])
    w1, w2 = rand_word(rng, 0), rand_word(rng, 1)
    how = rng.choice(["hyphen", "partial", "partial", "none"])
    if how == "hyphen":
        ops.append(["rl", "tab", a + "-"])
    elif how == "partial":
        ops.append(["rl", "tab", a + "-" + w1[:rng.randrange(1, 4)]])
    # the edit
    r = rng.random()
    if r < 0.35:
        b_ = a
    elif r < 0.6:
        b_ = a + rng.choice("0123456789")                 # extension of the committed nameplate (12 -> 123)
    elif r < 0.7:
        b_ = a[:-1]                                       # shorter (possibly empty)
    elif r < 0.8:
        b_ = rng.choice("0123456789") + a                 # committed one is a suffix
    else:
        b_ = rng.choice([n for n in RL_NPS if n != a] + ["x", "1 2", "", "٣"])
    for _ in range(rng.choice([0, 1, 1, 2])):
        form = rng.random()
        if form < 0.15:
            ops.append(["rl", "tab", b_])                                  # hyphen deleted
        elif form < 0.45:
            ops.append(["rl", "tab", b_ + "-" + w1[:rng.randrange(0, len(w1) + 1)]])
        elif form < 0.8:
            ops.append(["rl", "tab", b_ + "-" + w1 + "-" + w2[:rng.randrange(0, len(w2) + 1)]])
        else:
            ops.append(["rl", "tab", b_ + "-" + rand_prefix(rng)])
        if rng.random() < 0.4:
            typed_words = rng.choice([w1[:rng.randrange(1, len(w1) + 1)], w1 + "-" + w2[:rng.randrange(1, len(w2) + 1)]])
            ops.append(["rl", "tab", b_ + "-" + case_variant(rng, typed_words)])
        if rng.random() < 0.15:
            ops.append(rng.choice([["gotwl"], ["gotnp", listed], ["h", "wwa"], ["h", "wc", "a"]]))
    fin = rng.random()
    c_ = b_ if fin < 0.7 else a
    if fin < 0.9:
        ops.append(["rl", "finish", c_ + "-" + w1 + "-" + w2])
    elif fin < 0.95:
        ops.append(["rl", "finish", c_])
    else:
        ops.append(["rl", "finish", c_ + "-" + rng.choice(["", "x", "has space", w1])])
    if rng.random() < 0.2:
        ops.append(rng.choice([["rl", "finish", a + "-" + w1 + "-" + w2], ["rl", "tab", a + "-"], ["set", "4-a"]]))
    return ops


def other_word(rng, parity, like=None, same_len=False):
    lst = ODD if parity % 2 == 0 else EVEN
    if same_len and like is not None:
        c = [w for w in lst if len(w) == len(like) and w != like]
        if c:
            return rng.choice(c)
    return rng.choice([w for w in lst if w != like])


def edit_session(rng, raw=True, k=None):
    """one interactive session on ONE wordlist object: ask, go back and change something EARLIER on the line (or the
    letters / the case of the last word, or the expected number of words), ask again.  Returns the queries
    [text, num_words] and the names of the edits made."""
    if k is None:
        k = rng.choice([1, 1, 2, 2, 3, 4])
    ws = [rand_word(rng, i) for i in range(k)]
    target = rand_word(rng, k)
    q = target[:rng.choice([0, 1, 2, 2, 3, len(target)])]
    nw = rng.choice([2, 2, k + 1, k + 2, k]) if raw else 2
    states = [(list(ws), q, nw)]
    qs = [["-".join(ws + [q]), nw]]
    edits = []
    for step in range(rng.choice([1, 2, 2, 3, 4, 6])):
        ws, q, nw = list(states[-1][0]), states[-1][1], states[-1][2]
        r = rng.random()
        if step == 0 and rng.random() < 0.6:
            r = 0.0
        if r < 0.5 and ws:          # an earlier word replaced: same last partial word, same number of hyphens
            j = rng.randrange(len(ws))
            rr = rng.random()
            if rr < 0.45:
                ws[j] = other_word(rng, j, ws[j], same_len=True)      # … and the same length of the line
                edits.append("earlier-word-same-length")
            elif rr < 0.8:
                ws[j] = other_word(rng, j, ws[j])
                edits.append("earlier-word")
            elif rr < 0.9:
                ws[j] = other_word(rng, j + 1, ws[j])                 # a word of the other list
                edits.append("earlier-word-wrong-list")
            else:
                ws[j] = rng.choice(["", "zzz", ws[j].upper(), ws[j][:-1], "é"])
                edits.append("earlier-word-junk")
        elif r < 0.65:              # the last letters retyped
            t2 = other_word(rng, len(ws), target)
            q = t2[:len(q)] if rng.random() < 0.7 else t2[:rng.randrange(0, len(t2) + 1)]
            edits.append("retype-last")
        elif r < 0.75:              # back to an earlier line
            ws, q, nw = rng.choice(states)
            ws = list(ws)
            edits.append("back")
        elif r < 0.83 and raw:
            nw = rng.choice([n for n in [1, 2, 3, 4, 5] if n != nw])
            edits.append("num-words")
        elif r < 0.9:               # the same keys with shift/caps-lock in play: asked once, the line stays
            qs.append([case_variant(rng, "-".join(ws + [q])), nw])
            edits.append("case")
            continue
        else:                       # the same partial word at another position
            if ws and rng.random() < 0.5:
                ws = ws[1:]
            else:
                ws = [rand_word(rng, 0)] + ws
            edits.append("shift-position")
        states.append((ws, q, nw))
        qs.append(["-".join(ws + [q]), nw])
    if rng.random() < 0.5:
        qs.append(list(qs[0]))      # and finally the first line again
        edits.append("back")
    return qs, edits


def earlier_word_session(k, j, q, nw, variant=0, same_len=False):
    """the smallest session of the family: the line, the line with word j replaced (by a word of the same length if
    `same_len`: the line keeps its length), the line again"""
    ws = [(ODD if i % 2 == 0 else EVEN)[(17 * i + 11 + variant) % 256] for i in range(k)]
    ws2 = list(ws)
    lst = ODD if j % 2 == 0 else EVEN
    ws2[j] = lst[(17 * j + 12 + 5 * variant) % 256]
    if same_len:
        ws2[j] = [w for w in lst[(17 * j + 12 + 5 * variant) % 256:] + lst if len(w) == len(ws[j]) and w != ws[j]][0]
    a, b_ = "-".join(ws + [q]), "-".join(ws2 + [q])
    return [[a, nw], [b_, nw], [a, nw]]


def complete_text(text):
    """the line with its last partial word completed (if anything completes it)"""
    count = text.count("-")
    last = text.rsplit("-", 1)[-1]
    for w in (ODD if count % 2 == 0 else EVEN):
        if w.startswith(last):
            return text[:len(text) - len(last)] + w
    return text


def input_session_ops(rng, front, np, qs, listed=None):
    """the queries `qs` typed by one user into one Input: through the Helper, or at the readline prompt"""
    ops = [["input"]]
    if listed is not None:
        ops.append(["gotnp", listed])
    final = complete_text(qs[-1][0])
    if front == "helper":
        ops.append(["h", "choosenp", np])
        late = rng.random() < 0.2          # the first TAB comes before the claim response
        if not late:
            ops.append(["gotwl"])
        for i, (t, _) in enumerate(qs):
            ops.append(["h", "wc", t])
            if late and i == 0:
                ops.append(["gotwl"])
        ops.append(["h", "choosewords", final])
    else:
        if rng.random() < 0.5:
            ops.append(["rl", "tab", np + "-"])
        for t, _ in qs:
            ops.append(["rl", "tab", np + "-" + t])
        ops.append(["rl", "finish", np + "-" + final])
    return ops


def input_edit_session(rng):
    qs, edits = edit_session(rng, raw=False)
    np = str(rng.randrange(1, 200))
    listed = sorted({np, str(rng.randrange(1, 200))}) if rng.random() < 0.7 else None
    return input_session_ops(rng, rng.choice(["helper", "rl"]), np, qs, listed)


def multi_client_sessions(rng):
    """several clients in ONE process (a GUI, a daemon, a test-suite): each with its own Boss, Input, wordlist and
    CodeInputter; more often than not the users type the same words under different nameplates"""
    ops = []
    shared, _ = edit_session(rng, raw=False)
    nps = rng.sample(["4", "12", "7", "41", "123", "9", "30"], 3)
    for i in range(rng.choice([2, 2, 3])):
        if i:
            ops.append(["new"])
        r = rng.random()
        if r < 0.6:
            qs = shared if rng.random() < 0.5 else shared[:rng.randrange(1, len(shared) + 1)]
        elif r < 0.85:
            qs, _ = edit_session(rng, raw=False)
        else:
            n = rng.choice([1, 2, 3])
            ops += [["alloc", n], ["connected"], ["rxalloc", nps[i], rand_bytes(rng, n)]]
            continue
        ops += input_session_ops(rng, rng.choice(["helper", "rl"]), nps[i], qs)
    return ops


def alloc_sessions(rng):
    """several allocations, odd and even lengths mixed, one client after the other in one process"""
    lens = [rng.choice([1, 3, 5]), rng.choice([2, 4]), rng.choice([1, 3]), 2] + [rng.choice([0, 1, 2, 3, 4, 5]) for _ in range(rng.randrange(0, 4))]
    rng.shuffle(lens)
    ops = []
    for i, n in enumerate(lens):
        if i:
            ops.append(["new"])
        pre = rng.random() < 0.5
        if pre:
            ops.append(["connected"])
        ops.append(["alloc", n])
        if not pre:
            ops.append(["connected"])
        ops.append(["rxalloc", str(rng.randrange(1, 500)), rand_bytes(rng, n)])
    return ops


def cw_session(rng):
    """choose_words calls of odd and even lengths on several wordlist objects, interleaved"""
    nobj = rng.choice([1, 2, 3])
    lens = [rng.choice([1, 3, 5, 7]), rng.choice([2, 4]), rng.choice([1, 3]), 2, 1] + [rng.choice([0, 1, 2, 3, 4, 6]) for _ in range(rng.randrange(0, 5))]
    rng.shuffle(lens)
    return dict(kind="cwseq", nobj=nobj, calls=[[rng.randrange(nobj), n, rand_bytes(rng, n)] for n in lens])


def gc_edit_case(rng):
    qs, edits = edit_session(rng, raw=True)
    if rng.random() < 0.25:
        # a second object with a session of its own, interleaved
        qs2, e2 = edit_session(rng, raw=True)
        if rng.random() < 0.5:
            qs2 = [list(q) for q in qs]       # the same lines in another order
            rng.shuffle(qs2)
        mixed = [q + [0] for q in qs] + [q + [1] for q in qs2]
        order = sorted(range(len(mixed)), key=lambda i: (rng.random(), i))
        # keep each object's own order
        it = {0: iter([m for m in mixed if m[2] == 0]), 1: iter([m for m in mixed if m[2] == 1])}
        out = [next(it[mixed[i][2]]) for i in order]
        return dict(kind="gcseq", queries=out, edits=sorted(set(edits + e2)) + ["two-objects"])
    return dict(kind="gcseq", queries=qs, edits=sorted(set(edits)))


def cases(rng, tier):
    k = 1 if tier == "quick" else 30
    out = [dict(kind="tables"), dict(kind="nd")]
    # corpus -----------------------------------------------------------------
    # (the cases in which several queries / several clients / several allocations share one process come first: each is
    # self-contained, so when an implementation keeps state that outlives its objects the first failing case replays alone)
    # sessions that go back and edit an EARLIER word: every word position 1-4, every earlier word, three partial words;
    # through the raw wordlist (two values of num_words), the Helper and the readline front-end
    import random as _random
    crng = _random.Random(19)        # fixed: the corpus does not depend on VERIF_SEED
    for kk in (1, 2, 3, 4):
        for j in range(kk):
            for q in ("", "b", "ba"):
                for nw in (2, kk + 1):
                    out.append(dict(kind="gcseq", queries=earlier_word_session(kk, j, q, nw), edits=["earlier-word"]))
                out.append(dict(kind="gcseq", queries=earlier_word_session(kk, j, q, 2, variant=2, same_len=True),
                                edits=["earlier-word-same-length"]))
                qs = earlier_word_session(kk, j, q, 2, variant=1, same_len=(j % 2 == 1))
                for front in ("helper", "rl"):
                    out.append(dict(kind="api", ops=input_session_ops(crng, front, "4", qs, ["4", "41"])))
    corpus_sessions = [
        # the seeded session and its neighbours: typo in the first word, fixed after asking for the second
        [["armistice-ba", 2], ["article-ba", 2], ["armistice-ba", 2], ["article-baboon-ar", 3], ["article-banjo-ar", 3]],
        # same length of the line, other letters; same line, other num_words; same last word at another position
        [["ar", 2], ["ba", 2], ["ar", 3], ["ar", 1], ["armistice-ar", 2], ["x-ar", 2], ["ar", 2]],
        [["armistice-ba", 2], ["armistice-be", 2], ["armistice-ba", 2], ["Armistice-ba", 2], ["armistice-BA", 2], ["armistice-ba", 2]],
        [["", 2], ["", 1], ["-", 2], ["-", 3], ["", 2], ["--", 3], ["a--", 3], ["b--", 3]],
    ]
    for qs in corpus_sessions:
        out.append(dict(kind="gcseq", queries=qs, edits=["corpus"]))
        out.append(dict(kind="gcseq", queries=[q + [i % 2] for i, q in enumerate(qs + qs)], edits=["corpus", "two-objects"]))
    corpus_multi = [
        # two users, one process: the same words under different nameplates (helper, then readline)
        [["input"], ["h", "choosenp", "4"], ["gotwl"], ["h", "wc", "armistice-ba"], ["h", "wc", "article-ba"],
         ["h", "choosewords", "article-banjo"], ["new"],
         ["input"], ["gotnp", ["12", "4"]], ["rl", "tab", "12-"], ["rl", "tab", "12-armistice-ba"], ["rl", "tab", "12-article-ba"],
         ["rl", "tab", "12-armistice-ba"], ["rl", "finish", "12-article-banjo"], ["new"],
         ["input"], ["rl", "tab", "7-armistice-ba"], ["rl", "tab", "7-article-ba"], ["rl", "finish", "7-armistice-baboon"]],
        # the demo of the seed: 4-ar, 4-armistice-ba, 4-article-ba, Return on the offered 4-article-banjo
        [["input"], ["gotnp", ["4", "41"]], ["rl", "tab", "4"], ["rl", "tab", "4-"], ["rl", "tab", "4-ar"],
         ["rl", "tab", "4-armistice-ba"], ["rl", "tab", "4-article-ba"], ["rl", "finish", "4-article-banjo"]],
        [["input"], ["gotnp", ["4", "41"]], ["rl", "tab", "4-article-banjo-ar"], ["rl", "tab", "4-article-baboon-ar"],
         ["rl", "finish", "4-article-baboon-armistice"]],
        # allocations: odd, even, odd, … one client after the other
        [["alloc", 3], ["connected"], ["rxalloc", "5", [1, 2, 3]], ["new"], ["connected"], ["alloc", 2], ["rxalloc", "6", [4, 5]], ["new"],
         ["alloc", 1], ["connected"], ["rxalloc", "9", [6]], ["new"], ["alloc", 2], ["connected"], ["rxalloc", "10", [7, 8]], ["new"],
         ["alloc", 4], ["connected"], ["rxalloc", "8", [9, 10, 11, 12]], ["new"], ["alloc", 0], ["connected"], ["rxalloc", "11", []]],
    ]
    for ops in corpus_multi:
        out.append(dict(kind="api", ops=ops))
    out.append(dict(kind="cwseq", nobj=2, calls=[[0, 2, [1, 2]], [1, 2, [3, 4]], [0, 3, [5, 6, 7]], [0, 2, [8, 9]], [1, 2, [10, 11]],
                                                  [1, 1, [12]], [0, 4, [13, 14, 15, 16]], [1, 1, [17]], [0, 2, [18, 19]], [1, 0, []], [0, 5, [1, 2, 3, 4, 5]],
                                                  [1, 2, [20, 21]]]))
    out.append(dict(kind="np", strs=NAMEPLATES))
    out.append(dict(kind="vc", strs=[np + t for np in ["4", "4\n", "", "٣", "4 ", "x"] for t in WORDS_TAILS]))
    for n in [0, 1, 2, 3, 4, 5, 16, 20]:
        out.append(dict(kind="cw", n=n, data=[(i * 67 + n) % 256 for i in range(n)]))
    for p in ["", "-", "--", "a", "ar", "armistice", "armistice-", "armistice-b", "armistice-baboon", "armistice-baboon-",
              "armistice-baboon-c", "zulu", "Ar", "yucatan", "aardvark", "x-", "-a", "a-b-c-d-e", "é", " ", "a b-",
              "4-armistice-", "4-purple-sausages", "adroitness-ab", "adroitness-absurd-ad"]:
        for nw in [1, 2, 3, 4]:
            out.append(dict(kind="gc", pfx=p, num_words=nw))
    corpus_api = [
        [["set", "4\n-purple-sausages"], ["set", "4-purple-sausages"]],
        [["set", "4-purple sausages"], ["set", "4-purple\tsausages"], ["alloc", 2]],
        [["set", "٣-purple-sausages"]],
        [["set", "4-purple-sausages"], ["set", "5-a"], ["set", "bad code"], ["alloc", 2], ["input"]],
        [["alloc", 2], ["alloc", 2], ["set", "4-a"], ["set", " "], ["input"], ["connected"], ["rxalloc", "9", [255, 0]],
         ["rxalloc", "9", [1, 2]], ["alloc", 1]],
        [["connected"], ["alloc", 3], ["lost"], ["connected"], ["rxalloc", "12", [0, 255, 128]]],
        [["input"], ["input"], ["h", "wc", "a"], ["h", "choosewords", "a-b"], ["gotnp", ["1", "12", "2"]], ["h", "npc", "1"],
         ["h", "npc", ""], ["h", "refresh"], ["h", "wwa"], ["h", "choosenp", "1\n"], ["h", "choosenp", ""], ["h", "choosenp", "12"],
         ["h", "choosenp", "12"], ["h", "choosenp", "bad"], ["h", "npc", "1"], ["h", "refresh"], ["h", "wc", "ar"], ["gotnp", ["3"]],
         ["gotwl"], ["h", "wwa"], ["h", "wc", "ar"], ["h", "wc", "armistice-b"], ["h", "wc", "armistice-baboon-"],
         ["h", "choosewords", "armistice-baboon"], ["h", "choosewords", "x"], ["h", "wc", ""], ["h", "npc", ""],
         ["h", "choosenp", "3"], ["h", "refresh"], ["gotwl"], ["set", "4-a"], ["alloc", 2]],
        [["h", "refresh"], ["h", "npc", ""], ["h", "choosenp", "4"], ["h", "wc", ""], ["h", "choosewords", "a"], ["gotnp", ["1"]],
         ["gotwl"], ["h", "wwa"], ["set", "1-a"], ["gotwl"], ["h", "wwa"]],
        [["rxalloc", "4", [1, 2]], ["lost"], ["connected"], ["connected"], ["rxalloc", "4", [1, 2]]],
        [["input"], ["h", "choosenp", "7"], ["h", "choosewords", "has space"]],
        [["input"], ["h", "wwa"], ["h", "wwa"], ["h", "choosenp", "7"], ["gotwl"], ["h", "wwa"], ["gotwl"]],
        # the list REQUEST and its RESPONSE are two events: a completion query that falls between them is answered from the
        # old list, the same query after the response from the new one — with or without another refresh in between
        [["input"], ["gotnp", ["3", "31"]], ["h", "npc", "3"], ["h", "refresh"], ["h", "npc", "3"], ["gotnp", ["7", "35"]],
         ["h", "npc", "3"], ["h", "npc", ""], ["h", "npc", "7"], ["h", "refresh"], ["h", "npc", "3"], ["gotnp", ["3"]], ["h", "npc", "3"],
         ["h", "npc", "3"], ["gotnp", []], ["h", "npc", "3"], ["h", "npc", ""]],
        [["input"], ["h", "refresh"], ["h", "npc", "1"], ["h", "npc", "1"], ["gotnp", ["1", "12", "100"]], ["h", "npc", "1"],
         ["gotnp", ["2", "10", "11", "12", "13"]], ["h", "npc", "1"], ["h", "npc", "2"], ["h", "refresh"], ["h", "refresh"],
         ["gotnp", ["21"]], ["h", "npc", "1"], ["h", "npc", "2"], ["gotnp", ["21"]], ["h", "npc", "2"]],
    ]
    for ops in corpus_api:
        out.append(dict(kind="api", ops=ops))
    corpus_rl = [
        [["input"], ["gotnp", ["12", "123"]], ["rl", "tab", "1"], ["rl", "tab", "12-"], ["rl", "tab", "12-ar"],
         ["rl", "tab", "12-armistice-b"], ["rl", "finish", "12-armistice-baboon"]],
        [["input"], ["gotnp", ["12", "123"]], ["rl", "tab", "12-"], ["rl", "tab", "123-ar"], ["rl", "finish", "123-armistice-baboon"]],
        [["input"], ["gotnp", ["4", "47"]], ["rl", "tab", "4-"], ["rl", "tab", "47-"], ["rl", "tab", "47-armistice-"],
         ["rl", "finish", "47-armistice-baboon"]],
        [["input"], ["rl", "tab", "12-"], ["rl", "finish", "123-armistice-baboon"]],
        [["input"], ["rl", "tab", "12-"], ["rl", "tab", "13-"], ["rl", "tab", "1"], ["rl", "tab", ""], ["rl", "tab", "2-a"],
         ["rl", "tab", "112-a"], ["rl", "finish", "1-a"], ["rl", "finish", "12"], ["rl", "finish", "12-a-b"], ["rl", "finish", "12-a-b"]],
        [["input"], ["rl", "finish", "7-armistice-baboon"]],
        [["input"], ["rl", "finish", "7"], ["rl", "finish", "x-a"], ["rl", "finish", "7-"], ["rl", "tab", "7-"]],
        [["input"], ["rl", "tab", "x-"], ["rl", "tab", "-"], ["rl", "tab", "7\n-"], ["rl", "tab", "7-a"], ["rl", "tab", "7--"],
         ["rl", "finish", "7-a-b-c"]],
        [["rl", "tab", "1"], ["rl", "tab", "1-"], ["rl", "finish", "1-a"], ["input"], ["rl", "tab", "1-"]],
        [["input"], ["h", "choosenp", "5"], ["rl", "tab", "5-"], ["rl", "tab", "5"], ["rl", "finish", "5-a"], ["rl", "finish", "6-a"]],
        [["gotwl"], ["input"], ["rl", "tab", "5-a"], ["gotwl"], ["rl", "tab", "5-a"], ["rl", "finish", "5-absurd"]],
    ]
    for ops in corpus_rl:
        out.append(dict(kind="api", ops=ops))
    corpus_case = [
        [["input"], ["h", "choosenp", "4"], ["gotwl"], ["h", "wc", "Ar"], ["h", "wc", "AR"], ["h", "wc", "armistice-BA"],
         ["h", "wc", "Armistice-ba"], ["h", "wc", "ARMISTICE-"], ["h", "wc", "\u212a"], ["h", "wc", "\u0130"], ["h", "wc", "aR"],
         ["h", "wc", "ar"], ["h", "wc", "\u00c0r"], ["h", "wc", "armistice-\u212a"], ["h", "choosewords", "armistice-baboon"]],
        [["input"], ["gotnp", ["4"]], ["rl", "tab", "4-Ar"], ["rl", "tab", "4-AR"], ["rl", "tab", "4-Armistice-ba"],
         ["rl", "tab", "4-armistice-BA"], ["rl", "tab", "4-\u212a"], ["rl", "tab", "4-ar"], ["rl", "finish", "4-armistice-baboon"]],
        [["input"], ["rl", "tab", "4-A"], ["rl", "tab", "4-ARMISTICE-"], ["rl", "finish", "4-Armistice-Baboon"]],
    ]
    for ops in corpus_case:
        out.append(dict(kind="api", ops=ops))
    for which in ("receive", "send"):
        for code in [["none"], ["s", ""], ["s", "4-purple-sausages"], ["s", "4 purple sausages"], ["s", "four-purple"],
                     ["s", "4\n-a"], ["s", " "], ["s", "-"], ["s", "0"], ["s", "-4-a"], ["s", "\u0663-x"],
                     ["other", "0"], ["other", "False"], ["other", "b''"], ["other", "1"], ["other", "b'4-a'"], ["other", "0.0"]]:
            out.append(dict(kind="xfer", which=which, code=code, np="7", data=[255, 0]))
    # generated ----------------------------------------------------------------
    for _ in range(30 * k):
        n = rng.choice([0, 1, 2, 2, 3, 4, 6, 9])
        out.append(dict(kind="cw", n=n, data=rand_bytes(rng, n)))
    for _ in range(6 * k):
        out.append(dict(kind="np", strs=[rng.choice(NAMEPLATES) + rng.choice(["", "", "\n", "1", " ", "٣"]) for _ in range(10)]))
        out.append(dict(kind="vc", strs=[rand_code(rng) for _ in range(10)]))
    for _ in range(150 * k):
        out.append(dict(kind="gc", pfx=rand_prefix(rng), num_words=rng.choice([1, 2, 2, 2, 3, 4, 5])))
        if rng.random() < 0.3:
            # a session: the same partial word typed at successive word positions, one wordlist object
            w = rng.choice(["", "s", "a", "ar", "b", "st", "c", "te"])
            first = rng.choice(["caravan", "armistice", "snowslide", "tiger"])
            second = rng.choice(["adroitness", "unicorn", "sardonic", "letterhead"])
            nw = rng.choice([2, 3, 3, 4])
            qs = [[w, nw], [first + "-" + w, nw], [first + "-" + second + "-" + w, nw], [w, nw]]
            rng.shuffle(qs)
            out.append(dict(kind="gcseq", queries=qs))
    for _ in range(120 * k):
        out.append(dict(kind="api", ops=legal_api(rng)))
    for _ in range(150 * k):
        out.append(dict(kind="api", ops=rl_history(rng)))
    for _ in range(40 * k):
        r = rng.random()
        code = ["none"] if r < 0.25 else (["other", rng.choice(sorted(XFER_OTHER))] if r < 0.35 else ["s", rand_code(rng)])
        out.append(dict(kind="xfer", which=rng.choice(["receive", "send"]), code=code,
                        np=str(rng.randrange(1, 500)), data=rand_bytes(rng, 2)))
    for _ in range(60 * k):
        ops = [rand_op(rng) for _ in range(rng.randrange(1, 14))]
        r = rng.random()
        if r < 0.45:      # most helper calls are only interesting once input_code() has started
            ops.insert(0, ["input"])
            ops += [rand_helper_op(rng) for _ in range(rng.randrange(0, 8))]
        elif r < 0.6:
            ops.insert(0, ["alloc", rng.choice([1, 2, 3])])
        out.append(dict(kind="api", ops=ops))
    # sessions (appended after the older streams so that those keep their random choices)
    for _ in range(60 * k):
        out.append(gc_edit_case(rng))
    for _ in range(50 * k):
        out.append(dict(kind="api", ops=input_edit_session(rng)))
    for _ in range(25 * k):
        out.append(dict(kind="api", ops=multi_client_sessions(rng)))
    for _ in range(12 * k):
        out.append(dict(kind="api", ops=alloc_sessions(rng)))
        out.append(cw_session(rng))
    if tier == "thorough":
        # small-scope exhaustive: every ordered triple of code-start calls (good/bad set_code), and every
        # helper-call pair after each phase of input
        starts = [["alloc", 2], ["set", "4-a-b"], ["set", "4 -a"], ["set", "4\n-a"], ["input"]]
        for a in starts:
            for b in starts:
                for c in starts:
                    out.append(dict(kind="api", ops=[a, b, c, ["connected"], ["rxalloc", "3", [7, 8]]]))
        hops = [["h", "refresh"], ["h", "npc", "1"], ["h", "choosenp", "1"], ["h", "choosenp", "1\n"], ["h", "wc", "a"],
                ["h", "choosewords", "armistice-baboon"], ["h", "wwa"], ["gotwl"], ["gotnp", ["1", "12"]]]
        phases = [[], [["input"]], [["input"], ["h", "choosenp", "9"]], [["input"], ["h", "choosenp", "9"], ["gotwl"]],
                  [["input"], ["h", "choosenp", "9"], ["h", "choosewords", "a"]]]
        for ph in phases:
            for a in hops:
                for b in hops:
                    out.append(dict(kind="api", ops=ph + [a, b]))
        # readline front-end: commit nameplate a (by "a-" TAB, "a-ar" TAB, or not at all), edit to b, TAB in one of
        # four shapes (or not), Return with a or b
        for a in ["12", "4"]:
            for b_ in [a, a + "3", a + "0", a[:-1], "9", "9" + a, ""]:
                for commit in [None, a + "-", a + "-ar"]:
                    for second in [None, b_, b_ + "-", b_ + "-ar", b_ + "-armistice-b"]:
                        for fin in [a, b_]:
                            ops = [["input"], ["gotnp", ["12", "123", "4", "47"]]]
                            if commit:
                                ops.append(["rl", "tab", commit])
                            if second is not None:
                                ops.append(["rl", "tab", second])
                            ops.append(["rl", "finish", fin + "-armistice-baboon"])
                            out.append(dict(kind="api", ops=ops))
        # every upper-/mixed-case 1- and 2-letter start of a first and of a second word, through the real Input + wordlist
        import string as _st
        qs = []
        for a in _st.ascii_lowercase:
            qs += [a.upper(), "armistice-" + a.upper()]
            for b_ in "aeiouy":
                qs += [a.upper() + b_, a + b_.upper(), "armistice-" + a.upper() + b_]
        for i in range(0, len(qs), 12):
            out.append(dict(kind="api", ops=[["input"], ["h", "choosenp", "4"], ["gotwl"]] + [["h", "wc", q] for q in qs[i:i + 12]]))
            out.append(dict(kind="api", ops=[["input"]] + [["rl", "tab", "4-" + q] for q in qs[i:i + 12]]))
        # sessions: every one-letter partial word, at every word position 1-4, with every earlier word replaced in turn
        # (by any word, and by one of the same length), on one wordlist object
        import string as _s2
        for kk in (1, 2, 3, 4):
            for j in range(kk):
                for a in _s2.ascii_lowercase:
                    out.append(dict(kind="gcseq", queries=earlier_word_session(kk, j, a, 2, variant=3, same_len=(ord(a) % 2 == 0)),
                                    edits=["earlier-word"]))
        # every 1- and 2-letter prefix, first and second word
        import string
        for a in string.ascii_lowercase:
            out.append(dict(kind="gc", pfx=a, num_words=2))
            out.append(dict(kind="gc", pfx="armistice-" + a, num_words=2))
            for b in string.ascii_lowercase:
                out.append(dict(kind="gc", pfx=a + b, num_words=2))
                out.append(dict(kind="gc", pfx="armistice-" + a + b, num_words=2))
    return out


# ---------------------------------------------------------------------------
# running a case on the real code

_RUN_LOG = []          # the top-level cases run in this process, in order (for a self-contained replay, see `shrink`)
_LOG_OPEN = True


def run_case(case):
    if case.get("kind") == "seq":
        # several cases one after the other in ONE process (what the check itself does); the model starts afresh for each
        lines, exp, viol, tags = [], [], [], set()
        for i, sub in enumerate(case["cases"]):
            r = _run_case(sub)
            if i:
                lines.append("new")
                exp.append("ok")
            lines += r.lines
            exp += r.expect
            viol += r.violations
            tags |= set(r.tags)
        return Result(lines, exp, viol[:5], sorted(tags) + ["seq"])
    if _LOG_OPEN:
        _RUN_LOG.append(case)
    return _run_case(case)


def _run_case(case):
    k = case["kind"]
    if k == "tables":
        return run_tables()
    if k == "nd":
        return run_nd()
    if k == "np":
        lines, exp, viol = [], [], []
        for s in case["strs"]:
            lines.append("np " + hs(s))
            r = _call(validate_nameplate, s)
            exp.append(r)
            if malformed_nameplate(s) and r != "KeyFormatError":
                viol.append(("malformed-accepted", f"validate_nameplate({s!r}) -> {r}"))
            if not malformed_nameplate(s) and r != "ok":
                viol.append(("wellformed-rejected", f"validate_nameplate({s!r}) -> {r}"))
        return Result(lines, exp, viol, ["np"])
    if k == "vc":
        lines, exp, viol = [], [], []
        for s in case["strs"]:
            lines.append("vc " + hs(s))
            r = _call(validate_code, s)
            exp.append(r)
            if malformed_code(s) and r != "KeyFormatError":
                viol.append(("malformed-accepted", f"validate_code({s!r}) -> {r}"))
            if not malformed_code(s) and r != "ok":
                viol.append(("wellformed-rejected", f"validate_code({s!r}) -> {r}"))
        return Result(lines, exp, viol, ["vc"])
    if k == "cw":
        n, data = case["n"], case["data"]
        words, fd = with_urandom(data, lambda: PGPWordList().choose_words(n))
        return Result([f"cw {n} {hx(bytes(data))}"], [hs(words)], words_violations(n, data, fd, words), ["cw:%d" % min(n, 5)])
    if k == "gcseq":
        return run_gcseq(case)
    if k == "cwseq":
        wls = [PGPWordList() for _ in range(case["nobj"])]
        lines, exp, viol, par = [], [], [], set()
        for obj, n, data in case["calls"]:
            words, fd = with_urandom(data, lambda: wls[obj].choose_words(n))
            lines.append(f"cw {n} {hx(bytes(data))}")
            exp.append(hs(words))
            viol += words_violations(n, data, fd, words)
            par.add("odd" if n % 2 else "even")
        return Result(lines, exp, viol[:5], ["cwseq:objects=%d" % case["nobj"], "cwseq:lengths=" + "+".join(sorted(par))])
    if k == "gc":
        p, nw = case["pfx"], case["num_words"]
        got = PGPWordList().get_completions(p, nw)
        tags = ["gc:words=%d" % min(p.count("-"), 4), "gc:n=%d" % min(len(got), 3), "gc:hyphen" if nw > p.count("-") + 1 else "gc:final"]
        return Result([f"gc {nw} {hs(p)}"], [hl(got)], completion_violations(p, nw, got), tags)
    if k == "api":
        return run_api(case)
    if k == "xfer":
        return run_xfer(case)
    raise ValueError(k)


def run_gcseq(case):
    """queries [prefix, num_words] (or [prefix, num_words, object]) put to wordlist objects that live for the whole case, as
    Input holds one for a whole interactive session.  EVERY answer is judged and compared, not only first ones."""
    queries = [q if len(q) == 3 else [q[0], q[1], 0] for q in case["queries"]]
    wls = {}
    asked = {}
    lines, exp, viol, tags = [], [], [], set()
    for p, nw, obj in queries:
        wl = wls.setdefault(obj, PGPWordList())
        got = wl.get_completions(p, nw)
        lines.append(f"gc {nw} {hs(p)}")
        exp.append(hl(got))
        viol += completion_violations(p, nw, got)
        # what this query has in common with earlier ones of the session (what a lossy memo key would confuse)
        count, last = p.count("-"), p.rsplit("-", 1)[-1]
        for obj2, hist in asked.items():
            where = "" if obj2 == obj else "other-object:"
            for p2, nw2, _ in hist:
                c2, l2 = p2.count("-"), p2.rsplit("-", 1)[-1]
                if p2 == p and nw2 == nw:
                    tags.add("gcseq:" + where + "repeat")
                elif p2 == p:
                    tags.add("gcseq:" + where + "same-text-other-num-words")
                else:
                    if c2 == count and l2 == last:
                        tags.add("gcseq:" + where + "same-position-and-partial-other-earlier-word@%d" % min(count, 4))
                    if len(p2) == len(p):
                        tags.add("gcseq:" + where + "same-length-other-text")
                    if l2 == last and c2 != count:
                        tags.add("gcseq:" + where + "same-partial-other-position")
                    if p2.lower() == p.lower():
                        tags.add("gcseq:" + where + "same-text-other-case")
                    if "-" in p and "-" in p2 and p2.split("-", 1)[1] == p.split("-", 1)[1]:
                        tags.add("gcseq:" + where + "same-tail-other-first-word")
        asked.setdefault(obj, []).append((p, nw, hl(got)))
    for obj in sorted(asked):
        # the whole session of one object as ONE model call (gcSession)
        lines.append("gcs " + ",".join(f"{nw}:{hs(p)}" for p, nw, _ in asked[obj]))
        exp.append(";".join(a for _, _, a in asked[obj]))
    tags.add("gcseq:%d" % min(len(queries), 8))
    tags.add("gcseq:objects=%d" % len(asked))
    for e in case.get("edits", []):
        tags.add("gcseq:edit=" + e)
    return Result(lines, exp, viol[:5], sorted(tags))


def run_tables():
    lines, exp, viol = [], [], []
    for parity, lst in ((0, ODD), (1, EVEN)):
        for b in range(256):
            data = [0] * parity + [b]
            words, fd = with_urandom(data, lambda: PGPWordList().choose_words(parity + 1))
            w = words.split("-")[-1]
            lines.append(f"word {parity} {b}")
            exp.append(hs(w))
            viol += words_violations(parity + 1, data, fd, words)
        name = "odd" if parity == 0 else "even"
        if len(set(lst)) != 256:
            dup = sorted({w for w in lst if lst.count(w) > 1})
            viol.append(("table-not-injective", f"{name} list has {len(set(lst))} distinct words; repeated: {dup[:3]}"))
        for w in lst:
            if "-" in w or " " in w or w == "":
                viol.append(("table-bad-word", f"{name} list contains {w!r}"))
    if _wordlist.odd_words_lowercase != set(ODD) or _wordlist.even_words_lowercase != set(EVEN):
        viol.append(("completion-unacceptable", "the completion word sets differ from the lists choose_words draws from"))
    return Result(lines, exp, viol[:5], ["tables"])


def run_nd():
    """`\\d` of the interpreter's `re`, all code points, against the generated range table of the model"""
    rx = re.compile(r"\d")
    rngs, start = [], None
    for cp in range(0x110000 + 1):
        d = cp < 0x110000 and rx.fullmatch(chr(cp)) is not None
        if d and start is None:
            start = cp
        elif not d and start is not None:
            rngs.append((start, cp - 1))
            start = None
    lines = ["ndranges"]
    exp = [",".join(f"{a}-{b}" for a, b in rngs)]
    for a, b in rngs[:8] + rngs[-3:]:
        for cp in (a - 1, a, b, b + 1):
            lines.append(f"nd {cp}")
            exp.append("1" if a <= cp <= b else "0")
    return Result(lines, exp, [], ["nd"])


class Rec:
    def __init__(self, name, events, methods):
        self._name, self._events = name, events
        for m in methods:
            setattr(self, m, self._mk(m))

    def _mk(self, m):
        def call(*args):
            self._events.append(f"{self._name}.{m}" + "".join(":" + hs(a) for a in args if isinstance(a, str)))
        return call


def build(events):
    class HBoss(Boss):
        def _build_workers(self):
            t = self._timing
            self._N = Rec("N", events, ["set_nameplate"])
            alsoProvides(self._N, _interfaces.INameplate)
            self._K = Rec("K", events, ["got_code"])
            alsoProvides(self._K, _interfaces.IKey)
            self._L = Rec("L", events, ["refresh"])
            alsoProvides(self._L, _interfaces.ILister)
            self._RC = Rec("RC", events, ["tx_allocate"])
            alsoProvides(self._RC, _interfaces.IRendezvousConnector)
            self._A = Allocator(t)
            self._I = Input(t)
            self._C = Code(t)
            self._A.wire(self._RC, self._C)
            self._I.wire(self._C, self._L)
            self._C.wire(self, self._A, self._N, self._K, self._I)

    w = Rec("B", events, ["got_code"])     # Wormhole.got_code is what Boss.got_code ends in
    return HBoss(w, "side", "url", "appid", {}, ("python", "x"), None, None, None, ImmediateJournal(), None,
                 timing.DebugTiming())


def run_api(case):
    events = []
    b = build(events)
    helper = Helper(b._I)
    lines, exp, viol, tags = [], [], [], []

    # --- the oracle's own bookkeeping (independent of the model)
    accepted = None          # which of allocate/set/input was accepted
    n_accepted = 0
    alloc_n = None
    phase = None             # None | "np" | "words" | "done"   (interactive entry progress)
    chosen_np = None
    known_nps = set()
    have_wordlist = False
    codes = []
    rl_committed = None      # the nameplate the readline front-end has handed to Nameplate (observed, not read from it)

    def bcft(f, *a, **kw):
        """blockingCallFromThread, in the reactor thread: a plain call; a Deferred that has not fired is what
        the real call would block on — the claim response (got_wordlist) arrives meanwhile"""
        r = f(*a, **kw)
        if isinstance(r, Deferred) and not r.called:
            r.addCallback(lambda _: events.append("waiter"))
            b._I.got_wordlist(PGPWordList())
            events.append("claimed-while-blocked")
        return r

    ci = CodeInputter(helper, None)
    ci.bcft = bcft
    client = 0               # `new` starts another client in the same process
    asked = []               # (client, front, words text) of every completion query that was answered

    def V(sig, msg):
        if len(viol) < 5:
            viol.append((sig, msg))

    def session_tags(front, words):
        """what this query shares with earlier ones (of this client: same wordlist object; of earlier clients: same process)"""
        count, last = words.count("-"), words.rsplit("-", 1)[-1]
        for cl2, _, w2 in asked:
            where = "" if cl2 == client else "other-client:"
            c2, l2 = w2.count("-"), w2.rsplit("-", 1)[-1]
            if w2 == words:
                tags.append(f"sess:{front}:{where}repeat")
            else:
                if c2 == count and l2 == last:
                    tags.append(f"sess:{front}:{where}same-position-and-partial-other-earlier-word@{min(count, 4)}")
                if len(w2) == len(words):
                    tags.append(f"sess:{front}:{where}same-length-other-text")
                if l2 == last and c2 != count:
                    tags.append(f"sess:{front}:{where}same-partial-other-position")
                if w2.lower() == words.lower():
                    tags.append(f"sess:{front}:{where}same-text-other-case")
        asked.append((client, front, words))

    for op in case["ops"]:
        kind = op[0]
        if kind == "new":
            # a fresh client in the same process: new Boss / Code / Allocator / Input / Helper / CodeInputter, and the
            # oracle's bookkeeping starts again; whatever the classes or modules remember stays
            tags.append("route:" + str(accepted))
            events = []
            b = build(events)
            helper = Helper(b._I)
            ci = CodeInputter(helper, None)
            ci.bcft = bcft
            accepted, n_accepted, alloc_n, phase, chosen_np = None, 0, None, None, None
            known_nps, have_wordlist, codes, rl_committed = set(), False, [], None
            client += 1
            lines.append("new")
            exp.append("ok")
            tags.append("op:new")
            continue
        mark = len(events)
        fd = None
        ret = None
        if kind == "alloc":
            line = f"alloc {op[1]}"
            res = _call(b.allocate_code, op[1])
        elif kind == "set":
            line = "set " + hs(op[1])
            res = _call(b.set_code, op[1])
        elif kind == "input":
            line = "input"

            def f():
                h = b.input_code()
                assert isinstance(h, Helper)
                return "ok"
            res = _catch(f)
        elif kind in ("connected", "lost"):
            line = kind
            res = _call(getattr(b._A, kind))
        elif kind == "rxalloc":
            data = op[2]
            n_model = alloc_n if alloc_n is not None else 0
            data = (data + [(i * 29 + 3) % 256 for i in range(n_model)])[:max(n_model, len(data))]
            line = f"rxalloc {hs(op[1])} {hx(bytes(data))}"
            res, fd = with_urandom(data, lambda: _call(b._A.rx_allocated, op[1]))
        elif kind == "gotnp":
            line = "gotnp " + hl(op[1])
            res = _call(b._I.got_nameplates, set(op[1]))
        elif kind == "gotwl":
            line = "gotwl"
            res = _call(b._I.got_wordlist, PGPWordList())
        elif kind == "h":
            hk = op[1]
            if hk == "refresh":
                line = "h refresh"
                res = _call(helper.refresh_nameplates)
            elif hk == "npc":
                line = "h npc " + hs(op[2])

                def f():
                    nonlocal ret
                    ret = helper.get_nameplate_completions(op[2])
                    return hl(ret)
                res = _catch(f)
            elif hk == "choosenp":
                line = "h choosenp " + hs(op[2])
                res = _call(helper.choose_nameplate, op[2])
            elif hk == "wc":
                line = "h wc " + hs(op[2])

                def f():
                    nonlocal ret
                    ret = helper.get_word_completions(op[2])
                    return hl(ret)
                res = _catch(f)
            elif hk == "choosewords":
                line = "h choosewords " + hs(op[2])
                res = _call(helper.choose_words, op[2])
            elif hk == "wwa":
                line = "h wwa"

                def f():
                    d = helper.when_wordlist_is_available()
                    fired = d.called
                    d.addCallback(lambda _: events.append("waiter"))
                    if fired:
                        events.pop()      # fired at once: reported as the result, not as a later event
                    return "fired" if fired else "pending"
                res = _catch(f)
            else:
                raise ValueError(op)
        elif kind == "rl":
            if op[1] == "tab":
                line = "rl tab " + hs(op[2])

                def f():
                    nonlocal ret
                    ret = []
                    with mock.patch.object(_rlcompleter, "readline", mock.Mock(get_completion_type=mock.Mock(return_value=0))):
                        for state in range(100000):
                            m = ci._wrapped_completer(op[2], state)
                            if m is None:
                                break
                            ret.append(m)
                    return ",".join(hs(x) for x in ret) if ret else "."
                res = _catch(f)
                if res[:1].isupper():
                    ret = None
            elif op[1] == "finish":
                line = "rl finish " + hs(op[2])
                res = _call(ci.finish, op[2])
            else:
                raise ValueError(op)
        else:
            raise ValueError(op)
        new = events[mark:]
        blocked_claim = "claimed-while-blocked" in new
        new = [e for e in new if e != "claimed-while-blocked"]
        cmds = []
        for e in new:
            if e == "waiter":
                if cmds and cmds[-1].startswith("waiters:"):
                    cmds[-1] = "waiters:%d" % (int(cmds[-1][8:]) + 1)
                else:
                    cmds.append("waiters:1")
            else:
                cmds.append(e)
        latch = "true" if b._did_start_code else "false"
        lines.append(line)
        states = f"{latch} {automat_state(b._C)} {automat_state(b._I)} {automat_state(b._A)}"
        if kind == "rl":
            com = "none" if ci._committed_nameplate is None else hs(ci._committed_nameplate)
            exp.append(f"{res} | {' '.join(cmds)} | committed={com} used={'true' if ci.used_completion else 'false'} | {states}")
        else:
            exp.append(f"{res} | {' '.join(cmds)} | {states}")
        tags.append("op:" + (kind if kind not in ("h", "rl") else kind + "." + op[1]) + "=" + (res if res[:1].isupper() else "ok"))

        # ------------------------------------------------------------ oracle
        got_codes = [e for e in new if e.startswith("B.got_code")]
        codes += got_codes
        if len(codes) > 1:
            V("second-code", f"a second code was delivered: {codes}")
        if kind in ("alloc", "set", "input"):
            bad = kind == "set" and malformed_code(op[1])
            if bad:
                if res != "KeyFormatError":
                    V("malformed-accepted", f"set_code({op[1]!r}) -> {res}")
                if new:
                    V("malformed-emitted", f"set_code({op[1]!r}) -> {res} after calling {new}")
            elif accepted is not None:
                if res != "OnlyOneCodeError":
                    V("second-start-accepted", f"{op} after an accepted {accepted}: {res}")
            else:
                if res != "ok":
                    V("first-start-refused", f"{op} as the first well-formed code-start call: {res}")
                else:
                    accepted = kind
                    if kind == "alloc":
                        alloc_n = op[1]
                    if kind == "input":
                        phase = "np"
                    if kind == "set" and got_codes != ["B.got_code:" + hs(op[1])]:
                        V("set-code-not-delivered", f"set_code({op[1]!r}) delivered {got_codes}")
            if res == "ok":
                n_accepted += 1
                if n_accepted > 1:
                    V("second-start-accepted", f"{op}: a second code-start call returned normally")
        if kind == "rl":
            text = op[2]
            typed_np = text.split("-", 1)[0] if "-" in text else None
            setnp = [e for e in new if e.startswith("N.set_nameplate:")]
            if rl_committed is not None and typed_np != rl_committed:
                # any change of the nameplate that was handed to Nameplate must be refused: by the front-end
                # (AlreadyInputNameplateError) if a TAB committed it, else by Input underneath
                # (AlreadyChoseNameplateError; KeyFormatError for a line without hyphen / a malformed nameplate)
                want = ("AlreadyInputNameplateError", "AlreadyChoseNameplateError", "KeyFormatError")
                if res not in want:
                    V("rollback-accepted", f"nameplate {rl_committed!r} was committed; {op[1]}({text!r}) -> "
                                           f"{res if res[:1].isupper() else 'accepted'} (offered {ret[:3] if ret else ret})")
                if new:
                    V("rollback-accepted", f"nameplate {rl_committed!r} was committed; {op[1]}({text!r}) called {new}")
            if op[1] == "tab" and ret is not None:
                for c_ in ret:
                    if not c_.startswith(text):
                        V("completion-not-extending", f"TAB on {text!r} offers {c_!r}")
                        break
                if typed_np is not None and phase in ("words",) or setnp:
                    wl_known = have_wordlist or blocked_claim
                    if wl_known and typed_np is not None and (rl_committed in (None, typed_np)):
                        words = text.split("-", 1)[1]
                        stripped = [c_[len(typed_np) + 1:] for c_ in ret if c_.startswith(typed_np + "-")]
                        session_tags("rl", words)
                        if len(stripped) != len(ret):
                            V("completion-unacceptable", f"TAB on {text!r} offers {ret[:3]}: not under nameplate {typed_np!r}")
                        for v in completion_violations(words, 2, set(stripped)):
                            V(*v)
                if ret != sorted(ret):
                    V("completions-unsorted", f"TAB on {text!r}: {ret[:4]}")
            if op[1] == "finish" and res == "ok":
                if got_codes != ["B.got_code:" + hs(text)]:
                    delivered = [bytes.fromhex(g.split(":")[1].replace("-", "")).decode("utf8") if g.split(":")[1] != "-" else ""
                                 for g in got_codes]
                    V("finished-code-differs", f"the user finished with {text!r}; code delivered to Boss: {delivered}")
            # keep the bookkeeping of the layers below in step with what was observed
            if setnp:
                np_seen = bytes.fromhex(setnp[0].split(":")[1]).decode("utf8") if setnp[0].split(":")[1] != "-" else ""
                if rl_committed is None:
                    rl_committed = np_seen
                if phase == "np":
                    phase, chosen_np = "words", np_seen
            if blocked_claim and phase == "words":
                have_wordlist = True
            if got_codes and phase == "words":
                phase = "done"
        if kind == "rxalloc" and got_codes:
            code = bytes.fromhex(got_codes[0].split(":")[1].replace("-", "")).decode("utf8")
            n = alloc_n if alloc_n is not None else -1
            if accepted != "alloc":
                V("allocated-without-allocate", f"code {code!r} delivered without allocate_code")
            else:
                want = op[1] + "-" + "-".join((ODD if i % 2 == 0 else EVEN)[data[i]] for i in range(n))
                if code != want:
                    V("allocated-shape", f"allocate_code({n}), nameplate {op[1]!r}, bytes {data[:n]} -> {code!r}, expected {want!r}")
                if fd.used != n:
                    V("entropy-count", f"allocate_code({n}) drew {fd.used} random bytes")
        if kind == "gotnp" and res == "ok" and phase == "np":
            known_nps = set(op[1])
        if kind == "gotwl" and res == "ok" and phase == "words":
            have_wordlist = True      # (a wordlist recorded before input_code() started is not used by Input)
        if kind == "h" and phase is not None:
            hk = op[1]
            already_np = "AlreadyChoseNameplateError"
            if hk == "refresh":
                want = "ok" if phase == "np" else already_np
                if res != want:
                    V("helper-order", f"refresh_nameplates in phase {phase}: {res}, documented {want}")
            elif hk == "npc":
                if phase == "np":
                    wantset = {n + "-" for n in known_nps if n.startswith(op[2])}
                    if ret is None or set(ret) != wantset:
                        V("nameplate-completions", f"get_nameplate_completions({op[2]!r}) = {ret if ret is not None else res}, expected {sorted(wantset)}")
                elif res != already_np:
                    V("helper-order", f"get_nameplate_completions in phase {phase}: {res}, documented {already_np}")
            elif hk == "choosenp":
                if malformed_nameplate(op[2]):
                    if res != "KeyFormatError":
                        V("malformed-accepted", f"choose_nameplate({op[2]!r}) -> {res}")
                    if new:
                        V("malformed-emitted", f"choose_nameplate({op[2]!r}) called {new}")
                elif phase == "np":
                    if res != "ok" or new != ["N.set_nameplate:" + hs(op[2])]:
                        V("helper-order", f"choose_nameplate({op[2]!r}) while typing the nameplate: {res} {new}")
                    else:
                        phase, chosen_np = "words", op[2]
                elif res != already_np:
                    V("helper-order", f"choose_nameplate again in phase {phase}: {res}, documented {already_np}")
            elif hk == "wc":
                if phase == "np":
                    if res != "MustChooseNameplateFirstError":
                        V("helper-order", f"get_word_completions before choose_nameplate: {res}")
                elif phase == "done":
                    if res != "AlreadyChoseWordsError":
                        V("helper-order", f"get_word_completions after choose_words: {res}")
                elif ret is None:
                    V("helper-order", f"get_word_completions while typing words: {res}")
                elif not have_wordlist:
                    if ret:
                        V("completion-unacceptable", f"completions {sorted(ret)[:3]} offered before the wordlist is known")
                else:
                    session_tags("helper", op[2])
                    for v in completion_violations(op[2], 2, ret):
                        V(*v)
            elif hk == "choosewords":
                if phase == "np":
                    if res != "MustChooseNameplateFirstError":
                        V("helper-order", f"choose_words before choose_nameplate: {res}")
                elif phase == "done":
                    if res != "AlreadyChoseWordsError":
                        V("helper-order", f"choose_words twice: {res}")
                else:
                    wantc = chosen_np + "-" + op[2]
                    if res != "ok" or got_codes != ["B.got_code:" + hs(wantc)]:
                        V("input-code-wrong", f"choose_words({op[2]!r}) after nameplate {chosen_np!r}: {res}, delivered {got_codes}")
                    else:
                        phase = "done"
    tags.append("route:" + str(accepted))
    if client:
        tags.append("clients:%d" % min(client + 1, 4))
    return Result(lines, exp, viol, sorted(set(tags)))


XFER_OTHER = {"0": 0, "False": False, "b''": b"", "1": 1, "b'4-a'": b"4-a", "0.0": 0.0}


@implementer(_interfaces.IRendezvousConnector)
class RecordingRC:
    """stands in for the websocket: reports `connected` at start() and records every tx_*"""
    instances = []

    def __init__(self, *args, **kwargs):
        self.sent = []
        self.events = None
        RecordingRC.instances.append(self)

    def wire(self, boss, nameplate, mailbox, allocator, lister, terminator):
        self._B, self._N, self._M = boss, nameplate, mailbox
        self._A, self._L, self._T = allocator, lister, terminator

    def set_trace(self, f):
        pass

    def start(self):
        self._N.connected()
        self._M.connected()
        self._L.connected()
        self._A.connected()

    def stop(self):
        self._T.stoppedRC()

    def tx_claim(self, nameplate):
        self.sent.append(("claim", nameplate))

    def tx_open(self, mailbox):
        self.sent.append(("open", mailbox))

    def tx_add(self, phase, body):
        self.sent.append(("add", phase))

    def tx_release(self, nameplate):
        self.sent.append(("release", nameplate))

    def tx_close(self, mailbox, mood):
        self.sent.append(("close", mailbox, mood))

    def tx_list(self):
        self.sent.append(("list",))

    def tx_allocate(self):
        self.sent.append(("allocate",))
        if self.events is not None:
            self.events.append("RC.tx_allocate")


def run_xfer(case):
    """xfer_util.send/receive on a real wormhole.create() client (all machines real) whose RendezvousConnector is
    the recorder above; reactor = task.Clock"""
    which, carg = case["which"], case["code"]
    code = None if carg[0] == "none" else (carg[1] if carg[0] == "s" else XFER_OTHER[carg[1]])
    events, reported, results, made = [], [], [], []
    RecordingRC.instances[:] = []
    clock = Clock()
    orig_create = xfer_util.wormhole.create

    def spy(obj, name, label):
        orig = getattr(obj, name)

        def f(*a):
            events.append(label + ":" + hs(a[0]))
            return orig(*a)
        setattr(obj, name, f)

    def create(*a, **kw):
        w = orig_create(*a, **kw)
        made.append(w)
        b = w._boss
        spy(b._N, "set_nameplate", "N.set_nameplate")
        spy(b, "got_code", "B.got_code")
        spy(b._K, "got_code", "K.got_code")
        b._RC.events = events
        return w

    with mock.patch("wormhole._boss.RendezvousConnector", RecordingRC), mock.patch.object(xfer_util.wormhole, "create", create):
        if which == "receive":
            d = xfer_util.receive(clock, "example.org/verif", "ws://relay.invalid:4000/v1", code, on_code=reported.append)
        else:
            d = xfer_util.send(clock, "example.org/verif", "ws://relay.invalid:4000/v1", "payload", code, on_code=reported.append)
    d.addBoth(results.append)
    for _ in range(3):
        clock.advance(0)
    b = made[0]._boss
    rc = b._RC

    def outcome():
        if results and isinstance(results[0], Failure):
            return results[0].type.__name__
        return "ok" if not results else "returned"

    def state():
        return (f"{'true' if b._did_start_code else 'false'} {automat_state(b._C)} {automat_state(b._I)} {automat_state(b._A)}")
    arg_tok = "none" if carg[0] == "none" else ("other" if carg[0] == "other" else "s " + hs(carg[1]))
    lines = [f"xfer {which} {arg_tok}"]
    res = outcome()
    exp = [f"{res} | {' '.join(events)} | {state()}"]
    sent0 = list(rc.sent)
    viol = []
    tags = ["xfer:" + which, "xfer:" + carg[0] + "=" + res]
    wellformed = isinstance(code, str) and not malformed_code(code)
    if code is None:
        if res != "ok" or sent0 != [("allocate",)] or reported:
            viol.append(("allocate-refused", f"xfer_util.{which}(code=None): {res}; sent {sent0}; on_code {reported}"))
        else:
            mark = len(events)
            data = list(case["data"])
            r2, fd = with_urandom(data, lambda: _call(b._A.rx_allocated, case["np"]))
            for _ in range(3):
                clock.advance(0)
            lines.append(f"rxalloc {hs(case['np'])} {hx(bytes(data))}")
            exp.append(f"{r2} | {' '.join(events[mark:])} | {state()}")
            want = case["np"] + "-" + "-".join((ODD if i % 2 == 0 else EVEN)[data[i]] for i in range(2))
            if reported != [want]:
                viol.append(("allocated-shape", f"xfer_util.{which}(code=None), nameplate {case['np']!r}, bytes {data}: on_code got {reported}, expected {want!r}"))
            if fd.used != 2:
                viol.append(("entropy-count", f"allocate_code() drew {fd.used} random bytes"))
            if ("claim", case["np"]) not in rc.sent:
                viol.append(("allocated-shape", f"allocated nameplate {case['np']!r} not claimed: {rc.sent}"))
    elif wellformed:
        if res != "ok" or ("allocate",) in sent0 or reported != [code] or ("claim", code.split("-")[0]) not in sent0:
            viol.append(("first-start-refused", f"xfer_util.{which}(code={code!r}): {res}; sent {sent0}; on_code {reported}"))
    else:
        # a malformed code (a str that validate_code must refuse — "" included — or not a str at all)
        if res in ("ok", "returned"):
            viol.append(("malformed-accepted", f"xfer_util.{which}(code={code!r}) was not rejected; sent {sent0}; on_code told {reported}"))
        elif isinstance(code, str) and res != "KeyFormatError":
            viol.append(("malformed-accepted", f"xfer_util.{which}(code={code!r}) -> {res}"))
        if sent0 or reported or events:
            viol.append(("malformed-emitted", f"xfer_util.{which}(code={code!r}) -> {res} after sending {sent0} (on_code {reported}, calls {events})"))
    d.addErrback(lambda f: None)
    return Result(lines, exp, viol[:3], tags)


def search(rng, seconds, seeds):
    import time
    t0 = time.time()
    for c in seeds:
        yield c, run_case(c)
    while time.time() - t0 < seconds:
        for c in cases(rng, "quick"):
            yield c, run_case(c)
            if time.time() - t0 > seconds:
                return


def fresh_signatures(case, timeout=60):
    """the oracle's verdict on `case` in a FRESH interpreter (same implementation: the environment is inherited): what a
    replay of the case alone will show.  None = could not be run."""
    import json, os, subprocess, sys
    root = os.path.dirname(os.path.dirname(os.path.dirname(os.path.abspath(__file__))))
    code = ("import json,sys; from harness.props import c19; r=c19.run_case(json.load(sys.stdin)); "
            "print('SIGS='+json.dumps([s for s,_ in r.violations]))")
    try:
        r = subprocess.run([sys.executable, "-c", code], input=json.dumps(case), capture_output=True, text=True, cwd=root,
                           timeout=timeout)
    except Exception:
        return None
    for ln in r.stdout.splitlines():
        if ln.startswith("SIGS="):
            return json.loads(ln[5:])
    return None


def _shrink_plain(case):
    if case.get("kind") == "api":
        ops = case["ops"]
        # whole clients first, then single calls
        cuts = [i for i, op in enumerate(ops) if op == ["new"]]
        bounds = [-1] + cuts + [len(ops)]
        if cuts:
            for a, b_ in zip(bounds, bounds[1:]):
                rest = ops[:max(a, 0)] + ops[b_ + (1 if a < 0 else 0):]
                if rest and rest != ops:
                    yield dict(kind="api", ops=rest)
        for i in range(len(ops)):
            yield dict(kind="api", ops=ops[:i] + ops[i + 1:])
    if case.get("kind") in ("np", "vc"):
        for s in case["strs"]:
            if len(case["strs"]) > 1:
                yield dict(kind=case["kind"], strs=[s])
    if case.get("kind") == "gcseq":
        qs = case["queries"]
        for i in range(len(qs)):
            if len(qs) > 1:
                yield dict(kind="gcseq", queries=qs[:i] + qs[i + 1:], edits=case.get("edits", []))
    if case.get("kind") == "cwseq":
        cs = case["calls"]
        for i in range(len(cs)):
            if len(cs) > 1:
                yield dict(kind="cwseq", nobj=case["nobj"], calls=cs[:i] + cs[i + 1:])
    if case.get("kind") == "seq":
        cs = case["cases"]
        for i in range(len(cs)):
            if len(cs) > 1:
                yield dict(kind="seq", cases=cs[:i] + cs[i + 1:])
        if len(cs) == 1:
            yield cs[0]


def shrink(case):
    """Smaller candidates — but only ones that fail when run ALONE in a fresh interpreter.  An implementation that keeps
    state in a class or a module makes everything after the first few cases of this process fail; a case shrunk against
    that background (or first noticed against it) would not replay.  If `case` itself does not fail alone, the candidate
    is the run of this process so far, cut down (in fresh interpreters) to the cases that are needed."""
    import time
    global _LOG_OPEN
    t0 = time.time()
    log = list(_RUN_LOG) if _LOG_OPEN else []
    _LOG_OPEN = False
    alone = fresh_signatures(case)
    if alone is None:
        # no second interpreter to be had: shrink in this one
        yield from _shrink_plain(case)
        return
    if not alone and case.get("kind") != "seq":
        hist = []
        for c in log:
            if c is case or c == case:
                break
            if c.get("kind") != "nd":           # (only exercises `re`)
                hist.append(c)
        cur = hist + [case]
        if not fresh_signatures(dict(kind="seq", cases=cur), timeout=120):
            return
        # ddmin over the history (the failing case stays last)
        n = 2
        while len(cur) > 2 and time.time() - t0 < 40:
            h = cur[:-1]
            size = max(1, len(h) // n)
            for i in range(0, len(h), size):
                cand = h[:i] + h[i + size:] + [case]
                if fresh_signatures(dict(kind="seq", cases=cand)):
                    cur, n = cand, max(n - 1, 2)
                    break
                if time.time() - t0 > 40:
                    break
            else:
                if size == 1:
                    break
                n = min(n * 2, len(h))
        yield dict(kind="seq", cases=cur)
        return
    for cand in _shrink_plain(case):
        if time.time() - t0 > 12:
            return
        if fresh_signatures(cand):
            yield cand
