"""C04 — a completed transfer is byte-exact; success is never reported otherwise.

Transit world.  REAL code on both ends of an in-memory pipe, inside a tempfile sandbox:

  sender   : cmd_send.Sender._build_offer, _handle_answer, _send_file (twisted FileSender, hashlib)
  receiver : cmd_receive.Receiver._parse_offer -> _handle_file/_handle_directory/_handle_text,
             _decide_destname, _ask_permission (accept_file), _send_permission, _establish_transit,
             _transfer_data, _write_file, _write_directory/_extract_file, _close_transit
  pipe     : two transit.Connection objects put into 'records' state by their own
             _negotiationSuccessful(), owned by a real TransitSender / TransitReceiver holding the same
             transit key (real HKDF record keys, real NaCl SecretBox), real FileConsumer.

Stubbed (collaborators only, nothing under /repo is patched): the wormhole object (records
send_message), `_transit_sender` / `_transit_receiver` (an object whose connect() returns a Deferred the
harness fires with the Connection), the TCP transports (harness.fakes.FakeTransport; the harness moves,
cuts, flips and chunks the bytes between them and calls connectionLost), tqdm disabled by
hide_progress, stdout/stderr are StringIO.
"""
import gc
import io
import json
import os
import random
import shutil
import stat
import tempfile
import zlib
from types import SimpleNamespace

from nacl.secret import SecretBox
from twisted.internet import defer
from twisted.internet.task import Clock
from twisted.python.failure import Failure

from wormhole import transit
from wormhole.cli import cmd_receive, cmd_send
from wormhole.timing import DebugTiming
from wormhole.util import bytes_to_dict, dict_to_bytes

from ..core import Result
from ..fakes import FakeTransport, hx

ID = "C04"
PROP_MODULES = ["WV.Props.C04"]
TRUSTED = [
    "XSalsa20-Poly1305 as C06's IdealFor (per direction: only the peer's sealings open under the receive key). The transit record "
    "layer itself is no longer assumed: the net_* theorems compose the Xfer model with C06's Connection model and hold for every "
    "byte sequence/chunking/loss schedule at the receiving connection and every C06 operation sequence at the sender's",
    "SHA-256 collision freedom and hashlib's streaming law (Hash.Ideal; identity hash in the driver)",
    "zipstream / zipfile round trip (Zip.Ideal; exercised by the directory cases, compared tree against tree)",
    "json codec of the ack record (AckCodec.Ideal: round trip of {ack: ok, sha256: hex}; real json runs in every case)",
    "Python repr() for text mode: not modelled (needs CPython's Unicode isprintable tables and the quote-selection rule); oracle-only: "
    "independent unescape of the printed line must give back the message, no control characters printed",
    "twisted.protocols.basic.FileSender (its CHUNK_SIZE is extracted; its read loop is modelled and compared on every case)",
    "POSIX rename/open('wb') semantics of the sandbox filesystem (the model's positional fileWrite + truncating open)",
]
RULE = ("transit-world transfers: file sizes {0,1,CHUNK±1,4*CHUNK±1,8*CHUNK±1,random<=400kB}, directory trees, text; record-aligned, "
        "random and 1-byte chunkings; receiver attaching its consumer after 0..all records; cut points at every record boundary and "
        "mid-record; single bit flips (length prefix, nonce, body); ack honest/dropped/flipped/forged (wrong hash, no hash, not ok, "
        "garbage, junk hash, empty); source growing after the offer; whole ciphertext records replayed / duplicated / swapped / "
        "withheld by a man in the middle, optionally followed by a cut; a NAME.tmp already in the receive directory (longer, equal, "
        "shorter; planted, or left behind by a real interrupted transfer run first in the same sandbox); payload content classes "
        "(pseudo-random, all-zero, all-0xFF, one repeated byte, random with an all-zero tail/head/middle block of 1..2*CHUNK bytes; "
        "also as members of directory trees and as all-zero records in the record-level stream); texts, file names, directory names "
        "and tree members that are not NFC; acks whose sha256 member is present but not the hex string (falsy JSON values included); "
        "deep trees unpacked below a receive directory with a much longer path (members that cannot be created: ENAMETOOLONG); tree members (files and empty directories) whose names contain backslashes, drive colons, "
        "wildcards, quotes, <>|, trailing dots/spaces, DEL and control characters, DOS device names (the received tree is compared "
        "with the sent one by exact relative names and kinds); names (NFD, singleton signs, Hangul jamo, reordered combining marks, mixes), the offer travelling "
        "through the real Sender._send_data / Receiver._get_data (dict_to_bytes / bytes_to_dict); plus an adversarial record-level stream against the real "
        "Receiver (over/under-long, empty records, loss before attach); non-trivial = reached a transfer outcome; distinct = "
        "distinct canonical output traces")

CHUNK = cmd_send.basic.FileSender.CHUNK_SIZE
KEY = bytes(range(32))
FRAME_OVERHEAD = 4 + SecretBox.NONCE_SIZE + 16


# ---------------------------------------------------------------------------
# small helpers

def adler(b):
    return zlib.adler32(b) & 0xffffffff


def payload_bytes(size, seed):
    r = random.Random(seed)
    if size <= 64:
        return bytes(r.randrange(256) for _ in range(size))
    block = bytes(r.randrange(256) for _ in range(251))
    out = (block * (size // 251 + 1))[:size]
    # make the chunks differ from each other
    b = bytearray(out)
    for i in range(0, size, 4093):
        b[i] = (b[i] + i // 4093) % 256
    return bytes(b)


def make_content(size, seed, fill=None):
    """payload CONTENT classes: fill = None/"rand" | "zero" | "ff" | ["byte", b] | ["ztail", n] | ["zhead", n] | ["zmid", off, n]
    (n zero bytes at the end / at the start / from offset off; everything else pseudo-random)"""
    if fill in (None, "rand"):
        return payload_bytes(size, seed)
    if fill == "zero":
        return bytes(size)
    if fill == "ff":
        return b"\xff" * size
    kind = fill[0]
    if kind == "byte":
        return bytes([fill[1] % 256]) * size
    b = bytearray(payload_bytes(size, seed))
    # keep the random part free of accidental zeros next to the zero block
    for i in range(len(b)):
        if b[i] == 0:
            b[i] = 1
    if kind == "ztail":
        n = min(fill[1], size)
        b[size - n:] = bytes(n)
    elif kind == "zhead":
        n = min(fill[1], size)
        b[:n] = bytes(n)
    elif kind == "zmid":
        off = min(fill[1], size)
        n = min(fill[2], size - off)
        b[off:off + n] = bytes(n)
    else:
        raise ValueError(fill)
    return bytes(b)


FILLS = (["zero", "ff", ["byte", 0x41], ["byte", 0x0a]]
         + [["ztail", n] for n in (1, 4095, 4096, 16384, 16385, 32768)]
         + [["zhead", n] for n in (1, 4096, 16384, 16385)]
         + [["zmid", 16384, 16384], ["zmid", 100, 4096], ["zmid", 16383, 16386], ["zmid", 4096, 4096]])


def outcome(d, sender=False):
    """canonical state of a watched Deferred: pending | ok | <error class>"""
    st = getattr(d, "_wv_state", None)
    if st is None:
        return "pending"
    if st[0] == "ok":
        return "ok"
    name = type(st[1]).__name__
    if name == "ValueError" and str(st[1]).startswith("malicious zipfile"):
        return "BadZipFile"                       # _extract_file refused a member
    if not sender and isinstance(st[1], OSError):
        return "BadZipFile"                       # a member could not be created: the extraction raised
    if name in ("JSONDecodeError", "UnicodeDecodeError", "AttributeError", "TypeError", "ValueError"):
        return "DecodeError"
    if sender and name == "AssertionError":      # bytes_to_dict: `assert isinstance(d, dict)`
        return "DecodeError"
    return name


def silence(d):
    """record how the Deferred ends (for `outcome`) and keep a failure from being logged as unhandled"""
    def _ok(res):
        d._wv_state = ("ok", res)
        return res

    def _bad(f):
        d._wv_state = ("failed", f.value)
        return None
    d.addCallbacks(_ok, _bad)


class FakeWormhole:
    def __init__(self):
        self.sent = []
        self.inbox = []

    def send_message(self, b):
        self.sent.append(b)

    def get_message(self):
        return defer.succeed(self.inbox.pop(0))


def over_the_wormhole(sender, offer, rx):
    """the offer as it really travels: the REAL Sender._send_data (dict_to_bytes) puts it on the sender's wormhole, the
    bytes are handed to the receiver's wormhole, the REAL Receiver._get_data (bytes_to_dict) takes it off"""
    w_s = FakeWormhole()
    sender._send_data({"offer": offer}, w_s)
    rx.w.inbox.append(w_s.sent[-1])
    got = []
    d = rx.r._get_data(rx.w)
    d.addCallbacks(got.append, lambda f: got.append(f))
    if not got or isinstance(got[0], Failure):
        raise RuntimeError("the offer did not arrive: %r" % (got,))
    return got[0]["offer"]


def cps(s):
    return " ".join("U+%04X" % ord(c) for c in s)


class FakeTransit:
    """stands in for TransitSender/TransitReceiver on the Sender/Receiver object: connect() only"""

    def __init__(self, d):
        self._d = d

    def connect(self):
        return self._d


def make_pipe():
    clock = Clock()
    ts = transit.TransitSender(None, no_listen=True, reactor=clock)
    tr = transit.TransitReceiver(None, no_listen=True, reactor=clock)
    ts.set_transit_key(KEY)
    tr.set_transit_key(KEY)
    cs = transit.Connection(ts, None, None, "sender-side")
    cr = transit.Connection(tr, None, None, "receiver-side")
    for c in (cs, cr):
        c.transport = FakeTransport()
        c.state = "go"  # what connection_ready() decided; _negotiationSuccessful moves it to "records"
        c._negotiationSuccessful()
    return ts, tr, cs, cr


def frame_with(key, nonce, record):
    enc = SecretBox(key).encrypt(record, nonce.to_bytes(24, "big"))
    return len(enc).to_bytes(4, "big") + bytes(enc)


def sender_args(cwd, what=None, text=None):
    return SimpleNamespace(timing=DebugTiming(), text=text, what=what, cwd=cwd, stderr=io.StringIO(), stdout=io.StringIO(),
                           hide_progress=True, ignore_unsendable_files=False, relay_url="ws://relay.invalid/v1")


def receiver_args(cwd):
    return SimpleNamespace(timing=DebugTiming(), cwd=cwd, stderr=io.StringIO(), stdout=io.StringIO(), hide_progress=True,
                           output_file=None, accept_file=True, relay_url="ws://relay.invalid/v1", verify=False)


def snapshot_tree(root):
    """{relpath: ('d', mode) | ('f', mode, bytes)}"""
    out = {}
    for dp, dns, fns in os.walk(root):
        for n in dns:
            p = os.path.join(dp, n)
            out[os.path.relpath(p, root)] = ("d",)
        for n in fns:
            p = os.path.join(dp, n)
            with open(p, "rb") as f:
                out[os.path.relpath(p, root)] = ("f", stat.S_IMODE(os.stat(p).st_mode), f.read())
    return out


def unescape_printed(s):
    """independent inverse of the receiver's terminal-safe escaping (a Python str repr without its quotes)"""
    out = []
    i = 0
    simple = {"\\": "\\", "'": "'", '"': '"', "n": "\n", "r": "\r", "t": "\t"}
    while i < len(s):
        c = s[i]
        if c != "\\":
            out.append(c)
            i += 1
            continue
        if i + 1 >= len(s):
            return None
        k = s[i + 1]
        if k in simple:
            out.append(simple[k])
            i += 2
        elif k in "xuU":
            n = {"x": 2, "u": 4, "U": 8}[k]
            h = s[i + 2:i + 2 + n]
            if len(h) != n:
                return None
            out.append(chr(int(h, 16)))
            i += 2 + n
        else:
            return None
    return "".join(out)


# ---------------------------------------------------------------------------
# the receiver end, shared by the two streams

class RxEnd:
    def __init__(self, dst, cr):
        self.cr = cr
        self.r = cmd_receive.Receiver(receiver_args(dst), Clock())
        self.args = self.r.args
        self.d_conn = defer.Deferred()
        self.r._transit_receiver = FakeTransit(self.d_conn)
        self.w = FakeWormhole()
        self.started = False
        self.f = None
        self.d = None
        self.dirmode = False

    def offer(self, offer):
        self.dirmode = "directory" in offer
        self.d = self.r._parse_offer(offer, self.w)
        silence(self.d)

    def connect(self):
        self.started = True
        self.d_conn.callback(self.cr)

    @property
    def dest(self):
        return getattr(self.r, "abs_destname", None)

    def final(self):
        p = self.dest
        if p is None or not os.path.lexists(p):
            return "none"
        if os.path.isdir(p):
            return "dir"
        with open(p, "rb") as f:
            b = f.read()
        return f"file:{len(b)}:{adler(b)}"

    def summary(self):
        cr = self.cr
        hung = 1 if cr.state == "hung up" else 0
        closed = (cr.transport.lost - hung) > 0
        return (f"cons={1 if cr._consumer is not None else 0} written={cr._consumer_bytes_written} queued={len(cr._inbound_records)} "
                f"started={1 if self.started else 0} result={outcome(self.d)} tmp={1 if os.path.lexists(self.dest + '.tmp') else 0} "
                f"final={self.final()} acks={len(cr.transport.written) // 2} closed={1 if closed else 0}")


def feed(conn, data):
    """dataReceived as Twisted would call it; an exception leaving it is logged by Twisted and the transport is dropped
    (Connection.dataReceived has already called loseConnection itself)."""
    try:
        conn.dataReceived(data)
        return None
    except Exception as e:  # noqa
        return type(e).__name__


# ---------------------------------------------------------------------------
# stream 1: whole transfers

def fix_times(root):
    """zip members carry mtimes: pin them so that a case replays byte for byte"""
    for dp, dns, fns in os.walk(root, topdown=False):
        for n in fns + dns:
            os.utime(os.path.join(dp, n), (1700000000, 1700000000))
    os.utime(root, (1700000000, 1700000000))


def write_tree(root, tree, seed):
    os.makedirs(root)
    for i, ent in enumerate(tree):
        rel, size = ent[0], ent[1]
        fill = ent[2] if len(ent) > 2 else None
        p = os.path.join(root, rel)
        if size is None:
            os.makedirs(p, exist_ok=True)
        else:
            os.makedirs(os.path.dirname(p), exist_ok=True)
            with open(p, "wb") as f:
                f.write(make_content(size, seed + i, fill))
            if i % 3 == 1:
                os.chmod(p, 0o755)


def fault_position(fault, offs, total):
    at = fault["at"]
    if at[0] == "ratio":
        return min(total, total * at[1] // (1 << 20))
    if at[0] == "rec":
        j, off = at[1], at[2]
        nrec = len(offs) - 1
        if nrec == 0:
            return 0
        j = min(j, nrec - 1)
        base = offs[j] if off >= 0 else offs[j + 1]
        return max(0, min(total, base + off))
    return max(0, min(total, at[1]))


def chunk_stream(stream, mode, seed, offs):
    if mode == "all" or not stream:
        return [stream] if stream else []
    if mode == "rec":
        cuts = sorted(set(offs))
        return [stream[a:b] for a, b in zip(cuts, cuts[1:]) if b > a] + ([stream[cuts[-1]:]] if cuts[-1] < len(stream) else [])
    if mode == "one" and len(stream) <= 3000:
        return [stream[i:i + 1] for i in range(len(stream))]
    r = random.Random(seed)
    out, i = [], 0
    while i < len(stream):
        n = r.choice([1, 2, 3, 4, 5, 23, 24, 28, 40, 44, 1000, CHUNK, CHUNK + 44, CHUNK + 45, 70000])
        out.append(stream[i:i + n])
        i += n
    return out



def _lose(conn, case):
    """the TCP connection goes away, reported the way Twisted reports it: an orderly end of stream (FIN: the peer
    exited, was interrupted, the relay dropped the pair) as Failure(ConnectionDone), a reset as Failure(ConnectionLost),
    or with no reason at all (what the suite's own fakes do).  Which one is part of the case (`loss`; derived from the
    chunking seed when absent); the property does not depend on it: a transfer cut short is never a success."""
    from twisted.internet.error import ConnectionDone, ConnectionLost
    how = case.get("loss") or ["none", "done", "lost"][(case.get("cseed") or 0) % 3]
    if how == "done":
        conn.connectionLost(Failure(ConnectionDone()))
    elif how == "lost":
        conn.connectionLost(Failure(ConnectionLost()))
    else:
        conn.connectionLost()


def run_xfer(case):
    box = tempfile.mkdtemp(prefix="wv_c04_")
    try:
        prior = case.get("prior")
        if prior:
            # an earlier transfer into the SAME receive directory (typically interrupted: it leaves NAME.tmp behind)
            r0 = _run_xfer(dict(prior, name=case.get("name", "payload.bin")), box, "src0")
            gc.collect()
            r = _run_xfer(case, box, "src")
            r.violations = [(sig, "(first transfer) " + msg) for sig, msg in r0.violations] + r.violations
            r.tags = r.tags + ["prior:" + t for t in r0.tags if t.startswith(("rx:", "fault:"))]
            return r
        return _run_xfer(case, box, "src")
    finally:
        shutil.rmtree(box, ignore_errors=True)


PATH_MAX = 4096


def _run_xfer(case, box, srcname):
    srcdir = os.path.join(box, srcname)
    dstdir = os.path.join(box, "dst")
    # the receiver may work in a directory with a much longer path than the sender's: paths that were fine when the tree
    # was read can then be impossible to create when it is unpacked (ENAMETOOLONG at the receiver only)
    for i in range(case.get("dst_depth", 0)):
        dstdir = os.path.join(dstdir, "p" * 200)
    os.makedirs(srcdir)
    os.makedirs(dstdir, exist_ok=True)
    pl = case["payload"]
    name = case.get("name", "payload.bin")
    tags = ["kind:" + pl["type"]]
    lines, exp, viol = [], [], []

    # ---- text mode: no transit at all
    if pl["type"] == "text":
        text = pl["text"]
        s = cmd_send.Sender(sender_args(srcdir, text=text), Clock())
        offer, fd = s._build_offer()
        s._fd_to_send = fd
        ts, tr, cs, cr = make_pipe()
        rx = RxEnd(dstdir, cr)
        rx.offer(over_the_wormhole(s, offer, rx))
        printed = rx.args.stdout.getvalue()
        rs = outcome(rx.d)
        answer = bytes_to_dict(rx.w.sent[-1]).get("answer") if rx.w.sent else None
        forged = case.get("textack", "honest")
        if forged == "honest":
            ans = answer
        elif forged == "missing":
            ans = {}
        else:
            ans = {"message_ack": forged}
        d_s = s._handle_answer(ans)
        silence(d_s)
        ss = outcome(d_s, sender=True)
        fld = "none" if "message_ack" not in (ans or {}) else "s:" + hx(ans["message_ack"].encode())
        lines.append("textack " + fld)
        exp.append(ss)
        back = unescape_printed(printed[:-1]) if printed.endswith("\n") else None
        if rs == "ok" and back != text:
            viol.append(("text-not-exact", f"printed {printed!r} decodes to [{cps(back or '')}], the sender's text is [{cps(text)}]"))
        if rs == "ok" and any((ord(c) < 32 or ord(c) == 127) for c in printed[:-1]):
            viol.append(("text-not-terminal-safe", f"printed {printed!r} contains control characters"))
        if ss == "ok" and (forged not in ("honest", "ok") or rs != "ok"):
            viol.append(("sender-success-without-ack", f"text answer {ans!r}, receiver {rs}"))
        if os.listdir(dstdir):
            viol.append(("text-wrote-files", str(os.listdir(dstdir))))
        tags += ["textack:" + forged, "tx:" + ss]
        return Result(lines, exp, viol, tags)

    # ---- file / directory
    if pl["type"] == "file":
        content = make_content(pl["size"], pl.get("pseed", 1), pl.get("fill"))
        with open(os.path.join(srcdir, name), "wb") as f:
            f.write(content)
    else:
        write_tree(os.path.join(srcdir, name), pl["tree"], pl.get("pseed", 1))
        fix_times(os.path.join(srcdir, name))
    s = cmd_send.Sender(sender_args(srcdir, what=name), Clock())
    offer, fd = s._build_offer()
    s._fd_to_send = fd
    grow = case.get("grow", 0)
    if grow and pl["type"] == "file":
        extra = payload_bytes(grow, 777)
        with open(os.path.join(srcdir, name), "ab") as f:
            f.write(extra)
        content += extra
        tags.append("grow")
    ts, tr, cs, cr = make_pipe()
    rx = RxEnd(dstdir, cr)
    # a NAME.tmp already lying in the receive directory: planted by the case, or left by the `prior` transfer
    tmp_path = os.path.join(dstdir, name + ".tmp")
    if case.get("stale") is not None and pl["type"] == "file":
        with open(tmp_path, "wb") as f:
            f.write(bytes([0xAA]) * case["stale"])
    stale_len = os.path.getsize(tmp_path) if (pl["type"] == "file" and os.path.lexists(tmp_path)) else None
    if stale_len is not None:
        tags.append("stale-tmp:" + ("longer" if stale_len > len(content) else "equal" if stale_len == len(content) else "shorter"))
    before = snapshot_tree(dstdir)
    rx.offer(over_the_wormhole(s, offer, rx))
    if outcome(rx.d) != "pending":
        # the offer was turned down before any transit (e.g. the name already exists): nothing may change on disk
        try:
            fd.close()
        except Exception:
            pass
        tags.append("rx-rejected:" + outcome(rx.d))
        if outcome(rx.d) == "ok":
            viol.append(("success-without-transfer", "receiver reported success without receiving anything"))
        if snapshot_tree(dstdir) != before:
            viol.append(("rejected-offer-changed-files", f"receive directory changed although the offer was rejected: {sorted(os.listdir(dstdir))}"))
        return Result(lines, exp, viol, tags, nontrivial=False)
    xfersize = rx.r.xfersize
    # zipstream archives the root of an EMPTY directory as the member "./", which _extract_file's guard refuses
    refuse = pl["type"] == "dir" and not pl["tree"]
    if refuse:
        tags.append("obs:empty-directory-refused")
    # a member whose path below the receiver's destination does not fit PATH_MAX cannot be created: zf.extract raises
    # OSError(ENAMETOOLONG) after the members before it have been unpacked (predicted from the case, not from the run)
    toolong = pl["type"] == "dir" and any(len(os.fsencode(os.path.join(dstdir, name, ent[0]))) >= PATH_MAX - 1 for ent in pl["tree"])
    if toolong:
        refuse = True
        tags.append("extract:ENAMETOOLONG")
    lines.append(f"rx {'dir' if rx.dirmode else 'file'} {xfersize}" + (" refuse" if refuse else "") + (" partial" if toolong else "")
                 + (f" stale {stale_len}" if stale_len is not None else ""))
    exp.append(rx.summary())

    # the receiver's permission goes back over the (fake) wormhole; the real sender starts sending
    answer = bytes_to_dict(rx.w.sent[-1])["answer"]
    s._transit_sender = FakeTransit(defer.succeed(cs))
    d_s = s._handle_answer(answer)
    silence(d_s)
    guard = 0
    while cs.transport.producer is not None:
        cs.transport.producer[0].resumeProducing()
        guard += 1
        if guard > 100000:
            raise RuntimeError("FileSender does not terminate")
    try:
        fd.close()
    except Exception:
        pass
    writes = cs.transport.written
    frames = [writes[i] + writes[i + 1] for i in range(0, len(writes) - 1, 2)]
    box_s = SecretBox(ts._sender_record_key())
    plain = [bytes(box_s.decrypt(fr[4:])) for fr in frames]
    sent_bytes = b"".join(plain)
    if pl["type"] == "dir":
        content = sent_bytes      # what the sender read from the zip stream
    lines.append("send " + hx(content))
    exp.append(f"n={len(plain)} lens={','.join(str(len(p)) for p in plain) if plain else '-'} adler={adler(sent_bytes)}")
    src_snapshot = snapshot_tree(os.path.join(srcdir, name)) if pl["type"] == "dir" else None

    stream = b"".join(frames)
    offs = [0]
    for fr in frames:
        offs.append(offs[-1] + len(fr))
    total = len(stream)
    fault = case.get("fault")
    first_bad = len(frames)       # index of the first record that does not arrive intact
    cut = False
    if fault:
        pos = fault_position(fault, offs, total) if "at" in fault else 0
        if fault["kind"] == "cut":
            stream = stream[:pos]
            cut = True
            first_bad = max([i for i in range(len(frames) + 1) if offs[i] <= pos])
            tags.append("fault:cut@" + ("end" if pos == total else "boundary" if pos in offs else "mid"))
        elif fault["kind"] == "flip" and total > 0:
            pos = min(pos, total - 1)
            stream = stream[:pos] + bytes([stream[pos] ^ (1 << (fault.get("bit", 0) % 8))]) + stream[pos + 1:]
            first_bad = max([i for i in range(len(frames)) if offs[i] <= pos])
            rel = pos - offs[first_bad]
            tags.append("fault:flip@" + ("len" if rel < 4 else "nonce" if rel < 28 else "body"))
        elif fault["kind"] in ("replay", "dup", "swap", "droprec"):
            # a man in the middle working on whole ciphertext records: he has no key, but he can re-send, re-order or
            # withhold complete length-prefixed records, and cut the stream afterwards
            n = len(frames)
            fr2 = list(frames)
            fb = None
            k = fault["kind"]
            if k == "replay" and n >= 2:
                j = max(1, min(fault.get("dst", n - 1), n - 1))
                i = max(0, min(fault.get("src", j - 1), j - 1))
                fr2[j] = frames[i]
                fb = j
            elif k == "dup" and n >= 1:
                i = min(fault.get("src", 0), n - 1)
                fr2.insert(i + 1, frames[i])
                fb = i + 1
            elif k == "swap" and n >= 2:
                a, b = sorted((min(fault.get("a", 0), n - 1), min(fault.get("b", 1), n - 1)))
                if a < b:
                    fr2[a], fr2[b] = frames[b], frames[a]
                    fb = a
            elif k == "droprec" and n >= 1:
                j = min(fault.get("rec", 0), n - 1)
                del fr2[j]
                fb = j
            if fb is None:
                fault = None
            else:
                keep = fault.get("keep")
                tags.append("fault:" + k + ("+cut" if keep is not None else ""))
                if keep is not None:
                    keep = max(0, min(keep, len(fr2)))
                    fr2 = fr2[:keep]
                    cut = True
                    fb = min(fb, keep)
                first_bad = fb
                stream = b"".join(fr2)
        else:
            fault = None
    if not fault:
        tags.append("fault:none")

    early = case.get("early", 0)
    delivered = 0          # intact records completely handed to the receiving Connection
    fed = 0
    dead = False
    lost_before_connect = case.get("lost_before_connect", False)

    def maybe_connect(force=False):
        if not rx.started and (force or delivered >= early):
            rx.connect()
            if cr._consumer is not None:
                rx.f = cr._consumer._f          # only to close it at "process exit", see the end of this function
            lines.append("connect")
            exp.append(rx.summary())

    for ch in chunk_stream(stream, case.get("chunk", "rand"), case.get("cseed", 0), offs):
        maybe_connect()
        err = feed(cr, ch)
        fed += len(ch)
        now = len([i for i in range(first_bad) if offs[i + 1] <= fed])
        if now > delivered:
            lines.append(f"deliver {now - delivered}")
            exp.append(rx.summary())
            delivered = now
        if cr.state == "hung up":
            dead = True
            tags.append("rx-hungup:" + str(err))
            break
    if not (lost_before_connect and (cut or dead)):
        maybe_connect(force=True)
    got_bytes = sum(len(p) for p in plain[:delivered])
    short = got_bytes < xfersize
    stuck = bool(fault) and not cut and not dead and delivered < len(frames)
    if stuck:
        tags.append("rx-stuck")
    conn_lost = False
    if cut or dead or stuck:
        # the TCP connection is gone for both ends
        _lose(cr, case)
        _lose(cs, case)
        conn_lost = True
        lines.append("lost")
        exp.append(rx.summary())
        maybe_connect(force=True)

    # ---- the acknowledgement
    ackmode = case.get("ack", "honest")
    back = b"".join(cr.transport.written)
    key_r = tr._sender_record_key()
    sha_hex = __import__("hashlib").sha256
    if conn_lost:
        lines.append("ack none")
        ackmode = "conn-lost"
    elif ackmode == "honest":
        if back:
            feed(cs, back)
        _lose(cs, case)
        lines.append("ackhonest")
    elif ackmode in ("drop", "flip"):
        if ackmode == "flip" and back:
            p = case.get("ackpos", 0) % len(back)
            feed(cs, back[:p] + bytes([back[p] ^ 1]) + back[p + 1:])
        _lose(cs, case)
        lines.append("ack none")
    else:
        other = payload_bytes(len(content) + 1, 4242) if ackmode == "wronghash" else content
        if ackmode == "wronghash":
            ack, line = {"ack": "ok", "sha256": sha_hex(other).hexdigest()}, "ack dict s:6f6b of:" + hx(other)
        elif ackmode == "samehash":
            ack, line = {"ack": "ok", "sha256": sha_hex(content).hexdigest()}, "ack dict s:6f6b of:" + hx(content)
        elif ackmode == "nohash":
            ack, line = {"ack": "ok"}, "ack dict s:6f6b none"
        elif ackmode == "notok":
            ack, line = {"ack": "failed", "sha256": sha_hex(content).hexdigest()}, "ack dict s:" + hx(b"failed") + " of:" + hx(content)
        elif ackmode == "junkhash":
            # present, but not the hex string: any JSON value, the falsy ones included ("", null, 0, false, [], {})
            ack, line = {"ack": "ok", "sha256": case.get("junkval", 5)}, "ack dict s:6f6b junk"
            tags.append("junkval:" + json.dumps(case.get("junkval", 5)))
        elif ackmode == "uphash":
            ack, line = {"ack": "ok", "sha256": sha_hex(content).hexdigest().upper() + "x"}, "ack dict s:6f6b junk"
        elif ackmode == "noack":
            ack, line = {}, "ack dict none none"
        elif ackmode == "garbage":
            ack, line = None, "ack garbage"
        else:
            raise ValueError(ackmode)
        rec = dict_to_bytes(ack) if ack is not None else case.get("garbage", "[1, 2").encode()
        feed(cs, frame_with(key_r, 0, rec))
        _lose(cs, case)
        lines.append(line)
    ss = outcome(d_s, sender=True)
    exp.append(ss)
    rs = outcome(rx.d)
    tags += ["ack:" + ackmode, "rx:" + rs, "tx:" + ss, "early:" + ("0" if early == 0 else "some")]
    if xfersize in (0, 1) or xfersize % CHUNK in (0, 1, CHUNK - 1):
        tags.append("size:boundary")

    # ---- oracle: the property on what the two real ends did and what is on disk
    dest = rx.dest
    final_exists = os.path.lexists(dest)
    tmp_exists = os.path.lexists(dest + ".tmp")
    others = sorted(set(os.listdir(dstdir)) - {os.path.basename(dest), os.path.basename(dest) + ".tmp"})
    if others:
        viol.append(("stray-files", f"unexpected entries in the receive directory: {others}"))
    if rs == "ok" and (os.path.basename(dest) != name or not os.path.lexists(os.path.join(dstdir, name))):
        viol.append(("name-not-exact", f"the sender sent {name!r} [{cps(name)}], the receiver created "
                     f"{os.path.basename(dest)!r} [{cps(os.path.basename(dest))}]"))

    def final_matches_source():
        if pl["type"] == "file":
            if not os.path.isfile(dest):
                return False, "final destination is not a regular file"
            with open(dest, "rb") as f:
                got = f.read()
            if got != content:
                n = next((i for i, (a, b) in enumerate(zip(got, content)) if a != b), min(len(got), len(content)))
                return False, f"final file has {len(got)} bytes, sender read {len(content)}; first difference at offset {n}"
            return True, ""
        got = snapshot_tree(dest) if os.path.isdir(dest) else None
        if got != src_snapshot:
            g = got or {}
            missing = sorted(k for k in src_snapshot if k not in g)
            extra = sorted(k for k in g if k not in src_snapshot)
            changed = sorted(k for k in g if k in src_snapshot and g[k] != src_snapshot[k])
            return False, (f"received tree differs from the tree sent (exact relative names, kinds, modes, bytes): sent but not received "
                           f"{missing[:5]!r}; received but not sent {extra[:5]!r}; different kind/mode/content {changed[:5]!r}")
        return True, ""

    if rs == "ok" and ss == "ok":
        ok, why = final_matches_source()
        if not ok:
            viol.append(("both-success-not-exact", why))
    if rs == "ok" and not grow:
        ok, why = final_matches_source()
        if not ok:
            viol.append(("receiver-success-not-exact", why))
    if rs == "ok" and grow and pl["type"] == "file":
        with open(dest, "rb") as f:
            got = f.read()
        if got != content[:xfersize]:
            viol.append(("receiver-success-not-exact", "final file is not the first xfersize bytes the sender read"))
    if short and (rs == "ok" or ss == "ok"):
        viol.append(("success-after-cut", f"receiver got {got_bytes} of {xfersize} bytes ({delivered}/{len(frames)} records), "
                     f"receiver={rs} sender={ss}"))
    if short and final_exists:
        viol.append(("final-after-cut", f"receiver got {got_bytes} of {xfersize} bytes but {os.path.basename(dest)!r} exists "
                     f"(tmp exists: {tmp_exists})"))
    if rs != "ok" and final_exists and pl["type"] == "file":
        viol.append(("final-without-success", f"receiver={rs} but the final destination exists"))
    if ss == "ok":
        if ackmode in ("drop", "flip", "conn-lost", "wronghash", "notok", "garbage", "junkhash", "uphash", "noack"):
            viol.append(("sender-success-without-matching-ack", f"ack mode {ackmode}: sender reported success"))
        elif ackmode == "honest" and rs != "ok":
            viol.append(("sender-success-without-matching-ack", f"receiver={rs} (sent no ack) but sender reported success"))
        elif ackmode == "nohash":
            tags.append("obs:ack-without-hash-accepted")
    # the receiving process exits: a file object left open by a failed transfer is closed (and flushed) by the interpreter
    if rx.f is not None and not rx.f.closed:
        rx.f.close()
    return Result(lines, exp, viol, tags)


# ---------------------------------------------------------------------------
# stream 2 (adversarial): arbitrary records against the real Receiver

def run_records(case):
    box = tempfile.mkdtemp(prefix="wv_c04_")
    try:
        dstdir = os.path.join(box, "dst")
        os.makedirs(dstdir)
        ts, tr, cs, cr = make_pipe()
        rx = RxEnd(dstdir, cr)
        xfersize = case["xfersize"]
        rx.offer({"file": {"filename": case.get("name", "x.bin"), "filesize": xfersize}})
        lines = [f"rx file {xfersize}"]
        exp = [rx.summary()]
        recs = [bytes.fromhex(h) for h in case["recs"]]
        i = 0
        got = b""
        lost = False
        for ev in case["script"]:
            if ev == "r" and i < len(recs):
                cs.send_record(recs[i])
                wire = b"".join(cs.transport.written)
                cs.transport.written.clear()
                if not lost:
                    feed(cr, wire)
                    got += recs[i]
                    lines.append("rec " + hx(recs[i]))
                    exp.append(rx.summary())
                i += 1
            elif ev == "c" and not rx.started:
                rx.connect()
                lines.append("connect")
                exp.append(rx.summary())
            elif ev == "l" and not lost:
                lost = True
                _lose(cr, case)
                lines.append("lost")
                exp.append(rx.summary())
        rs = outcome(rx.d)
        viol = []
        dest = rx.dest
        tags = ["kind:records", "rx:" + rs]
        if rs == "ok":
            with open(dest, "rb") as f:
                fin = f.read()
            if len(fin) != xfersize or not got.startswith(fin):
                viol.append(("receiver-success-not-exact", f"final has {len(fin)} bytes, announced {xfersize}; not the bytes received"))
        if len(got) < xfersize and rs == "ok":
            viol.append(("success-after-cut", f"receiver got {len(got)} of {xfersize} bytes and reported success"))
        if (len(got) < xfersize or rs != "ok") and os.path.lexists(dest):
            viol.append(("final-without-success", f"receiver={rs}, got {len(got)} of {xfersize}, but the final destination exists"))
        return Result(lines, exp, viol, tags)
    finally:
        shutil.rmtree(box, ignore_errors=True)


def run_case(case):
    if case["kind"] == "xfer":
        return run_xfer(case)
    if case["kind"] == "records":
        return run_records(case)
    raise ValueError(case["kind"])


# ---------------------------------------------------------------------------
# generators

SIZES = [0, 1, CHUNK - 1, CHUNK, CHUNK + 1, 4 * CHUNK - 1, 4 * CHUNK, 4 * CHUNK + 1, 8 * CHUNK - 1, 8 * CHUNK + 1]
TREES = [
    [["a.txt", 10], ["sub/b.bin", 20000], ["sub/empty", None], ["ä b/-x", 0]],
    [],
    [["only-empty-dir", None]],
    [["d1/d2/d3/deep", 3], ["d1/.hidden", 70], ["z", CHUNK + 5]],
    [["big", 3 * CHUNK + 7], ["x y", 1]],
    # names INSIDE the tree with characters that are ordinary on POSIX but special somewhere else: backslash (a path separator
    # on Windows), drive colons, wildcards, quotes, angle brackets, pipes, trailing dots / spaces, DEL and control characters,
    # reserved DOS device names; for files and for empty directories, at top level and nested
    [["C:\\Users\\me\\report.doc", 11], ["docs/a\\b", 5], ["docs/a", 6], ["empty\\dir", None], ["sub\\file.txt", 3], ["\\lead", 1],
     ["trail\\", 2]],
    [["q?*.txt", 4], ['say "x"', 5], ["<in>|out", 6], ["colon:stream", 7], ["trail. ", 8], ["dot.", 9], [" lead", 1], ["del\x7f", 2],
     ["ctl\x01\x1f", 3], ["tab\there", 4], ["new\nline", 5], ["CON", 6], ["aux.txt", 7], ["e?/d*\\e", None], ["e?/ \\ ", 3]],
]
SPECIAL_COMPONENTS = ["a\\b", "\\", "x\\", "\\x", "c:", "C:\\d", "s*", "w?", 'q"', "<", ">", "p|", "t.", "t ", "d\x7f", "c\x02", "n\nl", "NUL", "a\\b\\c"]
TEXTS = ["hello", "it's", 'say "hi"', "both ' and \"", "back\\slash", "line1\nline2", "tab\there", "\x1b[31mred\x07", "ünï©ode ✓",
         "\U0001f600", "\\n is not a newline", "trailing\\", "\x7f\x00\x01", "a" * 300, " sep", "'", '"', "\\'"]
# strings that are NOT in Unicode normalisation form C (or that NFC/NFKC would change): a codec that normalises on the way
# alters them.  NFD accents, ANGSTROM / OHM / KELVIN signs (singleton decompositions), conjoining Hangul jamo, combining marks in
# non-canonical order, a precomposed + decomposed mix, a composition exclusion, a CJK compatibility ideograph, a ligature.
NON_NFC = ["Cafe\u0301", "re\u0301sume\u0301", "A\u030angstro\u0308m", "\u212bngstro\u0308m", "\u2126 ohm \u212a", "\u1112\u1161\u11ab\u1100\u1173\u11af",
           "q\u0307\u0323", "q\u0323\u0307", "\u00e9e\u0301", "\u0958", "\uf900x", "\ufb01le", "o\u0302\u0303 o\u0303\u0302", "\u1e9b\u0323", "\u0041\u0301\u0328"]

JUNKVALS = ["", None, 0, False, [], {}, 5, 1.5, True, "zz", "0", [1], {"a": 1}, " "]
FORGED = ["drop", "flip", "wronghash", "samehash", "nohash", "notok", "junkhash", "uphash", "noack", "garbage"]


def xfer(payload, **kw):
    c = dict(kind="xfer", payload=payload)
    c.update(kw)
    return c


def filep(size, pseed=1, fill=None):
    d = dict(type="file", size=size, pseed=pseed)
    if fill is not None:
        d["fill"] = fill
    return d


def corpus():
    out = []
    for sz in SIZES:
        out.append(xfer(filep(sz), chunk="rand", cseed=sz))
    for sz in [0, 5, CHUNK + 1, 4 * CHUNK]:
        out.append(xfer(filep(sz), chunk="rec", early=99))       # consumer attached after everything is queued
        out.append(xfer(filep(sz), chunk="all", early=1))
    for sz in [1, CHUNK, CHUNK + 1, 2 * CHUNK + 100]:
        nrec = (sz + CHUNK - 1) // CHUNK
        for j in range(nrec):
            out.append(xfer(filep(sz), fault=dict(kind="cut", at=["rec", j, 0]), chunk="rand", cseed=j))
            out.append(xfer(filep(sz), fault=dict(kind="cut", at=["rec", j, 30]), chunk="rec"))
            out.append(xfer(filep(sz), fault=dict(kind="cut", at=["rec", j, -1]), chunk="rand", cseed=j + 7))
            for off in (1, 5, 27, 30, -1, -17):
                out.append(xfer(filep(sz), fault=dict(kind="flip", at=["rec", j, off], bit=off % 8), chunk="rand", cseed=off % 5))
        out.append(xfer(filep(sz), fault=dict(kind="cut", at=["ratio", 1 << 20]), chunk="rand"))   # after the last data byte
        # an ORDERLY end of stream (FIN) / a reset in the middle of the file, at a record boundary and inside a record
        for how in ("done", "lost"):
            out.append(xfer(filep(sz), fault=dict(kind="cut", at=["rec", nrec - 1, 0]), chunk="rec", loss=how))
            out.append(xfer(filep(sz), fault=dict(kind="cut", at=["rec", nrec - 1, 30]), chunk="rand", cseed=3, loss=how))
            out.append(xfer(filep(sz), fault=dict(kind="cut", at=["ratio", 1 << 19]), chunk="all", loss=how))
    out.append(xfer(filep(3 * CHUNK), fault=dict(kind="cut", at=["rec", 1, 100]), early=99, lost_before_connect=True))
    out.append(xfer(filep(40), fault=dict(kind="cut", at=["rec", 0, 10]), early=99, lost_before_connect=True))
    for sz in [0, 5, CHUNK + 1]:
        for a in FORGED:
            out.append(xfer(filep(sz), ack=a, chunk="rec"))
    for sz in [0, 7, CHUNK + 1]:
        for jv in JUNKVALS:
            out.append(xfer(filep(sz), ack="junkhash", junkval=jv, chunk="rec"))
    out.append(xfer(dict(type="dir", tree=TREES[0], pseed=3), name="d", ack="junkhash", junkval=""))
    out.append(xfer(dict(type="dir", tree=TREES[0], pseed=3), name="d", ack="junkhash", junkval=None))
    # a tree that fits below the sender's directory but not below the receiver's (much longer) one: the deep members cannot
    # be created there.  Also the same trees where everything fits (deep tree into a short path, shallow tree into a long one).
    deep = [["a.txt", 10]] + [["/".join(["L" * 200] * d) + "/f.bin", 20 + d] for d in (3, 16, 17)] + [["/".join(["L" * 200] * 17) + "/e", None]]
    out.append(xfer(dict(type="dir", tree=deep, pseed=6), name="deep", dst_depth=4, chunk="rec"))
    out.append(xfer(dict(type="dir", tree=deep, pseed=6), name="deep", dst_depth=0, chunk="rec"))
    out.append(xfer(dict(type="dir", tree=deep[:2], pseed=6), name="deep", dst_depth=3, chunk="rand"))
    out.append(xfer(dict(type="dir", tree=deep, pseed=6), name="deep", dst_depth=5, early=99, chunk="rand", cseed=3))
    out.append(xfer(filep(100), name="f" * 200, dst_depth=3))
    for g in ["", "null", "5", "\"ok\"", "[1]", "{"]:
        out.append(xfer(filep(9), ack="garbage", garbage=g))
    for sz, g in [(CHUNK, 10), (100, 10), (0, 5), (2 * CHUNK, 1), (2 * CHUNK, CHUNK)]:
        out.append(xfer(filep(sz), grow=g, chunk="rec"))
    for t in TREES:
        out.append(xfer(dict(type="dir", tree=t, pseed=3), name="the dir", chunk="rand", cseed=len(t)))
    out.append(xfer(dict(type="dir", tree=TREES[5], pseed=4), name="back\\slash dir", chunk="rec"))
    out.append(xfer(dict(type="dir", tree=TREES[6], pseed=4), name="d", early=99, chunk="rec"))
    out.append(xfer(dict(type="dir", tree=TREES[5], pseed=4), name="d", fault=dict(kind="cut", at=["ratio", 1 << 19])))
    out.append(xfer(dict(type="dir", tree=TREES[0], pseed=3), name="d", fault=dict(kind="cut", at=["ratio", 1 << 19])))
    out.append(xfer(dict(type="dir", tree=TREES[3], pseed=3), name="d", fault=dict(kind="flip", at=["ratio", 900000], bit=3)))
    out.append(xfer(dict(type="dir", tree=TREES[4], pseed=3), name="d", fault=dict(kind="cut", at=["rec", 99, -1])))
    out.append(xfer(dict(type="dir", tree=TREES[0], pseed=3), name="d", ack="wronghash"))
    out.append(xfer(dict(type="dir", tree=TREES[0], pseed=3), name="d", ack="drop"))
    # a NAME.tmp already in the receive directory: longer than, equal to, shorter than what comes in
    for sz, st in [(5, 100), (5, 5), (5, 2), (0, 50), (1, 0), (CHUNK + 1, 3 * CHUNK), (2 * CHUNK, CHUNK), (20000, 49152)]:
        out.append(xfer(filep(sz), stale=st, chunk="rand", cseed=st))
    out.append(xfer(filep(40), stale=100, fault=dict(kind="cut", at=["rec", 0, 30])))
    out.append(xfer(filep(CHUNK + 9), stale=5 * CHUNK, early=99, chunk="rec"))
    out.append(xfer(filep(30), stale=100, ack="wronghash"))
    # … as left behind by a real transfer of the same name that was cut, run first in the same sandbox
    interrupted = xfer(filep(5 * CHUNK, pseed=9), fault=dict(kind="cut", at=["rec", 3, 0]), chunk="rec")
    for sz in [20000, 3 * CHUNK, 5 * CHUNK, 0, 1]:
        out.append(xfer(filep(sz, pseed=2), prior=interrupted, chunk="rand", cseed=sz))
    out.append(xfer(filep(100, pseed=2), prior=xfer(filep(3000, pseed=9), fault=dict(kind="cut", at=["rec", 0, -1])), name="a b"))
    out.append(xfer(filep(100, pseed=2), prior=xfer(filep(3 * CHUNK, pseed=9), fault=dict(kind="flip", at=["rec", 2, 30], bit=1))))
    out.append(xfer(filep(100, pseed=2), prior=xfer(filep(300, pseed=9))))        # second transfer of an existing name: refused
    # whole ciphertext records re-sent, re-ordered or withheld by a man in the middle, optionally followed by a cut
    for sz in [2 * CHUNK, 3 * CHUNK, 2 * CHUNK + 7, CHUNK + 1, 4 * CHUNK]:
        nrec = (sz + CHUNK - 1) // CHUNK
        for j in range(1, nrec):
            for i in sorted({0, j - 1}):
                out.append(xfer(filep(sz), fault=dict(kind="replay", src=i, dst=j), chunk="rec"))
                out.append(xfer(filep(sz), fault=dict(kind="replay", src=i, dst=j, keep=j + 1), chunk="rand", cseed=j))
        for i in range(nrec):
            out.append(xfer(filep(sz), fault=dict(kind="dup", src=i), chunk="rand", cseed=i))
            out.append(xfer(filep(sz), fault=dict(kind="dup", src=i, keep=nrec), chunk="rec"))
            out.append(xfer(filep(sz), fault=dict(kind="droprec", rec=i), chunk="rec"))
            out.append(xfer(filep(sz), fault=dict(kind="droprec", rec=i, keep=nrec - 1), chunk="rand", cseed=i))
        for a in range(nrec - 1):
            out.append(xfer(filep(sz), fault=dict(kind="swap", a=a, b=a + 1), chunk="rec"))
            out.append(xfer(filep(sz), fault=dict(kind="swap", a=a, b=nrec - 1, keep=nrec), early=99, chunk="rec"))
    out.append(xfer(filep(3 * CHUNK), fault=dict(kind="replay", src=1, dst=2, keep=3), stale=4 * CHUNK))
    out.append(xfer(dict(type="dir", tree=TREES[4], pseed=3), name="d", fault=dict(kind="replay", src=0, dst=1, keep=2)))
    out.append(xfer(dict(type="dir", tree=TREES[4], pseed=3), name="d", fault=dict(kind="dup", src=0)))
    # payload CONTENT classes: all-zero / all-0xFF / one repeated byte around the chunk boundaries; random data with an
    # all-zero tail, head or middle block (sparse-file shaped data, runs a record-level shortcut could mistake for "nothing")
    for sz in [1, 4095, 4096, CHUNK - 1, CHUNK, CHUNK + 1, 2 * CHUNK, 2 * CHUNK + 1, 40000]:
        for fill in ["zero", "ff", ["byte", 0x41]]:
            out.append(xfer(filep(sz, fill=fill), chunk="rand", cseed=sz))
    for sz in [40000, 2 * CHUNK, 3 * CHUNK, 3 * CHUNK + 5]:
        for n in (1, 4095, 4096, CHUNK, CHUNK + 1, 2 * CHUNK):
            out.append(xfer(filep(sz, fill=["ztail", n]), chunk="rec"))
        for n in (1, 4096, CHUNK, CHUNK + 1):
            out.append(xfer(filep(sz, fill=["zhead", n]), chunk="rand", cseed=n))
        out.append(xfer(filep(sz, fill=["zmid", CHUNK, CHUNK]), chunk="rec"))
        out.append(xfer(filep(sz, fill=["zmid", 100, 4096]), chunk="all"))
        out.append(xfer(filep(sz, fill=["zmid", CHUNK - 1, CHUNK + 2]), early=99, chunk="rec"))
    out.append(xfer(filep(2 * CHUNK, fill="zero"), early=99, chunk="rec"))
    out.append(xfer(filep(2 * CHUNK, fill="zero"), fault=dict(kind="cut", at=["rec", 1, 10])))
    out.append(xfer(filep(3 * CHUNK, fill="zero"), fault=dict(kind="replay", src=0, dst=2, keep=3)))
    out.append(xfer(filep(40000, fill=["ztail", 40000 - 2 * CHUNK]), stale=50000))
    out.append(xfer(filep(CHUNK, fill="zero"), stale=3 * CHUNK))
    out.append(xfer(dict(type="dir", pseed=5, tree=[["zeros", 2 * CHUNK, "zero"], ["ff", CHUNK + 1, "ff"], ["tail", 40000, ["ztail", 7232]],
                                                    ["head", 40000, ["zhead", CHUNK]], ["aaaa", 5000, ["byte", 0x61]], ["sub/z1", 1, "zero"],
                                                    ["sub/mid", 3 * CHUNK, ["zmid", CHUNK, CHUNK]]]), name="d", chunk="rand"))
    out.append(xfer(dict(type="dir", pseed=5, tree=[["only", 4096, "zero"]]), name="d", chunk="rec"))
    zrec = bytes(4096).hex()
    out.append(dict(kind="records", xfersize=8192, recs=[zrec, zrec], script=list("crr")))
    out.append(dict(kind="records", xfersize=8192, recs=["ab" * 4096, zrec], script=list("rcr")))
    out.append(dict(kind="records", xfersize=8192, recs=[zrec, "cd" * 4096], script=list("rrc")))
    out.append(dict(kind="records", xfersize=4096, recs=[zrec], script=list("cr")))
    for t in TEXTS:
        out.append(xfer(dict(type="text", text=t)))
    # text, file names and directory names that are not NFC: reproduced code point for code point / created under that very name
    for i, u in enumerate(NON_NFC):
        out.append(xfer(dict(type="text", text=u)))
        out.append(xfer(dict(type="text", text="see " + u + " and " + NON_NFC[(i + 1) % len(NON_NFC)] + "\n")))
        out.append(xfer(filep(5 + i, pseed=i), name=u + ".txt", chunk="rec"))
        out.append(xfer(dict(type="dir", pseed=i, tree=[[NON_NFC[(i + 3) % len(NON_NFC)] + ".bin", 7], ["sub " + u + "/x", 3], ["e " + u, None]]),
                        name=u, chunk="rand", cseed=i))
    out.append(xfer(filep(CHUNK + 1), name=NON_NFC[1] + ".dat", fault=dict(kind="cut", at=["rec", 1, 0])))
    out.append(xfer(filep(30), name=NON_NFC[5], stale=100))
    for a in ["ok", "no", "missing", "OK"]:
        out.append(xfer(dict(type="text", text="hi"), textack=a))
    out.append(dict(kind="records", xfersize=5, recs=["0102", "", "030405", "06"], script=list("rrcrr")))
    out.append(dict(kind="records", xfersize=5, recs=["0102", "03040506"], script=list("crr")))
    out.append(dict(kind="records", xfersize=5, recs=["0102030405", "06"], script=list("rrc")))
    out.append(dict(kind="records", xfersize=0, recs=["01"], script=list("rc")))
    out.append(dict(kind="records", xfersize=0, recs=[], script=list("lc")))
    out.append(dict(kind="records", xfersize=3, recs=["01", "02"], script=list("rlcr")))
    out.append(dict(kind="records", xfersize=3, recs=["01", "02"], script=list("crrl")))
    return out


def gen_xfer(rng):
    r = rng.random()
    if r < 0.08:
        size = rng.randrange(CHUNK * 8, 400 * 1000)
    elif r < 0.5:
        size = rng.choice(SIZES) if rng.random() < 0.6 else max(0, rng.choice([1, 2, 3, 4]) * CHUNK + rng.randrange(-2, 3))
    else:
        size = rng.randrange(0, 3 * CHUNK)
    if rng.random() < 0.1:
        tree = []
        for i in range(rng.randrange(0, 5)):
            depth = rng.randrange(1, 4)
            comps = [rng.choice(["a", "b c", "ä", "-x", ".h", "Z", "e\u0301", "\u1112\u1161", "\u212b"] + SPECIAL_COMPONENTS) + str(i)
                     + rng.choice(["", "", "", "\\", ".", " ", "\\z"]) for _ in range(depth)]
            ent = ["/".join(comps), None if rng.random() < 0.25 else rng.choice([0, 1, 100, 4096, CHUNK, CHUNK + 1, 50000])]
            if ent[1] is not None and rng.random() < 0.4:
                ent.append(rng.choice(FILLS))
            tree.append(ent)
        payload = dict(type="dir", tree=tree, pseed=rng.randrange(1000))
        name = rng.choice(["d", "my dir", "ünï"] + NON_NFC[:8])
    else:
        payload = filep(size, rng.randrange(1000))
        name = rng.choice(["payload.bin", "a b", "ünï.txt", "-rf", ".hidden", "x.tmp"] + [u + ".x" for u in NON_NFC[:8]])
    c = xfer(payload, name=name, chunk=rng.choice(["rand", "rand", "rec", "all", "one"]), cseed=rng.randrange(10**6),
             early=rng.choice([0, 0, 0, 1, 2, 99]))
    k = rng.random()
    if k < 0.35:
        c["fault"] = dict(kind="cut", at=rng.choice([["ratio", rng.randrange((1 << 20) + 1)],
                                                      ["rec", rng.randrange(30), rng.choice([0, 1, 3, 4, 27, 28, 44, -1, -16, -17])]]))
        if rng.random() < 0.15:
            c["lost_before_connect"] = True
            c["early"] = 99
    elif k < 0.6:
        c["fault"] = dict(kind="flip", bit=rng.randrange(8),
                          at=rng.choice([["ratio", rng.randrange(1 << 20)],
                                         ["rec", rng.randrange(30), rng.choice([0, 1, 2, 3, 4, 10, 27, 28, 43, 44, 100, -1, -16])]]))
    elif k < 0.85:
        c["ack"] = rng.choice(FORGED)
        c["ackpos"] = rng.randrange(200)
        if c["ack"] == "junkhash":
            c["junkval"] = rng.choice(JUNKVALS)
    elif k < 0.9 and payload["type"] == "file":
        c["grow"] = rng.choice([1, 10, CHUNK, CHUNK + 1])
    if rng.random() < 0.2:
        # record-granular manipulation of the ciphertext stream instead of whatever fault was chosen above
        if payload["type"] == "file" and rng.random() < 0.7:
            c["payload"] = payload = filep(rng.choice([2, 3, 4, 5]) * CHUNK + rng.choice([0, 0, 0, 1, -1, 77]), rng.randrange(1000))
        for key in ("ack", "grow", "lost_before_connect"):
            c.pop(key, None)
        kind = rng.choice(["replay", "replay", "dup", "swap", "droprec"])
        f = dict(kind=kind)
        if kind == "replay":
            f["dst"] = rng.randrange(1, 6)
            f["src"] = rng.randrange(0, f["dst"])
            if rng.random() < 0.6:
                f["keep"] = f["dst"] + rng.choice([1, 1, 1, 0, 2])
        elif kind == "dup":
            f["src"] = rng.randrange(0, 6)
        elif kind == "swap":
            f["a"], f["b"] = rng.randrange(0, 6), rng.randrange(0, 6)
        else:
            f["rec"] = rng.randrange(0, 6)
        if "keep" not in f and rng.random() < 0.4:
            f["keep"] = rng.randrange(0, 7)
        c["fault"] = f
    if payload["type"] == "file" and rng.random() < 0.35:
        c["payload"] = payload = dict(payload, fill=rng.choice(FILLS))
    if payload["type"] == "file" and rng.random() < 0.2:
        r = rng.random()
        if r < 0.3:
            c["prior"] = xfer(filep(rng.choice([3000, CHUNK + 1, 3 * CHUNK, 5 * CHUNK]), rng.randrange(1000)),
                              fault=dict(kind="cut", at=["ratio", rng.randrange(1 << 20)]), chunk="rec")
        else:
            size = payload["size"]
            c["stale"] = rng.choice([0, 1, size, size + 1, max(0, size - 1), 2 * size + 3, size // 2, 3 * CHUNK, 400000])
    return c


def gen_text(rng):
    alphabet = ["a", "Z", " ", "'", '"', "\\", "\n", "\r", "\t", "\x00", "\x1b", "\x7f", "\x9b", "é", "ß", "✓", "名", "\U0001f600",
                "\u200b", "\u2028", "\xa0", "\\n", "\\x41", "\\'", "{", "}", "e\u0301", "\u0301", "\u0323\u0307", "\u0307\u0323", "\u1112\u1161\u11ab",
                "\u212b", "\u2126", "\u00e9", "\ufb01", "\u0958"]
    text = "".join(rng.choice(alphabet) for _ in range(rng.randrange(1, 12)))
    c = xfer(dict(type="text", text=text))
    if rng.random() < 0.2:
        c["textack"] = rng.choice(["ok", "no", "missing", "", "OK"])
    return c


def gen_records(rng):
    xfersize = rng.choice([0, 1, 2, 5, 10, 100, 4096, 8192, 5000])
    recs, tot = [], 0
    for _ in range(rng.randrange(0, 7)):
        n = rng.choice([0, 0, 1, 2, 3, 5, 9, 50])
        if rng.random() < 0.15:
            recs.append(bytes(rng.choice([1, 50, 4095, 4096, 5000])).hex())     # an all-zero record
        else:
            recs.append(bytes(rng.randrange(256) for _ in range(n)).hex())
        tot += len(recs[-1]) // 2
    script = ["r"] * len(recs) + ["c"] + (["l"] if rng.random() < 0.5 else [])
    rng.shuffle(script)
    return dict(kind="records", xfersize=xfersize, recs=recs, script=script)


def exhaustive_small():
    """thorough tier: every cut position and every bit flip of a one-record transfer, every cut of a two-record one around
    its boundaries"""
    out = []
    sz = 9
    total = FRAME_OVERHEAD + sz
    for p in range(total + 1):
        out.append(xfer(filep(sz), fault=dict(kind="cut", at=["abs", p]), chunk="all"))
    for p in range(total):
        for bit in range(8):
            out.append(xfer(filep(sz), fault=dict(kind="flip", at=["abs", p], bit=bit), chunk="all"))
    sz = CHUNK + 3
    first = FRAME_OVERHEAD + CHUNK
    for p in list(range(0, 50)) + list(range(first - 20, first + 50)) + list(range(first + FRAME_OVERHEAD + 3 - 20, first + FRAME_OVERHEAD + 3 + 1)):
        out.append(xfer(filep(sz), fault=dict(kind="cut", at=["abs", p]), chunk="rand", cseed=p))
    return out


def cases(rng, tier):
    out = corpus()
    n = 300 if tier == "quick" else 6000
    for _ in range(n):
        out.append(gen_xfer(rng))
    for _ in range(n // 2):
        out.append(gen_records(rng))
    for _ in range(n // 6):
        out.append(gen_text(rng))
    if tier == "thorough":
        out += exhaustive_small()
    return out


def search(rng, seconds, seeds):
    import time
    t0 = time.time()
    for c in seeds:
        yield c, run_case(c)
    for c in corpus():
        yield c, run_case(c)
        if time.time() - t0 > seconds:
            return
    while time.time() - t0 < seconds:
        c = gen_xfer(rng) if rng.random() < 0.7 else gen_records(rng)
        yield c, run_case(c)


def shrink(case):
    if case.get("kind") != "xfer":
        recs = case.get("recs", [])
        for i in range(len(recs)):
            c = dict(case)
            c["recs"] = recs[:i] + recs[i + 1:]
            yield c
        return
    pl = case["payload"]
    if pl["type"] == "file":
        for sz in (0, 1, 5, CHUNK, CHUNK + 1, pl["size"] // 2):
            if sz < pl["size"]:
                c = dict(case)
                c["payload"] = dict(pl, size=sz)
                yield c
    for k, v in (("chunk", "all"), ("early", 0), ("name", "payload.bin")):
        if case.get(k, v) != v:
            c = dict(case)
            c[k] = v
            yield c
    for k in ("grow", "lost_before_connect", "early"):
        if case.get(k):
            c = dict(case)
            c.pop(k)
            yield c
