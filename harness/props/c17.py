"""C17 — Dilation never blocks shutdown; an incapable peer is reported, not awaited.

World (one side under test, every object below is the REAL one from /repo/src/wormhole):

  Terminator (mock Boss / RendezvousConnector / Nameplate / Mailbox record what they are told)
    -> Dilator -> Manager (+ TrafficTimer, Inbound, Outbound, DilatedWormhole endpoints)
    -> Connector (one per generation) -> DilatedConnectionProtocol (+ _Framer/_Record)
  EventualQueue over a twisted `task.Clock` (the harness runs ONE turn per `turn` operation),
  OneShotObserver / EmptyableSet.

Faked inside the harness process only: `connector.serverFromString`, `endpoint_from_hint_obj`,
`deferLater`, `ipaddrs.find_addresses`, `build_noise` (harness/fakes.ToyNoise), `manager.make_side`.
The fake network keeps every listener, connection attempt and connection the real code opened,
with what the real code told it (stopListening / cancel / loseConnection); the case decides when
a listener becomes ready, an attempt is dialled / succeeds / fails, a peer's handshake + KCM
arrives, and when the network reports a connection as lost.
"""
import itertools
import json
from unittest import mock

from twisted.internet import defer
from twisted.internet.address import IPv4Address
from twisted.internet.error import ConnectionRefusedError
from twisted.internet.protocol import Factory, Protocol
from twisted.internet.task import Clock, Cooperator
from twisted.python import log as txlog
from twisted.python.failure import Failure
from zope.interface import alsoProvides, implementer
from twisted.internet.interfaces import ITransport, IConsumer, IPullProducer, IPushProducer

from wormhole import _interfaces
from wormhole import ipaddrs as ipaddrs_mod
from wormhole._dilation import connector as dconnector
from wormhole._dilation import manager as dmanager
from wormhole._dilation.connection import encode_record, KCM
from wormhole._dilation.encode import to_be4
from wormhole._dilation.manager import DILATION_VERSIONS, Dilator, OldPeerCannotDilateError
from wormhole._dilation.roles import LEADER
from wormhole._terminator import Terminator
from wormhole.eventual import EventualQueue
from wormhole.util import dict_to_bytes

from ..core import Result
from ..fakes import ToyNoise, toy_tag, hx
from ..util import automat_state

ID = "C17"
PROP_MODULES = ["WV.Props.C17"]
# [deepConn] translation validation of the Connector's method bodies (tools/extract.py::extract_pyir_conn ->
# WV/Gen/PyIRConn.lean, interpreter WV/Model/PyIR.lean): part of the check as soon as the module is installed
import os as _os_conn
if _os_conn.path.exists(_os_conn.path.join(_os_conn.path.dirname(_os_conn.path.dirname(_os_conn.path.dirname(
        _os_conn.path.abspath(__file__)))), "lean", "WV", "Props", "PyIRConn_C11.lean")):
    PROP_MODULES.append("WV.Props.PyIRConn_C11")
# [deepMgr] translation validation of the Manager / TrafficTimer method bodies (tools/extract.py::extract_pyir_mgr ->
# WV/Gen/PyIRMgr.lean): part of the check as soon as the module is installed (agents/deepMgr_integration.md)
import os as _os_mgr
for _m_mgr in ("PyIRMgr_C17", "PyIRMgr_C16", "PyIRMgr_C17_Conn"):
    if _os_mgr.path.exists(_os_mgr.path.join(_os_mgr.path.dirname(_os_mgr.path.dirname(_os_mgr.path.dirname(
            _os_mgr.path.abspath(__file__)))), "lean", "WV", "Props", _m_mgr + ".lean")):
        PROP_MODULES.append("WV.Props." + _m_mgr)
TRUSTED = [
    "the fake network: loseConnection()/stopListening()/Deferred.cancel() are recorded and never fail; the "
    "network reports connectionLost once per connection, when the case says so ('cooperative completion' = "
    "every connection the code asked to close, or that the peer drops, is reported lost, then the eventual "
    "queue is drained)",
    "Twisted's tcp server endpoint fires listen() synchronously (the asynchronous-listen stream is an extra)",
    "Boss/RendezvousConnector/Nameplate/Mailbox are mocks around the real Terminator: they answer "
    "nameplate_done/mailbox_done/stoppedRC when the case says so (C08 owns their real behaviour)",
    "Noise is harness/fakes.ToyNoise; the peer's prologue+handshake+KCM arrive as one well-formed chunk",
    "subchannel machinery behind a successful connect() (C13) and record traffic (C10/C12) are not exercised",
    "TrafficTimer (C16): its `interval_elapsed` rows are the generated table and the ping-timer handle (None / "
    "pending / fired DelayedCall, a real twisted DelayedCall on task.Clock) is modelled with the four source flags "
    "of tools/extract.py; `got_connection` / `lost_connection` are taken as no_connection->connected[begin_timing] "
    "and ->no_connection[]; the peer never answers a Ping in these runs (pong handling is C16's)",
    "application producers: endless pull / inert push sources registered on the SubChannel of a successful connect(); "
    "the wormhole's Cooperator is a real twisted Cooperator scheduled on the EventualQueue as wormhole.create() does "
    "(one iteration per tick instead of the wall-clock 10 ms slice); the connection's transport never pushes back, "
    "producers never unregister or fail (flow control itself is C15's)",
    "inbound connections (dialled by the peer) that were never selected are closed by the peer, not by us: "
    "Connector tracks only outbound protocols in _pending_connections (the source says so in a TODO); reported as "
    "an observation tag, not a violation",
    "peer conformance for the liveness theorem: dilation `please` never reflects our own side, `reconnect` is only "
    "sent to a Follower, dilate-N messages only after the key (Boss ordering); the check also runs "
    "non-conformant peers and reports what happens",
]
RULE = ("one real Terminator+Dilator+Manager+Connector(+DilatedConnectionProtocol) per case in both roles; corpus drives "
        "every Manager state (WAITING, WANTING, CONNECTING with/without listeners, attempts, pending and candidate "
        "connections, CONNECTED, FLUSHING, LONELY, ABANDONING, STOPPING) then close/stop with pending eventual turns "
        "before or after; peers: dilating, no can-dilate, {}, disjoint, mixed; dilate() before/after key, versions, "
        "messages; connect() before/after; generated: random op sequences over the same alphabet (structured stream "
        "= conformant peer, adversarial stream = reflected please / reconnect to leader / late and duplicate "
        "callbacks); distinct = distinct canonical traces")

MY_SIDE = "8000000000000000"
LOW_SIDE = "1000000000000000"     # peer lower  -> we are LEADER
HIGH_SIDE = "f000000000000000"    # peer higher -> we are FOLLOWER

VERSIONS = {
    "full": {"can-dilate": ["ged"], "app_versions": {}},
    "nocan": {"app_versions": {}},
    "empty": {},
    "disjoint": {"can-dilate": ["vetch"]},
    "emptylist": {"can-dilate": []},
    "both": {"can-dilate": ["vetch", "ged"]},
}


def vers_value(op):
    """the peer's versions message body of a `versions` operation, as it comes off the wire (through JSON)"""
    v = VERSIONS[op[1]] if len(op) == 2 else op[2]
    return json.loads(json.dumps(v))


def j_tokens(v):
    """JSON in the prefix tokens of the model driver (numbers only as zero / non-zero)"""
    if v is None:
        return ["N"]
    if v is True:
        return ["T"]
    if v is False:
        return ["F"]
    if isinstance(v, (int, float)):
        return ["I0" if v == 0 else "I1"]
    if isinstance(v, str):
        return ["S" + hx(v.encode("utf8"))]
    if isinstance(v, list):
        out = [f"A{len(v)}"]
        for x in v:
            out += j_tokens(x)
        return out
    out = [f"O{len(v)}"]
    for k, x in v.items():
        out += ["S" + hx(k.encode("utf8"))] + j_tokens(x)
    return out


def vers_class(v):
    """what the PROPERTY says about a versions body (not what the code does with it): capable / incapable /
       unspecified.  A peer can dilate with us iff its `can-dilate` is a list naming one of our versions; whatever
       else sits there (numbers, booleans, null, nested lists / dicts, a bare string, a dict, nothing) it cannot."""
    if not isinstance(v, dict):
        return "unspecified:versions-not-a-dict"     # Boss never hands such a body over (bytes_to_dict asserts a dict)
    c = v.get("can-dilate", [])
    if isinstance(c, list) and any(isinstance(x, str) and x in DILATION_VERSIONS for x in c):
        return "capable"
    return "incapable"


@implementer(IPullProducer)
class PullSource:
    """like FileSender in the middle of a file: one chunk per resumeProducing(), never done"""

    def __init__(self, transport):
        self.transport = transport
        self.sent = 0

    def resumeProducing(self):
        self.sent += 1
        self.transport.write(b"x" * 64)

    def stopProducing(self):
        pass


@implementer(IPushProducer)
class PushSource:
    def pauseProducing(self):
        pass

    def resumeProducing(self):
        pass

    def stopProducing(self):
        pass


# ---------------------------------------------------------------------------
# the fake network

@implementer(ITransport, IConsumer)
class NetTransport:
    def __init__(self, conn):
        self.conn = conn
        self.written = []
        self.producer = None

    def write(self, data):
        self.written.append(bytes(data))

    def writeSequence(self, seq):
        self.written.append(b"".join(seq))

    def loseConnection(self):
        self.conn.closing += 1

    def registerProducer(self, p, streaming):
        self.producer = p

    def unregisterProducer(self):
        self.producer = None

    def pauseProducing(self):
        pass

    def resumeProducing(self):
        pass

    def getPeer(self):
        return IPv4Address("TCP", "10.0.0.2", 4002)

    def getHost(self):
        return IPv4Address("TCP", "10.0.0.1", 4001)


class NetConn:
    def __init__(self, gen, inbound):
        self.gen, self.inbound = gen, inbound
        self.closing = 0      # loseConnection() calls
        self.lost = False     # connectionLost delivered
        self.proto = None
        self.transport = NetTransport(self)


class NetPort:
    """IListeningPort of the fake network"""

    def __init__(self, lst):
        self.lst = lst

    def getHost(self):
        return IPv4Address("TCP", "0.0.0.0", 4000 + self.lst.idx)

    def stopListening(self):
        self.lst.stopped += 1
        return defer.succeed(None)


class NetListener:
    def __init__(self, gen, idx, factory):
        self.gen, self.idx, self.factory = gen, idx, factory
        self.ready = False
        self.stopped = 0
        self.ready_after_stop = False   # became ready when its Connector was no longer `connecting`
        self.d = None
        self.port = NetPort(self)


class NetAttempt:
    def __init__(self, gen, idx, hint):
        self.gen, self.idx, self.hint = gen, idx, hint
        self.phase = "scheduled"    # scheduled -> dialing -> done
        self.cancelled = False
        self.timer_d = None         # the deferLater Deferred
        self.connect_d = None       # the endpoint's connect() Deferred
        self.factory = None


class World:
    def __init__(self, cfg):
        self.cfg = cfg
        self.no_listen = bool(cfg.get("no_listen", False))
        self.async_listen = bool(cfg.get("async_listen", False))
        self.clock = Clock()
        self.eq = EventualQueue(self.clock)
        self.coop = Cooperator(terminationPredicateFactory=lambda: (lambda: True), scheduler=self.eq.eventually)
        self.events = []           # what the real code told its collaborators, this step
        self.sent = []
        # network, per generation (generation = index of the Connector that opened it)
        self.ctors = []            # real Connector objects in creation order
        self.listeners = []        # flat, in creation order; each knows its generation
        self.attempts = []
        self.conns = []
        self.eps = []              # endpoint objects the application holds: (kind, subprotocol, endpoint)
        self.protos = {}           # waiter index -> the application protocol a successful connect() built
        self.sources = {}          # waiter index -> the producer that protocol registered on its subchannel
        self.waiters = []          # connect() outcomes: "pending" | "ok" | "err:<Class>"
        self.closed = 0
        self.stoppedD_calls = 0

        w = self

        @implementer(_interfaces.ISend)
        class Send:
            def send(self, phase, body):
                msg = json.loads(body.decode("utf8"))
                t = msg.get("type")
                if t == "please":
                    t = "please:" + str(msg.get("use-version", "-"))
                w.events.append(f"send {phase.split('-')[1]} {t}")

        @implementer(_interfaces.IBoss)
        class B:
            def closed(self):
                w.closed += 1
                w.events.append("B.closed")

        @implementer(_interfaces.IRendezvousConnector)
        class RC:
            def stop(self):
                w.events.append("RC.stop")

        @implementer(_interfaces.INameplate)
        class N:
            def close(self):
                w.events.append("N.close")

        @implementer(_interfaces.IMailbox)
        class M:
            def close(self, mood):
                w.events.append("M.close")

        self.T = Terminator()
        self.D = Dilator(self.clock, self.eq, self.coop, list(DILATION_VERSIONS))
        self.D.wire(Send(), self.T)
        self.T.wire(B(), RC(), N(), M(), self.D)
        self.api = None
        self._patches = []

    # -- patches (process-local, undone in close())
    def __enter__(self):
        w = self

        def fake_server_from_string(reactor, desc):
            class EP:
                def listen(self_ep, factory):
                    g = w._cur_gen()
                    lst = NetListener(g, len(w.listeners), factory)
                    w.listeners.append(lst)
                    if w.async_listen:
                        lst.d = defer.Deferred()
                        return lst.d
                    lst.ready = True
                    return defer.succeed(lst.port)
            return EP()

        def fake_endpoint_from_hint_obj(hint, tor, reactor):
            g = w._cur_gen()
            att = NetAttempt(g, len(w.attempts), hint)
            w.attempts.append(att)

            class EP:
                def connect(self_ep, factory):
                    att.factory = factory

                    def canceller(d):
                        att.cancelled = True
                        att.phase = "done"
                    att.connect_d = defer.Deferred(canceller)
                    return att.connect_d
            att.ep = EP()
            return att.ep

        def fake_defer_later(reactor, delay, f, *a, **kw):
            # same contract as twisted.internet.task.deferLater, but the harness fires it (`dial`)
            att = w._last_attempt

            def canceller(d):
                att.cancelled = True
                att.phase = "done"
            d = defer.Deferred(canceller)
            d.addCallback(lambda ign: f(*a, **kw))
            att.timer_d = d
            return d

        orig_ctor = dconnector.Connector

        def ctor_factory(*a, **kw):
            c = orig_ctor(*a, **kw)
            w.ctors.append(c)
            return c

        orig_build = orig_ctor.build_protocol

        ps = [
            mock.patch.object(dconnector, "serverFromString", fake_server_from_string),
            mock.patch.object(dconnector, "endpoint_from_hint_obj", self._wrap_ep(fake_endpoint_from_hint_obj)),
            mock.patch.object(dconnector, "deferLater", fake_defer_later),
            mock.patch.object(dconnector, "build_noise", ToyNoise),
            mock.patch.object(ipaddrs_mod, "find_addresses", lambda: ["127.0.0.1", "10.0.0.1"]),
            mock.patch.object(dmanager, "make_side", lambda: MY_SIDE),
            mock.patch.object(dmanager, "Connector", ctor_factory),
        ]
        for p in ps:
            p.start()
        self._patches = ps
        self._obs = self._log_observer
        txlog.addObserver(self._obs)
        return self

    def _wrap_ep(self, f):
        def g(hint, tor, reactor):
            ep = f(hint, tor, reactor)
            self._last_attempt = self.attempts[-1]
            return ep
        return g

    def __exit__(self, *a):
        txlog.removeObserver(self._obs)
        for p in self._patches:
            p.stop()
        return False

    def _log_observer(self, ev):
        if ev.get("isError"):
            if ev.get("log_namespace") == "twisted.internet.defer" or "debugInfo" in ev:
                return   # reported at garbage collection: not part of the deterministic trace
            f = ev.get("failure")
            self.events.append("log " + (f.type.__name__ if f is not None else "error"))

    def _cur_gen(self):
        """the Connector whose method is running = the newest one, except when an older one is being
        driven by the case (set by the network operations)"""
        if getattr(self, "_acting_gen", None) is not None:
            return self._acting_gen
        return len(self.ctors) - 1

    # -- observation of the real objects
    def mgr(self):
        return self.D._manager

    def summary(self):
        m = self.mgr()
        if m is None:
            ms, role, conn, timer, main = "-", "-", "-", "none", "-"
            tt = "-"
            fired = 0
            key, ver = 0, "-"
        else:
            ms = automat_state(m)
            role = "-" if m._my_role is None else ("L" if m._my_role is LEADER else "F")
            conn = "-"
            if m._connection is not None:
                conn = "?"
                for i, c in enumerate(self.conns):
                    if c.proto is m._connection:
                        conn = str(i)
            timer = "none" if m._timer is None else ("pending" if m._timer.active() else "fired")
            tt = "-" if m._traffic is None else automat_state(m._traffic)
            r = m._main_channel._result
            from wormhole.observer import NoResult
            main = "none" if r is NoResult else ("ok" if r is None else "err")
            fired = 0 if m._stopped._result is NoResult else 1
            key = 1 if m._dilation_key is not None else 0
            ver = "-" if m._dilation_version is None else str(m._dilation_version)
        cs = []
        for g, c in enumerate(self.ctors):
            ls = " ".join(self._lflags(l, c) for l in self.listeners if l.gen == g)
            ats = " ".join(self._aflags(a, c) for a in self.attempts if a.gen == g)
            xs = " ".join(self._cflags(x, c) for x in self.conns if x.gen == g)
            cs.append(f"{automat_state(c)} L[{ls}] A[{ats}] X[{xs}]")
        regs = list(m._subprotocol_factories._factories.keys()) if m is not None else []
        prods, out = [], "paused"
        if m is not None:
            ob = m._outbound
            out = "paused" if ob._paused else "running"
            for pr in ob._all_producers:
                raw = getattr(pr, "_producer", pr)
                i = next((k for k, sname in self.sources.items() if sname is raw), "?")
                prods.append(f"{i}:{'pull' if raw is not pr else 'push'}:{'p' if pr in ob._paused_producers else 'u'}")
        d = self.D
        pend = f"{1 if d._pending_dilation_key is not None else 0}{1 if d._pending_wormhole_versions is not None else 0}{len(d._pending_inbound_dilate_messages)}"
        return (f"M={ms} key={key} ver={ver} role={role} conn={conn} timer={timer} tt={tt} main={main} fired={fired} T={automat_state(self.T)} "
                f"closed={self.closed} D={pend} W=[{' '.join(self.waiters)}] E={len(self.eps)} R=[{' '.join(regs)}] P=[{' '.join(prods)}] out={out} coop={1 if self.coop._stopped else 0} C=[{' | '.join(cs)}]")

    def _lflags(self, l, c):
        return "".join(["r" if l.ready else "-", "t" if l.port in c._listeners else "-", "s" if l.stopped else "-"])

    def _aflags(self, a, c):
        inset = any(d is a.timer_d for d in c._pending_connectors)
        return {"scheduled": "s", "dialing": "d", "done": "x"}[a.phase] + ("c" if a.cancelled else "-") + ("t" if inset else "-")

    def _cflags(self, x, c):
        st = automat_state(x.proto) if x.proto is not None else "none"
        return ("i" if x.inbound else "o") + ":" + st + ":" + ("c" if x.closing else "-") + ("l" if x.lost else "-") + \
            ("t" if x.proto in c._pending_connections else "-")

    # -- operations
    def op(self, op):
        k = op[0]
        if k == "dilate":
            self.api = self.D.dilate(no_listen=self.no_listen)
            return None
        if k == "key":
            self.D.got_key(b"\x11" * 32)
            return None
        if k == "versions":
            self.D.got_wormhole_versions(vers_value(op))
            return None
        if k == "msg":
            self.D.received_dilate(dict_to_bytes(self._msg(op)))
            return None
        if k == "connect":
            if self.D._manager is None:
                return "no-api"
            api = self.D._manager._api
            idx = len(self.waiters)
            self.waiters.append("pending")
            d = api.connector_for("proto").connect(Factory.forProtocol(Protocol))

            def ok(p):
                self.waiters[idx] = "ok"
                self.protos[idx] = p

            def bad(f):
                self.waiters[idx] = "err:" + f.type.__name__
            d.addCallbacks(ok, bad)
            return None
        if k == "ep":
            # the application obtains an endpoint object and keeps it
            if self.D._manager is None:
                return "no-api"
            api = self.D._manager._api
            ep = api.listener_for(op[2]) if op[1] == "l" else api.connector_for(op[2])
            self.eps.append((op[1], op[2], ep))
            return None
        if k in ("econnect", "elisten"):
            if op[1] >= len(self.eps):
                return "no-such"
            kind, name, ep = self.eps[op[1]]
            if k == "econnect" and kind != "c":
                return "not-connector"
            if k == "elisten" and kind != "l":
                return "not-listener"
            idx = len(self.waiters)
            self.waiters.append("pending")
            f = Factory.forProtocol(Protocol)
            d = ep.connect(f) if k == "econnect" else ep.listen(f)

            def ok2(p):
                self.waiters[idx] = "ok"
                if k == "econnect":
                    self.protos[idx] = p

            def bad2(f):
                self.waiters[idx] = "err:" + f.type.__name__
            d.addCallbacks(ok2, bad2)
            return None
        if k == "producer":
            # the protocol of connect() call i registers a producer on its transport (the SubChannel), as
            # twisted.protocols.basic.FileSender (pull) or a streaming source (push) would in the middle of a transfer
            i = op[2]
            if i not in self.protos:
                return "no-protocol"
            if i in self.sources:
                return "has-producer"
            t = self.protos[i].transport
            src = PullSource(t) if op[1] == "pull" else PushSource()
            self.sources[i] = src
            t.registerProducer(src, op[1] == "push")
            return None
        if k == "t":
            getattr(self.T, op[1])(*((("happy",)) if op[1] == "close" else ()))
            return None
        if k == "expire":
            # the ping interval is over: the Manager's pending DelayedCall fires (a real twisted DelayedCall)
            m = self.mgr()
            if m is None or m._timer is None or not m._timer.active():
                return "no-timer"
            c = m._timer
            self.clock.calls.remove(c)
            c.called = 1
            c.func(*c.args, **c.kw)
            return None
        if k == "turn":
            calls = [c for c in self.clock.calls if c.func == self.eq._turn]
            if not calls:
                return None
            c = calls[0]
            self.clock.calls.remove(c)
            c.called = 1
            c.func(*c.args, **c.kw)
            return None
        return self.net_op(op)

    def _msg(self, op):
        t = op[1]
        if t == "please":
            return {"type": "please", "side": op[2], "use-version": "ged"}
        if t == "hints":
            return {"type": "connection-hints",
                    "hints": [{"type": "direct-tcp-v1", "hostname": f"h{i}", "port": 1000 + i, "priority": 0.0}
                              for i in range(op[2])]}
        if t in ("reconnect", "reconnecting"):
            return {"type": t}
        return {"type": "bogus"}

    def net_op(self, op):
        k, i = op[0], op[1]
        coll = {"lready": self.listeners, "inbound": self.listeners, "dial": self.attempts, "dialok": self.attempts,
                "dialfail": self.attempts, "kcm": self.conns, "lost": self.conns}[k]
        if i >= len(coll):
            return "no-such"
        x = coll[i]
        g = x.gen
        ctor = self.ctors[g]
        self._acting_gen = g
        try:
            if k == "lready":
                if x.ready:
                    return "already"
                x.ready = True
                x.ready_after_stop = automat_state(ctor) != "connecting"
                x.d.callback(x.port)
                return None
            if k == "inbound":
                if not x.ready or x.stopped:
                    return "refused"
                c = NetConn(g, True)
                self.conns.append(c)
                c.proto = x.factory.buildProtocol(IPv4Address("TCP", "10.0.0.2", 4002))
                c.proto.makeConnection(c.transport)
                return None
            if k == "dial":
                if x.phase != "scheduled":
                    return "not-scheduled"
                x.phase = "dialing"
                x.timer_d.callback(None)
                return None
            if k in ("dialok", "dialfail"):
                if x.phase != "dialing":
                    return "not-dialing"
                x.phase = "done"
                if k == "dialfail":
                    x.connect_d.errback(ConnectionRefusedError())
                    return None
                c = NetConn(g, False)
                self.conns.append(c)
                c.proto = x.factory.buildProtocol(IPv4Address("TCP", "10.0.0.2", 4002))
                c.proto.makeConnection(c.transport)
                x.connect_d.callback(c.proto)
                return None
            if k == "kcm":
                if x.lost:
                    return "gone"
                if automat_state(x.proto) != "unselected":
                    return "dup"
                prologue = dconnector.PROLOGUE_FOLLOWER if ctor._role is LEADER else dconnector.PROLOGUE_LEADER
                kcm = encode_record(KCM())
                kcm = kcm + toy_tag(0, kcm)
                x.proto.dataReceived(prologue + to_be4(2) + b"hs" + to_be4(len(kcm)) + kcm)
                return None
            if k == "lost":
                if x.lost:
                    return "gone"
                x.lost = True
                x.proto.connectionLost(None)
                return None
        finally:
            self._acting_gen = None
        raise ValueError(op)


# ---------------------------------------------------------------------------
# running a case

CLOSE = [["t", "close"], ["t", "nameplate_done"], ["t", "mailbox_done"], ["t", "stoppedRC"]]
INCAPABLE = ("nocan", "empty", "disjoint", "emptylist")

# values of `can-dilate` a peer's JSON may carry
JSON_CAN_DILATE = [
    [2, 3], [1.5], [True, False], [None], [0], ["x", 1.5, None, False, 0], ["vetch", "Ged", "ged "], [""], "ged", "", "g",
    [[1]], [{}], [[]], ["ged", [1]], ["x", {"a": 1}], 5, 0, None, True, False, 1.5,
    ["ged", 2], [2, "ged", None], ["vetch", "ged", "ged"],
    {"ged": 1}, {}, {"x": [1]},
]


def gen_json(rng, depth=0):
    x = rng.random()
    if depth >= 2 or x < 0.55:
        return rng.choice([0, 1, 2, -1, 1.5, 0.0, True, False, None, "", "x", "ged", "vetch", "g", "Ged"])
    if x < 0.85:
        return [gen_json(rng, depth + 1) for _ in range(rng.randint(0, 3))]
    return {rng.choice(["a", "ged", "can-dilate"]): gen_json(rng, depth + 1) for _ in range(rng.randint(0, 2))}


def gen_versions(rng, adversarial):
    x = rng.random()
    if x < 0.45:
        can = [gen_json(rng, 1) for _ in range(rng.randint(0, 4))]
        if rng.random() < 0.3:
            can.insert(rng.randint(0, len(can)), "ged")
    elif x < 0.75:
        can = gen_json(rng, 0)
    else:
        can = rng.choice(JSON_CAN_DILATE)
    body = {"can-dilate": can}
    if rng.random() < 0.5:
        body["app_versions"] = {}
    if adversarial and rng.random() < 0.1:
        return rng.choice([[1], "s", None, 5, can])
    return body


def op_line(op):
    if op[0] == "versions" and len(op) == 3:
        return "versions j " + " ".join(j_tokens(vers_value(op)))
    return " ".join(str(x) for x in op)


class Run:
    def __init__(self, case):
        self.case = case
        self.cfg = case.get("cfg", {})
        self.lines, self.expect = [], []
        self.steps = []          # (op, token, events, err, summary, snapshot)
        self.w = None

    def snapshot(self):
        w = self.w
        m = w.mgr()
        return dict(
            ms=automat_state(m) if m is not None else None,
            ts=automat_state(w.T),
            closed=w.closed,
            n_listeners=len(w.listeners),
            n_attempts=len(w.attempts),
            role=None if m is None or m._my_role is None else ("L" if m._my_role is LEADER else "F"),
            conn=None if m is None or m._connection is None else
            next((i for i, c in enumerate(w.conns) if c.proto is m._connection), -1),
            waiters=list(w.waiters),
            main_failed=(m is not None and isinstance(m._main_channel._result, Failure)),
            key=(m is not None and m._dilation_key is not None) or (w.D._pending_dilation_key is not None),
        )

    def do(self, op):
        w = self.w
        w.events = []
        err = None
        tok = None
        try:
            tok = w.op(op)
        except Exception as e:   # raised to the caller of that API / network callback
            err = type(e).__name__
        self.lines.append(op_line(op))
        if tok is not None:
            self.expect.append(tok)
            self.steps.append((op, tok, [], None, "", self.snapshot()))
            return tok
        summ = w.summary()
        self.expect.append("; ".join(w.events + ([err] if err else [])) + " | " + summ)
        self.steps.append((op, None, list(w.events), err, summ, self.snapshot()))
        return None

    def complete(self):
        """cooperative completion: the network reports every connection the code asked to close (and
        every connection the peer had dialled to us that was never selected) as lost; the eventual
        queue is drained"""
        w = self.w
        for _ in range(2):
            for i, c in enumerate(w.conns):
                if not c.lost and c.closing:
                    self.do(["lost", i])
            for _ in range(3):
                self.do(["turn"])

    def run(self):
        self.lines.append(f"new {1 if self.cfg.get('no_listen') else 0} {1 if self.cfg.get('async_listen') else 0}")
        self.expect.append("ok")
        self.w = World(self.cfg)
        self.active_at_stop = None
        self.stop_issued = False
        self.dilate_after_stop = False
        with self.w:
            for op in self.case["ops"]:
                if op == ["t", "stoppedRC"] and automat_state(self.w.T) == "S_stoppingRC":
                    m = self.w.mgr()
                    self.stop_issued = True
                    if m is not None and m._connection is not None:
                        self.active_at_stop = next((c for c in self.w.conns if c.proto is m._connection), None)
                if op == ["dilate"] and self.stop_issued and self.w.mgr() is None:
                    self.dilate_after_stop = True
                self.do(op)
            if self.case.get("complete", True):
                self.complete()
            self.final = self.snapshot()
            self.final_timer = self.w.mgr() is not None and self.w.mgr()._timer is not None
            self.delayed = [c for c in self.w.clock.calls if c.func != self.w.eq._turn]
        return self


def classify(case):
    """which (if any) non-conformant peer/Boss behaviour the input contains (used only to name findings)"""
    have_key = False
    role = None
    kinds = []
    for op in case["ops"]:
        if op[0] == "key":
            have_key = True
        if op[0] == "msg":
            if not have_key:
                kinds.append("message-before-key")
            if op[1] == "please":
                if op[2] == MY_SIDE:
                    kinds.append("reflected-please")
                elif role is None:
                    role = "L" if op[2] < MY_SIDE else "F"
            if op[1] == "reconnect" and role == "L":
                kinds.append("reconnect-to-leader")
            if op[1] == "reconnecting" and role == "F":
                kinds.append("reconnecting-to-follower")
    return kinds


def oracle(r):
    """the property, on the observed behaviour of the real objects"""
    v = []
    case = r.case
    w = r.w
    kinds = classify(case)
    suffix = (":" + kinds[0]) if kinds else ""
    completed = case.get("complete", True)
    # outside the property's environment: Boss hands the key to the Dilator before any dilate-N message can be
    # decrypted; dilate() called after the wormhole was closed is C18's after_closed_all_fail, not this property
    # … and the peer is a conformant wormhole client (decided by the maintainer of this check, DESIGN §11): a
    # `reconnect` sent TO a Leader, or a `please` echoing our own random dilation side, can only come from a
    # protocol-violating (though authenticated) peer.  Both runs stay in the corpus for the correspondence and as
    # witnesses of the Lean theorems reconnect_to_leader_blocks_shutdown / reflected_please_blocks_shutdown.
    out_of_scope = ("message-before-key" in kinds or r.dilate_after_stop
                    or "reconnect-to-leader" in kinds or "reflected-please" in kinds)

    # closed at most once, at every step
    for (op, tok, ev, err, summ, snap) in r.steps:
        if snap["closed"] > 1:
            v.append(("closed-twice", f"B.closed() called {snap['closed']} times after {op}"))
            break

    # 1. stop always leads to stoppedD / closed
    if r.stop_issued and completed and not out_of_scope:
        if r.final["closed"] != 1 or r.final["ts"] != "S_stopped":
            v.append(("closed-never-fires" + suffix,
                      f"Dilator.stop() was called (Terminator S_stoppingRC --stoppedRC-->), every connection the code "
                      f"asked to close was reported lost and the eventual queue drained, but closed={r.final['closed']} "
                      f"Terminator={r.final['ts']} Manager={r.final['ms']}"))
        else:
            # 2. everything was told to stop
            for i, l in enumerate(w.listeners):
                if l.ready and not l.ready_after_stop and not l.stopped:
                    v.append(("listener-left-open", f"listener {i} (generation {l.gen}) was never told stopListening()"))
            for i, a in enumerate(w.attempts):
                if a.phase != "done":
                    v.append(("attempt-left-pending", f"outbound attempt {i} ({a.phase}) was never cancelled"))
            for i, c in enumerate(w.conns):
                if not c.inbound and not c.lost and not c.closing:
                    v.append(("outbound-connection-left-open", f"connection {i} (dialled by us) was never told loseConnection()"))
            a = r.active_at_stop
            if a is not None and not a.closing and not a.lost:
                v.append(("active-connection-not-dropped", "the selected connection was not disconnected by stop"))
            if r.final_timer or r.delayed:
                v.append(("timer-left-running", f"after closed: Manager._timer set={r.final_timer}, DelayedCalls={len(r.delayed)}"))

    # 3. late callbacks cannot undo STOPPED nor re-open anything
    stopped_at = None
    for k, (op, tok, ev, err, summ, snap) in enumerate(r.steps):
        if stopped_at is None:
            if snap["ms"] == "STOPPED":
                stopped_at = snap
            continue
        if snap["ms"] != "STOPPED":
            v.append(("stopped-undone", f"Manager left STOPPED for {snap['ms']} after {op}"))
            break
        if snap["n_listeners"] > stopped_at["n_listeners"] or snap["n_attempts"] > stopped_at["n_attempts"]:
            v.append(("reopened-after-stop", f"a new listener/outbound attempt was opened after STOPPED by {op}"))
            break
        if any(e.startswith("send ") for e in ev):
            v.append(("sent-after-stop", f"{op} made the stopped Manager send {ev}"))
            break

    # 4. an incapable peer is reported — whatever JSON its `can-dilate` holds — and nothing raises on the way
    vops = [op for op in case["ops"] if op[0] == "versions"]
    dilated = any(op[0] == "dilate" for op in case["ops"])
    if len(vops) == 1:
        vv = vers_value(vops[0])
        cls = vers_class(vv)
        raised = None
        seen_versions = False
        for (op, tok, ev, err, summ, snap) in r.steps:
            if op[0] == "versions":
                seen_versions = True
                if err not in (None, "NoTransition"):
                    raised = (op, err)
            if op[0] == "dilate" and seen_versions and err == "TypeError":   # the replay of the pending versions
                raised = (op, err)
        if not cls.startswith("unspecified"):
            if raised is not None:
                v.append(("versions-raise",
                          f"peer versions {vv!r}: {raised[0][0]} raised {raised[1]} (nothing is reported to connect() callers; "
                          f"through Boss the wormhole dies with that error)"))
            if dilated and completed:
                if cls.startswith("incapable"):
                    for i, res in enumerate(r.final["waiters"]):
                        if res != "err:OldPeerCannotDilateError":
                            v.append(("connect-not-failed:" + res.split(":")[0],
                                      f"peer versions {vv!r}: connect() #{i} is {res}, not OldPeerCannotDilateError"))
                            break
                else:
                    for i, res in enumerate(r.final["waiters"]):
                        if res == "err:OldPeerCannotDilateError":
                            v.append(("connect-failed-for-capable-peer", f"connect() #{i} is {res} although the peer can dilate"))
                            break
    # 4b. ... at the very next eventual turn, for every call already issued (fresh or held endpoint alike)
    for k2 in range(1, len(r.steps)):
        op, tok, ev, err, summ, snap = r.steps[k2]
        prev = r.steps[k2 - 1][5]
        if op == ["turn"] and prev["main_failed"]:
            for i, res in enumerate(prev["waiters"]):
                if snap["waiters"][i] == "pending":
                    v.append(("connect-not-failed:pending",
                              f"_main_channel held OldPeerCannotDilateError before this turn, yet call #{i} "
                              f"(connect()/listen() on a {'held' if any(o[0] in ('econnect', 'elisten') for o in case['ops']) else 'fresh'} "
                              f"endpoint) is still pending after it (step {k2})"))
                    break
            else:
                continue
            break
    return v


def tags_of(r):
    t = []
    seen = set()
    for (op, tok, ev, err, summ, snap) in r.steps:
        t.append("op:" + op[0] + (":" + str(op[1]) if op[0] in ("msg", "versions", "t") else ""))
        if op[0] == "versions":
            t.append("versions-class:" + vers_class(vers_value(op)))
        if tok:
            t.append("refused:" + tok)
        if err:
            t.append("raised:" + err)
        for e in ev:
            if e.startswith("log "):
                t.append("logged:" + e[4:])
        if snap["ms"] and snap["ms"] not in seen:
            seen.add(snap["ms"])
    for s in seen:
        t.append("mstate:" + s)
    if r.stop_issued:
        at = [s for (op, *_x, s) in r.steps if op == ["t", "stoppedRC"]]
        t.append("stop-issued")
    if r.final["role"]:
        t.append("role:" + r.final["role"])
    for k in classify(r.case):
        t.append("peer:" + k)
    if r.stop_issued and any(c.inbound and not c.lost and not c.closing for c in r.w.conns):
        t.append("obs:inbound-unselected-left-to-peer")
    if any(l.ready_after_stop and not l.stopped for l in r.w.listeners):
        t.append("obs:listener-ready-after-stop-stays-open")
    if r.dilate_after_stop:
        t.append("env:dilate-after-closed")
    if r.cfg.get("no_listen"):
        t.append("cfg:no_listen")
    if r.cfg.get("async_listen"):
        t.append("cfg:async_listen")
    return t


def run_case(case):
    r = Run(case).run()
    viol = oracle(r)
    # state at the moment stop was issued, for the distribution report
    tags = tags_of(r)
    for k, (op, tok, ev, err, summ, snap) in enumerate(r.steps):
        if op == ["t", "stoppedRC"] and k > 0:
            prev = r.steps[k - 1][5]
            tags.append("stop-at:" + str(prev["ms"]))
    nontrivial = r.stop_issued or bool(r.final["waiters"])
    return Result(lines=r.lines, expect=r.expect, violations=viol, tags=tags, nontrivial=nontrivial)


# ---------------------------------------------------------------------------
# cases

def prefixes(side):
    """op lists that park the Manager in each of its states (role given by the peer's side)"""
    base = [["dilate"], ["key"], ["versions", "full"]]
    wanting = base
    connecting = wanting + [["msg", "please", side]]
    with_attempts = connecting + [["msg", "hints", 2], ["dial", 0], ["dial", 1], ["dialok", 0]]
    with_candidate = with_attempts + [["inbound", 0], ["kcm", 0], ["kcm", 1]]
    connected = with_candidate + [["turn"], ["turn"]]
    lost = connected + [["lost", 0], ["turn"]]               # FLUSHING (leader) / LONELY (follower)
    p = {
        "none": [],
        "pending-only": [["key"], ["versions", "full"], ["msg", "please", side]],
        "WAITING": [["dilate"], ["key"]],
        "WANTING": wanting,
        "CONNECTING": connecting,
        "CONNECTING+attempts": with_attempts,
        "CONNECTING+candidates": with_candidate,
        "CONNECTED": connected,
        "CONNECTED+dead": connected + [["lost", 0]],
        "LOST": lost,
    }
    if side == LOW_SIDE:   # we lead
        p["CONNECTING-again"] = lost + [["msg", "reconnecting"], ["msg", "hints", 1]]
        p["CONNECTED-again"] = lost + [["msg", "reconnecting"], ["inbound", 1], ["kcm", 2], ["turn"]]
    else:
        p["ABANDONING"] = connected + [["msg", "reconnect"]]
        p["CONNECTING-again"] = lost + [["msg", "reconnect"], ["msg", "hints", 1]]
        p["CONNECTING-after-abandon"] = connected + [["msg", "reconnect"], ["lost", 0], ["turn"]]
        p["CONNECTING-restart"] = with_attempts + [["msg", "reconnect"]]
        p["CONNECTED-again"] = lost + [["msg", "reconnect"], ["inbound", 1], ["kcm", 2], ["turn"]]
    return p


def corpus():
    out = []
    for side in (LOW_SIDE, HIGH_SIDE):
        for name, pre in prefixes(side).items():
            for cfg in ({}, {"no_listen": True}, {"async_listen": True}):
                if cfg and name not in ("CONNECTING", "CONNECTING+attempts", "CONNECTED", "WANTING"):
                    continue
                ops = [o for o in pre if not (cfg.get("no_listen") and o[0] in ("inbound",))]
                if cfg.get("no_listen"):
                    # no listener: the candidate comes from the outbound connection
                    ops = [o for o in pre if o[0] != "inbound" and o != ["kcm", 1]]
                if cfg.get("async_listen"):
                    ops = []
                    for o in pre:
                        ops.append(o)
                        if o[0] == "msg" and o[1] == "please":
                            ops.append(["lready", 0])
                for variant in ("now", "turn-first", "connect-pending"):
                    mid = {"now": [], "turn-first": [["turn"]], "connect-pending": [["connect"]]}[variant]
                    out.append({"cfg": cfg, "ops": ops + mid + CLOSE, "name": f"{name}/{variant}"})
                # stop in the middle of close with late callbacks afterwards
                out.append({"cfg": cfg, "ops": ops + CLOSE + [["kcm", 0], ["kcm", 1], ["dialok", 1], ["inbound", 0],
                                                              ["msg", "hints", 1], ["turn"], ["connect"]],
                            "name": f"{name}/late"})
    # asynchronous listener that becomes ready after stop
    for side in (LOW_SIDE, HIGH_SIDE):
        out.append({"cfg": {"async_listen": True},
                    "ops": [["dilate"], ["key"], ["versions", "full"], ["msg", "please", side]] + CLOSE + [["lready", 0], ["inbound", 0]],
                    "name": "late-listener"})
    # incapable peers, every order of dilate / key / versions / connect
    for kind in INCAPABLE + ("full", "both"):
        for order in itertools.permutations(["dilate", "key", "versions"]):
            for when in ("before", "after", "both"):
                ops = []
                for o in order:
                    if o == "versions":
                        ops.append(["versions", kind])
                    else:
                        ops.append([o])
                    if o == "dilate" and when in ("before", "both") and order.index("versions") > order.index("dilate"):
                        ops.append(["connect"])
                ops.append(["connect"])
                if when == "both":
                    ops += [["turn"], ["connect"]]
                out.append({"cfg": {}, "ops": ops + [["turn"]] + CLOSE, "name": f"old/{kind}/{'-'.join(order)}/{when}"})
    # endpoint objects held by the application: obtained right after dilate(), used before AND after the peer's
    # versions arrive, re-used after an earlier call on the same object already failed; connector and listener
    # endpoints, several subprotocol names; capable and incapable peers
    EPS = [["ep", "c", "a"], ["ep", "c", "b"], ["ep", "l", "a"], ["ep", "l", "b"]]
    use_all = [["econnect", 0], ["econnect", 1], ["elisten", 2], ["elisten", 3]]
    for kind in INCAPABLE + ("full", "both"):
        for early in ([], [["econnect", 0], ["elisten", 2]], use_all):
            for key_first in (False, True):
                ops = [["dilate"]] + EPS + early
                ops += ([["key"], ["versions", kind]] if key_first else [["versions", kind], ["key"]])
                ops += [["turn"]] + use_all + [["turn"], ["econnect", 0], ["elisten", 2], ["connect"], ["turn"],
                                               ["econnect", 0], ["econnect", 1], ["turn"]]
                out.append({"cfg": {}, "ops": ops + CLOSE, "name": f"eps/{kind}/{len(early)}/{key_first}"})
        # versions (and key) waiting in the Dilator before dilate(): endpoints can only be had afterwards
        out.append({"cfg": {}, "ops": [["key"], ["versions", kind], ["dilate"]] + EPS + use_all + [["turn"]] + use_all +
                    [["turn"], ["econnect", 1], ["elisten", 3], ["turn"]] + CLOSE, "name": f"eps-replay/{kind}"})
        # endpoint used, failed/parked, then the wormhole is closed and the endpoint is used again
        out.append({"cfg": {}, "ops": [["dilate"]] + EPS + [["econnect", 0], ["key"], ["versions", kind], ["turn"]] + CLOSE +
                    [["turn"], ["econnect", 0], ["elisten", 2], ["turn"]], "name": f"eps-after-close/{kind}"})
    # a capable peer: calls on held endpoints parked before the connection exists are released by it, later ones
    # go through at once; a second listen() for the same name is refused by the demultiplexer
    for side in (LOW_SIDE, HIGH_SIDE):
        out.append({"cfg": {}, "ops": [["dilate"]] + EPS + [["econnect", 0], ["elisten", 2], ["key"], ["versions", "full"], ["turn"],
                                                          ["econnect", 1], ["msg", "please", side], ["inbound", 0], ["kcm", 0], ["turn"], ["turn"]] +
                    use_all + [["turn"], ["elisten", 2], ["econnect", 0], ["turn"]] + CLOSE, "name": "eps/capable"})
    # the Leader's peer goes silent: k ping intervals elapse (after the second the TrafficTimer fires signal_reconnect:
    # the connection is only ASKED to close, the Manager stays CONNECTED), close() at every point up to the loss
    # report, which is delayed arbitrarily
    for side in (LOW_SIDE, HIGH_SIDE):
        conn = [["dilate"], ["key"], ["versions", "full"], ["msg", "please", side], ["inbound", 0], ["kcm", 0], ["turn"], ["turn"]]
        for k in (1, 2, 3):
            tail = [["expire"]] * k + [["turn"], ["lost", 0], ["turn"], ["turn"]]
            for i in range(len(tail) + 1):          # where Dilator.stop() happens
                for j in range(0, min(i, 2) + 1):   # close() itself was issued up to two steps earlier
                    ops = conn + tail[:i - j] + CLOSE[:3] + tail[i - j:i] + CLOSE[3:] + tail[i:]
                    out.append({"cfg": {}, "ops": ops, "name": f"silent/{'L' if side == LOW_SIDE else 'F'}/{k}/{i}/{j}"})
        # silent peer, connection lost and re-made (timer cancelled and restarted), silent again
        out.append({"cfg": {}, "ops": conn + [["expire"], ["lost", 0], ["turn"], ["expire"],
                                              ["msg", "reconnecting" if side == LOW_SIDE else "reconnect"], ["inbound", 1], ["kcm", 1],
                                              ["turn"], ["expire"], ["expire"], ["expire"]] + CLOSE, "name": "silent/again"})
    # arbitrary JSON in the peer's versions message: dilate() first / later, connect() before and after
    for val in JSON_CAN_DILATE:
        body = {"can-dilate": val, "app_versions": {}}
        out.append({"cfg": {}, "ops": [["dilate"], ["connect"], ["key"], ["versions", "j", body], ["turn"], ["connect"], ["turn"]] + CLOSE,
                    "name": "json/first"})
        out.append({"cfg": {}, "ops": [["key"], ["versions", "j", body], ["dilate"], ["connect"], ["turn"], ["dilate"], ["connect"], ["turn"]] + CLOSE,
                    "name": "json/later"})
    for body in ([1], "s", None, 5, [], 0, False, ""):        # not even a dict (Boss refuses these before the Dilator)
        out.append({"cfg": {}, "ops": [["dilate"], ["connect"], ["versions", "j", body], ["turn"]] + CLOSE, "name": "json/not-a-dict"})
        out.append({"cfg": {}, "ops": [["versions", "j", body], ["dilate"], ["connect"], ["turn"]] + CLOSE, "name": "json/not-a-dict"})
    # close() in the middle of a transfer: application protocols on open subchannels have producers registered
    # (pull = what FileSender does, wrapped in PullToPush and driven by the wormhole's Cooperator; push) that are still
    # producing when the wormhole is closed; the loss of the connection arrives at any later point
    for side in (LOW_SIDE, HIGH_SIDE):
        conn = [["dilate"], ["key"], ["versions", "full"], ["connect"], ["connect"], ["msg", "please", side], ["inbound", 0], ["kcm", 0],
                ["turn"], ["turn"]]
        recon = ["msg", "reconnecting" if side == LOW_SIDE else "reconnect"]
        for prods in ([["producer", "pull", 0]], [["producer", "push", 0]],
                      [["producer", "pull", 0], ["producer", "push", 1]], [["producer", "push", 0], ["producer", "pull", 1]],
                      [["producer", "pull", 0], ["producer", "pull", 1]]):
            for mid in ([], [["turn"]], [["turn"], ["turn"], ["turn"]], [["lost", 0]], [["lost", 0], ["turn"]],
                        [["expire"], ["expire"]],
                        [["lost", 0], ["turn"], recon, ["inbound", 1], ["kcm", 1], ["turn"], ["turn"]],
                        [["lost", 0], ["turn"], recon]):
                out.append({"cfg": {}, "ops": conn + prods + mid + CLOSE, "name": "transfer"})
            # the producer is registered while the connection is down (Outbound paused), then the wormhole is closed
            out.append({"cfg": {}, "ops": conn + [["lost", 0], ["turn"]] + prods + CLOSE, "name": "transfer/down"})
            out.append({"cfg": {}, "ops": conn + [["lost", 0], ["turn"]] + prods + [recon, ["inbound", 1], ["kcm", 1], ["turn"], ["turn"]] + CLOSE,
                        "name": "transfer/down-up"})
            # registered after the wormhole was closed (late application callback)
            out.append({"cfg": {}, "ops": conn + CLOSE + prods + [["turn"], ["lost", 0], ["turn"]] + prods, "name": "transfer/late"})
    # an incapable peer that nevertheless asks to dilate
    out.append({"cfg": {}, "ops": [["key"], ["versions", "empty"], ["dilate"], ["connect"], ["turn"], ["msg", "please", LOW_SIDE],
                                   ["inbound", 0], ["kcm", 0], ["turn"], ["connect"], ["turn"]] + CLOSE, "name": "old-but-pleases"})
    # pending messages replayed in order
    out.append({"cfg": {}, "ops": [["key"], ["versions", "full"], ["msg", "please", HIGH_SIDE], ["msg", "hints", 2], ["msg", "unknown"],
                                   ["dilate"], ["dial", 0], ["dialok", 0], ["kcm", 0], ["turn"]] + CLOSE, "name": "replay-order"})
    out.append({"cfg": {}, "ops": [["dilate"], ["dilate"]] + CLOSE, "name": "dilate-twice"})
    out.append({"cfg": {}, "ops": [["dilate"], ["key"], ["versions", "full"], ["versions", "full"]] + CLOSE, "name": "versions-twice"})
    # non-conformant peers / Boss orderings (findings live here)
    out.append({"cfg": {}, "ops": [["dilate"], ["key"], ["versions", "full"], ["msg", "please", MY_SIDE]] + CLOSE, "name": "adv/reflected-please"})
    out.append({"cfg": {}, "ops": [["dilate"], ["key"], ["versions", "full"], ["msg", "please", LOW_SIDE], ["inbound", 0], ["kcm", 0], ["turn"],
                                   ["msg", "reconnect"], ["lost", 0], ["turn"]] + CLOSE, "name": "adv/reconnect-to-leader"})
    out.append({"cfg": {}, "ops": [["dilate"], ["versions", "full"], ["msg", "please", LOW_SIDE], ["key"]] + CLOSE, "name": "adv/message-before-key"})
    out.append({"cfg": {}, "ops": [["dilate"], ["key"], ["versions", "full"], ["msg", "please", HIGH_SIDE], ["inbound", 0], ["kcm", 0], ["turn"],
                                   ["lost", 0], ["turn"], ["msg", "reconnecting"]] + CLOSE, "name": "adv/reconnecting-to-follower"})
    return out


def enabled_ops(w):
    """operations that make sense in the current state of the real objects (generator only)"""
    ops = []
    for i, l in enumerate(w.listeners):
        if not l.ready:
            ops.append(["lready", i])
        elif not l.stopped:
            ops.append(["inbound", i])
    for i, a in enumerate(w.attempts):
        if a.phase == "scheduled":
            ops.append(["dial", i])
        elif a.phase == "dialing":
            ops += [["dialok", i], ["dialfail", i]]
    m = w.mgr()
    if m is not None and m._timer is not None and m._timer.active():
        ops += [["expire"]] * 3
    for i, c in enumerate(w.conns):
        if not c.lost:
            if automat_state(c.proto) == "unselected":
                ops.append(["kcm", i])
            ops.append(["lost", i])
            if c.closing:
                ops += [["lost", i]] * 2
    return ops


def gen_case(rng, adversarial):
    cfg = {}
    r = rng.random()
    if r < 0.15:
        cfg = {"no_listen": True}
    elif r < 0.3:
        cfg = {"async_listen": True}
    side = rng.choice([LOW_SIDE, HIGH_SIDE])
    leader = side == LOW_SIDE
    x = rng.random()
    if x < 0.65:
        vop = ["versions", "full"]
    elif x < 0.8:
        vop = ["versions", rng.choice(list(VERSIONS))]
    else:
        vop = ["versions", "j", gen_versions(rng, adversarial)]
    setup = [["dilate"], ["key"], vop]
    rng.shuffle(setup)
    if not adversarial and setup.index(["key"]) > 0 and rng.random() < 0.5:
        setup.remove(["key"])
        setup.insert(0, ["key"])
    ops = []
    w = World(cfg)
    n = rng.randint(4, 26)
    stop_at = rng.randint(0, n)
    role_known = False
    t_seq = list(CLOSE)
    have_key = False
    with w:
        def do(op):
            ops.append(op)
            try:
                w.op(op)
            except Exception:
                pass
        # start from one of the parked states of the corpus two times out of three
        if not cfg and rng.random() < 0.66:
            pre = rng.choice(list(prefixes(side).values()))
            for op in pre:
                do(op)
            setup = [o for o in setup if o not in pre and not (o[0] == "versions" and any(x[0] == "versions" for x in pre))]
            have_key = ["key"] in pre
            role_known = any(o[:2] == ["msg", "please"] for o in pre) and ["dilate"] in pre
        k = 0
        while k < n:
            k += 1
            if k == stop_at or (len(t_seq) < len(CLOSE) and t_seq and rng.random() < 0.5):
                if t_seq:
                    do(t_seq.pop(0))
                    continue
            x = rng.random()
            if setup and x < 0.35:
                op = setup.pop(0)
                if op == ["key"]:
                    have_key = True
                do(op)
                continue
            if x < 0.5:
                do(["turn"])
                continue
            if x < 0.58:
                do(["connect"])
                continue
            if x < 0.7 and w.protos and rng.random() < 0.5:
                i = rng.choice(sorted(w.protos))
                if i not in w.sources or (adversarial and rng.random() < 0.2):
                    do(["producer", rng.choice(["pull", "pull", "push"]), i])
                    continue
            if x < 0.66 and w.mgr() is not None:
                y = rng.random()
                if y < 0.3 or not w.eps:
                    do(["ep", rng.choice(["c", "l"]), rng.choice(["a", "b", "cc"])])
                else:
                    i = rng.randrange(len(w.eps))
                    if adversarial and rng.random() < 0.15:
                        do([rng.choice(["econnect", "elisten"]), rng.randint(0, len(w.eps))])
                    else:
                        do(["econnect" if w.eps[i][0] == "c" else "elisten", i])
                continue
            if x < 0.75 and (have_key or adversarial):
                m = w.mgr()
                ms = automat_state(m) if m is not None else None
                choices = []
                if not role_known:
                    choices.append(["msg", "please", side])
                choices.append(["msg", "hints", rng.randint(0, 2)])
                if role_known and not leader:
                    choices += [["msg", "reconnect"]] * 2
                if role_known and leader:
                    choices += [["msg", "reconnecting"]] * 2
                if adversarial:
                    choices += [["msg", "reconnect"], ["msg", "reconnecting"], ["msg", "unknown"], ["msg", "please", side],
                                ["msg", "please", MY_SIDE], ["versions", rng.choice(list(VERSIONS))], ["dilate"], ["key"],
                                ["t", rng.choice(["close", "stoppedRC", "stoppedD", "mailbox_done"])]]
                op = rng.choice(choices)
                if op[:2] == ["msg", "please"] and op[2] != MY_SIDE and (ms == "WANTING" or m is None):
                    role_known = True
                do(op)
                continue
            en = enabled_ops(w)
            if adversarial and rng.random() < 0.2:
                en.append([rng.choice(["lready", "inbound", "dial", "dialok", "dialfail", "kcm", "lost"]), rng.randint(0, 4)])
            if en:
                do(rng.choice(en))
            else:
                do(["turn"])
        for op in setup:
            if rng.random() < 0.7:
                do(op)
        # held endpoints are used once more at the end (after whatever the peer's versions turned out to be)
        if w.eps and rng.random() < 0.7:
            do(["turn"])
            for i, e in enumerate(w.eps):
                do(["econnect" if e[0] == "c" else "elisten", i])
        if rng.random() < 0.85:
            for op in t_seq:
                do(op)
            # late callbacks after stop
            for _ in range(rng.randint(0, 4)):
                en = enabled_ops(w)
                do(rng.choice(en) if en and rng.random() < 0.7 else ["turn"])
    return {"cfg": cfg, "ops": ops}


def cases(rng, tier):
    out = corpus()
    n = 700 if tier == "quick" else 12000
    for i in range(n):
        out.append(gen_case(rng, adversarial=(i % 4 == 3)))
    if tier == "thorough":
        out += exhaustive()
    return out


def exhaustive():
    """small scope: every placement of the close sequence and of one `turn` inside the standard run"""
    out = []
    for side in (LOW_SIDE, HIGH_SIDE):
        std = [["dilate"], ["key"], ["versions", "full"], ["msg", "please", side], ["msg", "hints", 1], ["dial", 0], ["dialok", 0],
               ["inbound", 0], ["kcm", 0], ["kcm", 1], ["turn"], ["lost", 0], ["turn"],
               ["msg", "reconnecting" if side == LOW_SIDE else "reconnect"], ["inbound", 1], ["kcm", 2], ["turn"]]
        for i in range(len(std) + 1):
            for j in range(i, len(std) + 1):
                ops = std[:i] + CLOSE[:3] + std[i:j] + CLOSE[3:] + std[j:]
                out.append({"cfg": {}, "ops": ops})
    return out


def search(rng, seconds, seeds):
    import time
    t0 = time.time()
    for c in corpus():
        yield c, run_case(c)
    for c in seeds:
        yield c, run_case(c)
    i = 0
    while time.time() - t0 < seconds:
        c = gen_case(rng, adversarial=(i % 3 == 2))
        i += 1
        yield c, run_case(c)


def shrink(case):
    ops = case["ops"]
    for i in range(len(ops)):
        yield dict(case, ops=ops[:i] + ops[i + 1:])
