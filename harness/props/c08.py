"""C08 — close() completes once, with the right verdict, and frees server resources."""
import time

from ..core import Result
from .. import mailbox_corr as mc
from . import c14

ID = "C08"
MODEL = "CLIENT"
PROP_MODULES = ["WV.Props.ClientSkel", "WV.Props.C08"]
# translation validation of the control machines' method bodies against WV.Client (tools/extract.py::extract_pyir ->
# WV/Gen/PyIR.lean; agents/deepPyIR2_integration.md): part of the check as soon as the modules are installed
import os as _os
PROP_MODULES += ["WV.Props." + _m for _m in ("PyIR_Client", "PyIR_Client_Boss", "PyIR_Client_Glue", "PyIRRC_C14")
                 if _os.path.exists(_os.path.join(_os.path.dirname(_os.path.abspath(__file__)), "..", "..", "lean", "WV",
                                                  "Props", _m + ".lean"))]
NATIVE_DECIDE_MODULES = ["WV.Proofs.ClientCert"]
TRUSTED = c14.TRUSTED
RULE = ("guided random schedules of the mailbox World as for C14, each followed by a cooperative completion phase "
        "(close() if not yet called, reconnect, deliver every owed answer); per-step comparison with the Lean model; "
        "the oracle inspects the REAL server's tables at the moment `closed` is notified; distinct = distinct traces")

MOOD_OF = {"happy": "happy", "LonelyError": "lonely", "WrongPasswordError": "scary", "ServerError": "errory", "WelcomeError": "unwelcome"}
DOC_VERDICTS = ("happy", "LonelyError", "WrongPasswordError", "ServerError", "WelcomeError", "ServerConnectionError")


def cases(rng, tier):
    # ... and on the real connection stack (c14.run_real): closed exactly once, nothing after it, a documented verdict
    from . import c18
    errs = [c for c in c18.err_cases(rng, tier) if "closing" in str(c.get("moment", "")) or (c.get("walk") or {}).get("when") == "closing"]
    return _guided_cases(rng, tier) + _pair_cases(rng, tier) + c14.real_cases(rng, tier) + errs[:60 if tier == "quick" else 2000]


def _pair_cases(rng, tier):
    # both API styles: a delegated and a Deferred client; after closed nothing may reach the application,
    # not even through get_message() on messages that were buffered before the close
    m = 25 if tier == "quick" else 600
    return [dict(kind="pair", seed=rng.randrange(10**9), fifo=rng.random() < 0.5, match=rng.random() < 0.8,
                 nmsg=rng.randrange(1, 4), drops=rng.random() < 0.3) for _ in range(m)]


def _guided_cases(rng, tier):
    n = 50 if tier == "quick" else 1200
    out = [dict(seed=2000 + i, n=60, profile=p) for i, p in enumerate(mc.PROFILES)]
    # scripted: close() around connection establishment, and a hostile third participant (all end with the owed
    # answers delivered, so the full oracle applies)
    for c in mc.connection_corpus() + mc.hostile_corpus():
        c = dict(c)
        c["finished"] = True
        out.append(c)
    for _ in range(n):
        out.append(dict(seed=rng.randrange(10**9), n=rng.choice([10, 25, 50, 90, 150]), profile=rng.choice(mc.PROFILES)))
    return out


def oracle(summary):
    viol = []
    ev = summary["events"]
    closed = [(i, v) for i, (n, v) in enumerate(ev) if n == "closed"]
    if len(closed) > 1:
        viol.append(("closed-twice", f"closed notified {len(closed)} times: {closed}"))
    if closed and closed[0][0] != len(ev) - 1:
        viol.append(("event-after-closed", f"events after closed: {ev[closed[0][0] + 1:]}"))
    internal = bool(summary["internal"])
    if not closed:
        # liveness on the real code: after close() and a cooperative environment, closed must come
        if summary.get("closed_by_app") and not internal:
            viol.append(("close-never-completes", f"close() called, environment cooperative, no closed notification; states {summary['states']}"))
        return viol
    v = closed[0][1]
    h = summary["hist"]
    # (an internal failure is C14's business as such, but what the application is told and what is left behind on
    # the server are judged here all the same)
    ok = True
    if v == "happy":
        ok = h["good"] and not h["bad"]
    elif v == "LonelyError":
        ok = not h["good"] and not h["bad"]
    elif v == "WrongPasswordError":
        ok = h["bad"]
    elif v == "ServerError":
        ok = h["server_error"]
    elif v == "WelcomeError":
        ok = h["welcome_error"]
    elif v == "ServerConnectionError":
        # only a wormhole that never had a working server connection may give up like this
        ok = not summary.get("ever_opened", False)
    else:
        ok = False
    if not ok:
        viol.append(("verdict:" + str(v), f"closed({v}) not justified by history {h}"))
    if h.get("ignored"):
        viol.append(("cause-ignored:" + h["ignored"].split()[0], f"a {h['ignored']} was delivered while the wormhole was open and it did not start closing (closed({v}))"))
    cause = h.get("cause")
    if cause and not cause.startswith("?") and v != cause:
        viol.append(("verdict-not-first-cause:" + str(cause), f"the wormhole started closing because of {cause} but reported closed({v})"))
    snap = summary["at_closed"]
    # "closed its mailbox with the matching mood": every `close` this client put on the wire carries the mood of the verdict
    if snap and v in MOOD_OF:
        wrong = [m for m in snap.get("close_moods", []) if m != MOOD_OF[v]]
        if wrong:
            viol.append(("mood-mismatch:%s:%s" % (v, wrong[0]), f"closed({v}) but the mailbox was closed on the wire with mood {wrong} "
                         f"(the mood of this verdict is {MOOD_OF[v]!r})"))
    if snap and v in DOC_VERDICTS and v != "ServerConnectionError" and snap["terminator"] == "S_stopped":
        side = snap["side"]
        held = [r for r in snap["server"]["nameplate_sides"] if r["side"] == side and r["claimed"]]
        if held:
            sent = snap.get("sent_types", [])
            unknown = [r for r in held if r["name"] not in snap.get("claimed_names", [])]
            if unknown and len(unknown) == len(held) and "allocate" in sent:
                # the claim the server made on our behalf while processing `allocate`
                viol.append(("claim-not-released:allocate-in-flight",
                             f"close() while allocating: closed notified, the nameplate the server allocated-and-claimed for us was never released {held}"))
            else:
                viol.append(("claim-not-released", f"closed notified while the server still holds our claim {held}"))
        # only mailboxes this client opened itself: the server also marks a side "opened" as a side
        # effect of `claim`, which a client that closes before `claimed` arrives never learns about
        opened = [r for r in snap["server"]["mailbox_sides"] if r["side"] == side and r["opened"]
                  and r["mailbox_id"] in snap.get("opened_by_client", [])]
        if opened:
            viol.append(("mailbox-not-closed", f"closed notified while our mailbox side is still open {opened}"))
        if snap["connected"]:
            viol.append(("connection-not-dropped", "closed notified while the server connection is still up"))
    return viol


def trace_oracle(summary):
    """what can be judged on a direct-drive replay: once-only closed, nothing after it, documented verdict"""
    viol = []
    ev = summary["events"]
    closed = [(i, v) for i, (n, v) in enumerate(ev) if n == "closed"]
    if len(closed) > 1:
        viol.append(("closed-twice", f"closed notified {len(closed)} times: {closed}"))
    if closed and closed[0][0] != len(ev) - 1:
        viol.append(("event-after-closed", f"events after closed: {ev[closed[0][0] + 1:]}"))
    if closed and not summary["internal"] and closed[0][1] not in DOC_VERDICTS:
        viol.append(("verdict:" + str(closed[0][1]), f"closed with undocumented verdict {closed[0][1]}"))
    for ent in summary["internal"]:
        viol.append(("internal:" + ent[0], f"internal failure {ent}"))
    return viol


EXTRA_TARGETS = ["wvsearch"]
evidence_extra = mc.cert_stats


def run_case(case):
    if case.get("kind") == "real":
        r = c14.run_real(case)
        keep = [(sg, m) for sg, m in r.violations if sg.startswith(("real:", "verdict:"))]
        return Result([], [], keep, r.tags, True, info=r.info)
    if case.get("kind") == "pair":
        from . import c18
        r = c18.run_pair(case)
        keep = [(sg, m) for sg, m in r.violations
                if sg.startswith(("get-after-closed", "event-after-closed", "event-twice:closed", "internal", "second-close", "verdict:"))]
        return Result([], [], keep, ["pair"], True, info=r.info)
    if case.get("kind") == "err":
        # "close() (or an error)": an exception that reaches Boss.error at any moment — here because the server said something
        # the client cannot process (C18's error-path family, run on the real client in both API styles) — still
        # leads to exactly ONE closed notification and nothing after it, also when it falls into a close() under way
        from . import c18
        r = c18.run_err(case)
        keep = [(sg, m) for sg, m in r.violations if sg.startswith(("event-twice:closed", "event-after-closed", "second-close"))]
        return Result([], [], keep, ["err:" + str(case.get("moment", "walk"))], True, info=r.info)
    if case.get("kind") == "trace":
        return mc.run_trace_case(case, trace_oracle)
    if "ops" in case:
        ob, summary = mc.replay(case["ops"], welcome_error=case.get("welcome_error"), npeers=case.get("npeers"),
                                seed=case.get("seed", 0))
        summary["closed_by_app"] = any(op[:3] == ["api", 0, "close"] for op in case["ops"]) and case.get("finished", False)
        prof = case.get("profile", "replay")
    else:
        ops, ob, summary = mc.guided(case["seed"], case["n"], case["profile"], finish_run=True)
        prof = case["profile"]
    viol = oracle(summary)
    tags = ["profile:" + prof] + ["verdict:" + str(v) for n, v in summary["events"] if n == "closed"]
    nontrivial = any(n == "closed" for n, v in summary["events"])
    return Result(ob.lines, ob.expect, viol, sorted(set(tags)), nontrivial)


def explicit(case):
    if "ops" in case:
        return case
    ops, ob, summary = mc.guided(case["seed"], case["n"], case["profile"], finish_run=True)
    npeers = 0 if case["profile"] in ("lonely", "fail-initial", "welcome-error", "third-alone") else (2 if case["profile"] == "crowded" else 1)
    return dict(ops=ops, seed=case["seed"], npeers=npeers, profile=case["profile"], finished=True,
                welcome_error="please upgrade" if case["profile"] == "welcome-error" else None)


def shrink(case):
    if case.get("kind") == "pair":
        return
    if case.get("kind") == "real":
        yield from c14.shrink(case)
        return
    if case.get("kind") == "trace":
        yield from mc.trace_shrink(case)
        return
    case = explicit(case)
    ops = case["ops"]
    for i in range(len(ops) - 1, -1, -1):
        c = dict(case)
        c["ops"] = ops[:i] + ops[i + 1:]
        yield c


def search(rng, seconds, seeds):
    t0 = time.time()
    yield from mc.model_guided(trace_oracle)
    for c in seeds:
        yield c, run_case(c)
    while time.time() - t0 < seconds:
        c = dict(seed=rng.randrange(10**9), n=rng.choice([25, 60, 120]), profile=rng.choice(mc.PROFILES))
        yield c, run_case(c)
