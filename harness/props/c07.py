"""C07 — transit picks exactly one connection, chosen by the sender, key holders only.

Transit world: a real `TransitSender`/`TransitReceiver` (real `connect()`, `_connect`,
`there_can_be_only_one`, `_not_forever`, `InboundConnectionFactory`, `OutboundConnectionFactory`,
`Connection`), real HKDF handshake strings, `task.Clock` as reactor, in-memory transports and
endpoints.  Every op line is also run by the Lean model (`WV.C07.driver`); the oracle below states
the property on what the real objects did.

LATE contenders (op `accept`, two-sided `link sl k`): under "the port accepts exactly until stopListening()" no
connection can finish its handshake once `_winner` is set - `connection_ready`'s nevermind branch is then dead code and
nothing run here would notice if it broke.  The property speaks of early OR LATE contenders, and IListeningPort only
promises that stopListening() *eventually* closes the port.  So, once a side has made its selection, the world lets
the (stopped) port hand the real InboundConnectionFactory further connections: key holders with their handshake cut at
every byte position, strangers, partial handshakes that run into the 60 s timer, several at once, with the winner alive,
lost, mid-record or hung up; two-sided, the Receiver's second dial reaching the Sender after its selection.  Oracle:
never a second go (`late-contender-confirmed`, `two-go`), nevermind + close as soon as the handshake is complete
(`late-contender-not-refused`), never selected (`late-contender-selected`, `two-selected`, `not-same-link`), closed by the
first wrong byte or the timer (`stranger-not-closed`, `conn-timeout-missed`).  Model: `evAccept`, `runL`, `drunL`;
theorems in WV.Props.C07_Late.  Not generated: arrivals after a FAILED connect() (there the closed port is the code's
only defence: `port_closed_once_fired`; a port that leaked then would make HEAD say go after its connect() failed).

After the last compared line, `zombie_probe` (observation only, no model counterpart) completes every outbound attempt
that was cancelled while still connecting - an endpoint whose cancel is asynchronous - and checks that such a connection
is never confirmed and does not stay open (`cancelled-attempt-confirmed`, `cancelled-attempt-left-open`).
"""
import itertools
import os
import random
import time
from unittest import mock

from twisted.internet import defer, task, error, protocol
from twisted.internet.address import IPv4Address
from twisted.internet.error import ConnectionDone, ConnectionRefusedError
from twisted.python.failure import Failure

from wormhole import transit
from wormhole._hints import DirectTCPV1Hint

from ..core import Result
from ..fakes import hx

ID = "C07"
PROP_MODULES = ["WV.Props.C07", "WV.Props.C07_Late"]
# the truthiness pin needs three facts that tools/extract.py generates only from the round-9 version on
# (connection_ready_winner_test, connection_truth_hooks, winner_test_means_is_set); its file comes with that change
if os.path.exists(os.path.join(os.path.dirname(os.path.abspath(__file__)), "..", "..", "lean", "WV", "Props", "C07_Pin.lean")):
    PROP_MODULES.append("WV.Props.C07_Pin")
# translation validation of the Connection method bodies, handshake part (tools/extract.py::extract_pyir_tr ->
# WV/Gen/PyIRTr.lean): part of the check as soon as the module is installed (agents/deepTr_integration.md)
if os.path.exists(os.path.join(os.path.dirname(os.path.abspath(__file__)), "..", "..", "lean", "WV", "Props", "PyIRTr_C07.lean")):
    PROP_MODULES.append("WV.Props.PyIRTr_C07")
TRUSTED = ["HKDF/SHA-256: the sender, receiver and relay handshake strings of a key are parameters of the model (distinct, "
           "neither a prefix of the other: hypotheses of the theorems; the harness uses the real strings)",
           "Twisted Deferred semantics (cancel() fires synchronously; callbacks run in order) and task.Clock ordering",
           "transports deliver no dataReceived after loseConnection()/connectionLost (the harness never does)",
           "the listening port (a harness object) accepts connections (op `inbound`) exactly while stopListening() has not been "
           "called; what it may still hand to the factory afterwards is an event of its own (op `accept`, a LATE contender), "
           "generated only once this side has made its selection - after a FAILED connect() the closed port is the code's only "
           "defence (theorem port_closed_once_fired), so no arrival is generated there",
           "real TCP connect/refuse/timeout behaviour, DNS, Tor",
           "the record layer after negotiation (C06): only its boundary is modelled - an incomplete length prefix / "
           "incomplete record waits, a complete record is handed over; no harness peer holds the record keys, so a "
           "complete record always makes the real code raise (reported as RecordError)"]
RULE = ("a real TransitSender/TransitReceiver with 0-1 listener, 0-3 direct and 0-2 relay contenders, 1-5 connections whose "
        "peers are honest / stranger / wrong-key / reflected / partial / one-byte-off / relay-refused, bytes delivered in "
        "random chunks in random interleavings chosen against the live state, connection losses, connect failures and "
        "clock advances up to and beyond the per-connection timeout and the connect() deadline; thorough adds every "
        "interleaving of 3 connections x 3 progress points; two-sided runs: a real TransitSender and a real TransitReceiver "
        "with the same key whose connections are joined by links (direct either way, via relay, racing links) that pipe "
        "the written bytes in order in random pieces, plus strangers on unlinked connections, with the same_link oracle; "
        "LATE contenders: once a side has made its selection its listening port (stopped by then) still hands "
        "the factory further connections - key holders whose handshake is cut at every byte position, strangers, partial handshakes "
        "that time out, several late contenders interleaved, with the winner alive, lost or busy; two-sided: the Receiver's second "
        "dial reaches the Sender after its selection (late link); non-trivial = at least one connection finished its handshake "
        "or was rejected; distinct = distinct canonical traces")

KEY = bytes(range(32))
OTHER_KEY = bytes(range(1, 33))
DEADLINE = 120          # 2 * TIMEOUT, the documented bound for connect()
CONN_TIMEOUT = 60
GO = b"go\n"
NEVERMIND = b"nevermind\n"


class FakeTransport:
    def __init__(self):
        self.written = []
        self.lost = 0

    def write(self, data):
        self.written.append(bytes(data))

    def loseConnection(self):
        self.lost += 1

    def getPeer(self):
        return IPv4Address("TCP", "10.0.0.9", 9)

    def getHost(self):
        return IPv4Address("TCP", "10.0.0.1", 1)


class FakeEndpoint:
    def __init__(self, label):
        self.label = label
        self.factory = None
        self.d = None
        self.real = None          # the endpoint the REAL endpoint_from_hint_obj built for this hint

    def real_failure(self):
        """what the REAL twisted endpoint's connect() fails with on the spot, if it does: HostnameEndpoint answers an
        illegal hostname (underscore, space, empty or over-long label, ...) with defer.fail(ValueError(...)) without
        touching the reactor.  Other endpoints / legal names would need a resolver: None."""
        if not getattr(self.real, "_badHostname", False):
            return None
        got = []
        d = self.real.connect(protocol.Factory())
        d.addErrback(got.append)
        return got[0] if got else None

    def connect(self, f):
        assert self.d is None
        self.factory = f
        self.cancelled = False

        def canceller(d):
            self.cancelled = True          # Deferred.cancel() then errbacks it with CancelledError, as without a canceller
        self.d = defer.Deferred(canceller)
        return self.d


class FakePort:
    """the listening port: inbound connections are delivered only while stopListening() has not been called.  Like a
    real tcp.Port, stopListening() returns a Deferred that fires LATER, when the port is really closed (harness op
    `portclosed`)."""

    def __init__(self):
        self.stopped = 0
        self.closed_d = None

    def stopListening(self):
        self.stopped += 1
        if self.closed_d is None:
            self.closed_d = defer.Deferred()
        return self.closed_d

    def closing(self):
        return self.closed_d is not None and not self.closed_d.called


class FakeServerEndpoint:
    def __init__(self):
        self.port = None

    def listen(self, f):
        self.port = FakePort()
        return defer.succeed(self.port)


class Obs:
    """pass-through observer of a Deferred"""

    def __init__(self, d):
        self.res = "pending"
        d.addBoth(self._fire)

    def _fire(self, r):
        self.res = ("fail", type(r.value).__name__) if isinstance(r, Failure) else ("ok", r)
        return r


class World:
    def __init__(self, cfg):
        self.cfg = cfg
        self.clock = task.Clock()
        self.sender = cfg["role"] == "S"
        cls = transit.TransitSender if self.sender else transit.TransitReceiver
        self.t = cls("", reactor=self.clock)
        # `wormhole receive` knows the key before it listens; `wormhole send` calls get_connection_hints() (which
        # starts the listener) BEFORE set_transit_key(): cfg["late_key"] selects that order, op "setkey" ends it
        self.has_key = not cfg.get("late_key", False)
        if self.has_key:
            self.t.set_transit_key(KEY)
        hs_s, hs_r = transit.build_sender_handshake(KEY), transit.build_receiver_handshake(KEY)
        self.send_this, self.expect_this = (hs_s, hs_r) if self.sender else (hs_r, hs_s)
        self.relay_hs = transit.build_sided_relay_handshake(KEY, self.t._side)
        listener = cfg["listener"]
        sep = FakeServerEndpoint()
        self.t._build_listener = (lambda: ([DirectTCPV1Hint("127.0.0.1", 1, 0.0)], sep)) if listener \
            else (lambda: ([], None))
        self.t.get_connection_hints()
        self.port = sep.port if listener else None
        self.listener_obs = Obs(self.t._listener_d) if listener else None
        # the peer's hints: [host, port, priority] entries; the same host:port may occur twice, a hostname may be
        # one for which building the endpoint is delicate (NUL bytes, scope ids, ...)
        self.dhints = [list(h) for h in cfg.get("dhints", [[f"d{j}", 1, 0] for j in range(cfg.get("directs", 0))])]
        rh = [list(h) for h in cfg.get("rhints", [[f"r{j}", 1, p] for j, p in enumerate(cfg.get("relays", []))])]
        self.rhints = []
        for h in rh:                       # identical relay hints are one hint (the code keeps them in a set)
            if h not in self.rhints:
                self.rhints.append(h)
        hints = []
        self.labels = []
        self.entries = []                  # per outbound contender: (label, host, port, prio, is_relay)
        if listener:
            self.labels.append(None)
        for j, (host, port, prio) in enumerate(self.dhints):
            hints.append({"type": "direct-tcp-v1", "hostname": host, "port": port, "priority": float(prio)})
            self.labels.append(f"d{j}")
            self.entries.append([f"d{j}", host, port, float(prio), False, False])
        for j, (host, port, prio) in enumerate(self.rhints):
            hints.append({"type": "relay-v1", "hints": [{"type": "direct-tcp-v1", "hostname": host, "port": port,
                                                         "priority": float(prio)}]})
            self.labels.append(f"r{j}")
            self.entries.append([f"r{j}", host, port, float(prio), True, False])
        self.t.add_connection_hints(hints)
        self.eps = {l: FakeEndpoint(l) for l in self.labels if l}
        # what the model is told: description keys (equal = same description) and whether the REAL
        # endpoint_from_hint_obj raises for the hint
        from wormhole import _hints as _h
        descs = {}
        self.keys, self.raises = [], []
        if listener:
            self.keys.append(999)
            self.raises.append(0)
        for lab, host, port, prio, is_relay, _ in self.entries:
            self.keys.append(descs.setdefault((is_relay, host, port), len(descs)))
            try:
                _h.endpoint_from_hint_obj(DirectTCPV1Hint(host, port, prio), None, self.clock)
                self.raises.append(0)
            except Exception:
                self.raises.append(1)
        self.conns = []          # dicts: p, tr, obs, rx, relay, gone, born
        self.started = False
        self.t0 = None
        self.result = None
        self.viol = []

    # -- ops --------------------------------------------------------------------------------
    def port_open(self):
        return self.port is not None and not self.port.stopped

    def fired(self):
        return self.result is not None and self.result.res != "pending"

    def selected(self):
        """has this side made its selection?  The Sender: `_winner` is set; the Receiver: a negotiation succeeded."""
        if self.sender:
            return self.t._winner is not None
        return any(c["obs"].res != "pending" and c["obs"].res[0] == "ok" for c in self.conns)

    def can_accept(self):
        return self.listener_obs is not None and self.selected()

    def _new_conn(self, factory, relay, forced=False):
        p = factory.buildProtocol(IPv4Address("TCP", "10.0.0.9", 9))
        p.callLater = self.clock.callLater
        # `late`: came through the OPEN port after connect() had fired (the port's lifetime is wrong);
        # `forced`: a late contender handed over by a port that had been told to stop (op `accept`)
        c = dict(p=p, tr=FakeTransport(), obs=Obs(p._negotiation_d), rx=b"", relay=relay, gone=False,
                 born=self.clock.seconds(), late=self.fired() and not forced, forced=forced)
        self.conns.append(c)
        return c

    def _guard(self, f):
        try:
            f()
            return None
        except Exception as e:       # what Twisted would log; the connection is dropped by the code itself
            return e

    def _exc_name(self, c, e):
        """class name of an exception seen on connection `c`; once the negotiation has succeeded the only
        code left in dataReceived is the record layer (C06's subject), whose exceptions (ValueError on an
        empty record, BadNonce, nacl CryptoError, ...) are all reported as `RecordError`"""
        if e is None:
            return None
        negotiated = c is not None and c["obs"].res != "pending" and c["obs"].res[0] == "ok"
        if negotiated and not isinstance(e, (transit.BadHandshake, defer.CancelledError)):
            return "RecordError"
        return type(e).__name__

    def op(self, op):
        """returns None (not possible now: skipped) or the canonical summary line"""
        k = op[0]
        raised = None
        rc = None          # the connection a raised exception belongs to
        if k == "inbound":
            if not self.port_open():
                return None
            c = rc = self._new_conn(self.t._listener_f, False)
            raised = self._guard(lambda: c["p"].makeConnection(c["tr"]))
            if raised is not None:
                # startNegotiation() raised before the factory subscribed to the negotiation Deferred: nobody ever
                # will; what it is going to errback with is fixed.  Reported (like the model does) as failed.
                c["orphan"] = type(raised).__name__
        elif k == "accept":
            # a LATE contender: this side has made its selection (so stopListening() was called), and the port still
            # hands one more connection to the InboundConnectionFactory: an accept that raced with the stop, a backlog,
            # a listener that is slower than tcp.Port.  Nobody is left to cancel it.
            if not self.can_accept():
                return None
            c = rc = self._new_conn(self.t._listener_f, False, forced=True)
            raised = self._guard(lambda: c["p"].makeConnection(c["tr"]))
            if raised is not None:
                c["orphan"] = type(raised).__name__
        elif k == "portclosed":
            # the listening port finishes closing (a reactor turn or more after stopListening())
            if self.port is not None and self.port.closing():
                self.port.closed_d.callback(None)
        elif k == "setkey":
            if self.has_key:
                return None
            self.has_key = True
            self.t.set_transit_key(KEY)
        elif k == "connect":
            if self.started or not self.has_key:
                return None
            self.started = True
            self.t0 = self.clock.seconds()
            from wormhole import _hints as _h
            real = _h.endpoint_from_hint_obj

            def efho(h, tor, reactor):
                ep = real(h, tor, reactor)          # the REAL function decides (may return None, may raise)
                if not ep:
                    return ep
                for e in self.entries:              # directs are asked first, in list order; then the relays
                    if not e[5] and (e[1], e[2], e[3]) == (h.hostname, h.port, float(h.priority)):
                        e[5] = True
                        self.eps[e[0]].real = ep
                        return self.eps[e[0]]
                raise AssertionError(f"harness: unexpected hint {h!r}")
            with mock.patch("wormhole.transit.endpoint_from_hint_obj", efho):
                d = self.t.connect()
            self.result = Obs(d)
            d.addErrback(lambda f: None)
        elif k in ("connected", "connfail"):
            self.last_cls = "ConnectionRefusedError"
            lab = self.labels[op[1]] if op[1] < len(self.labels) else None
            ep = self.eps.get(lab)
            if ep is None or ep.d is None or ep.d.called:
                return None
            if k == "connfail":
                kind = op[2] if len(op) > 2 else "refused"
                f = None
                if kind == "real":
                    f = ep.real_failure()
                elif kind == "dns":
                    f = Failure(error.DNSLookupError("no such host"))
                elif kind == "timeout":
                    f = Failure(error.TimeoutError())
                elif kind == "other":
                    f = Failure(RuntimeError("stream failed"))       # e.g. a Tor stream error: not a ConnectError
                if f is None:
                    f = Failure(ConnectionRefusedError())
                self.last_cls = type(f.value).__name__
                ep.d.errback(f)
            else:
                c = rc = self._new_conn(ep.factory, lab.startswith("r"))

                def go():
                    c["p"].makeConnection(c["tr"])
                    ep.d.callback(c["p"])
                raised = self._guard(go)
        elif k == "data":
            i = op[1]
            if i >= len(self.conns):
                return None
            c = rc = self.conns[i]
            if c["tr"].lost or c["gone"]:
                return None
            data = bytes.fromhex(op[2])
            c["rx"] += data
            c.setdefault("chunks", []).append(len(data))
            raised = self._guard(lambda: c["p"].dataReceived(data))
        elif k == "lost":
            i = op[1]
            if i >= len(self.conns) or self.conns[i]["gone"]:
                return None
            c = rc = self.conns[i]
            c["gone"] = True
            raised = self._guard(lambda: c["p"].connectionLost(Failure(ConnectionDone())))
        elif k == "advance":
            self.clock.advance(float(op[1]))
        else:
            raise ValueError(op)
        self.check()
        s = self.summary()
        raised = self._exc_name(rc, raised)
        return ("raised=%s " % raised if raised else "") + s

    # -- observation ------------------------------------------------------------------------
    def tok(self, b):
        if b == self.send_this:
            return "S"
        if b == GO:
            return "G"
        if b == NEVERMIND:
            return "N"
        if b == self.relay_hs:
            return "Y"
        return "<" + hx(b) + ">"

    def idx(self, p):
        for i, c in enumerate(self.conns):
            if c["p"] is p:
                return i
        return "?"

    def show_res(self, r):
        if r is None or r == "pending":
            return "pending"
        if r[0] == "ok":
            return f"ok:{self.idx(r[1])}"
        return "fail:" + r[1]

    def summary(self):
        cs = []
        for i, c in enumerate(self.conns):
            p = c["p"]
            st = p.state if isinstance(p.state, str) else repr(p.state)
            tc = getattr(p, "_TimeoutMixin__timeoutCall", None)
            cs.append(":".join([str(i), st.replace(" ", "-"), str(len(p.buf)),
                                "".join(self.tok(b) for b in c["tr"].written) or "-", str(c["tr"].lost),
                                ("fail:" + c["orphan"]) if c.get("orphan") else
                                (self.show_res(c["obs"].res) if c["obs"].res == "pending" or c["obs"].res[0] == "fail" else "ok"),
                                self._exc_name(c, p._error) or "-",
                                "t" if tc is not None and tc.active() else "-"]))
        w = self.idx(self.t._winner) if self.t._winner is not None else "-"
        lst = self.show_res(self.listener_obs.res) if self.listener_obs else "none"
        pend = len(self.t._listener_f._pending_connections) if self.listener_obs else 0
        timers = len([dc for dc in self.clock.getDelayedCalls() if dc.active()])
        res = self.show_res(self.result.res) if self.result else "pending"
        return f"W={w} R={res} L={lst} O={'open' if self.port_open() else 'closed'} K={1 if self.has_key else 0} P={pend} T={timers} | " + " ".join(cs)

    # -- the property, on the real objects, after every event ---------------------------------
    def check(self):
        v = self.viol
        E = self.expect_this
        now = self.clock.seconds()
        go_conns, ok_conns = [], []
        for i, c in enumerate(self.conns):
            p, tr = c["p"], c["tr"]
            pre = b"ok\n" if c["relay"] else b""
            wrote = b"".join(tr.written)
            hs = (self.relay_hs if c["relay"] else b"") + self.send_this
            complete = c["rx"].startswith(pre + E)
            want = pre + E + (b"" if self.sender else GO)
            diverged = not want.startswith(c["rx"][:len(want)])
            negotiated = c["obs"].res != "pending" and c["obs"].res[0] == "ok"
            if negotiated:
                ok_conns.append(i)
            if GO in tr.written or wrote.startswith(hs + GO):
                go_conns.append(i)
                if not self.sender:
                    v.append(("receiver-wrote-go", f"conn {i}: the receiver wrote {wrote!r}"))
                if not complete:
                    v.append(("go-without-handshake", f"conn {i}: 'go' written but the peer sent {c['rx'][:40]!r}"))
                if wrote != hs + GO:
                    v.append(("go-not-exact", f"conn {i}: wrote {wrote!r}"))
            if NEVERMIND in tr.written:
                if not self.sender:
                    v.append(("receiver-wrote-go", f"conn {i}: the receiver wrote {wrote!r}"))
                if not complete:
                    v.append(("nevermind-without-handshake", f"conn {i}: peer sent {c['rx'][:40]!r}"))
                if GO in tr.written or not tr.lost or p.state == "records":
                    v.append(("loser-not-closed", f"conn {i}: nevermind but state={p.state} lost={tr.lost} wrote={wrote!r}"))
            if self.sender and complete and GO not in tr.written and NEVERMIND not in tr.written:
                v.append(("completed-undecided", f"conn {i}: full receiver handshake arrived on a live connection, "
                                                f"neither go nor nevermind written (state={p.state})"))
            if not self.sender and c["rx"].startswith(want) and not negotiated:
                v.append(("go-ignored", f"conn {i}: sender handshake + go arrived on a live connection but it was not "
                                       f"selected (state={p.state})"))
            if p.state == "records" or negotiated:
                if not c["rx"].startswith(want):
                    v.append(("selected-without-handshake", f"conn {i}: state={p.state} after {c['rx'][:60]!r}"))
                if self.sender and GO not in tr.written:
                    v.append(("records-without-go", f"conn {i}: sender in records without writing go"))
            if c["forced"]:
                # a late contender: never confirmed, and refused + closed as soon as its handshake is complete
                if GO in tr.written:
                    v.append(("late-contender-confirmed", f"conn {i} reached the factory after the selection was made "
                                                          f"(_winner = conn {self.idx(self.t._winner) if self.t._winner is not None else None}) "
                                                          f"and the Sender wrote {wrote!r} on it: a second 'go'"))
                if self.sender and complete and (NEVERMIND not in tr.written or not tr.lost or p.state != "hung up"):
                    v.append(("late-contender-not-refused", f"conn {i}: a late contender presented the complete receiver "
                                                            f"handshake; wanted nevermind + close, got wrote={wrote!r} "
                                                            f"lost={tr.lost} state={p.state}"))
                if negotiated or p.state == "records":
                    v.append(("late-contender-selected", f"conn {i} reached the factory after the selection was made and "
                                                         f"was selected too (state={p.state})"))
            if diverged and not tr.lost:
                v.append(("stranger-not-closed", f"conn {i}: peer sent {c['rx'][:40]!r}, connection still open in state {p.state}"))
            if now >= c["born"] + CONN_TIMEOUT and not tr.lost and not c["gone"] and p.state != "records":
                v.append(("conn-timeout-missed", f"conn {i}: {now - c['born']}s old, state={p.state}, still open"))
        if len(go_conns) > 1:
            v.append(("two-go", f"'go' written on connections {go_conns}"))
        # the listener's lifetime: once _listener_d has ended, or connect() has fired (either way), the port is stopped
        if self.port is not None and not self.port.stopped:
            if self.listener_obs.res != "pending":
                v.append(("listener-not-stopped", f"_listener_d ended ({self.show_res(self.listener_obs.res)}) but "
                                                  f"stopListening() was never called: the advertised port still accepts"))
            if self.fired():
                v.append(("listener-not-stopped", f"connect() has fired ({self.show_res(self.result.res)}) but the "
                                                  f"listening port was not stopped"))
        for i, c in enumerate(self.conns):
            if c["late"]:
                v.append(("late-arrival-accepted", f"conn {i} was accepted by the listener {c['born'] - self.t0}s after "
                                                   f"connect() was called, when connect() had already fired "
                                                   f"({self.show_res(self.result.res)}); state={c['p'].state}"))
        if self.fired():
            # every attempt that was ever started is, once connect() has fired, the winner or closed/cancelled
            for lab, ep in self.eps.items():
                if ep.d is not None and not ep.d.called:
                    v.append(("attempt-outlives-connect", f"connect() has fired ({self.show_res(self.result.res)}) but the "
                                                          f"connection attempt {lab} is still running: nobody cancelled it"))
            won = self.idx(self.result.res[1]) if self.result.res[0] == "ok" else None
            timers = set()
            for i, c in enumerate(self.conns):
                tc = getattr(c["p"], "_TimeoutMixin__timeoutCall", None)
                if tc is not None:
                    timers.add(id(tc))
                if i != won and not c["tr"].lost and not c["gone"] and not c["forced"]:
                    v.append(("conn-outlives-connect", f"connect() has fired ({self.show_res(self.result.res)}) but conn {i} "
                                                       f"is still open (state={c['p'].state})"))
            for dc in self.clock.getDelayedCalls():
                if dc.active() and id(dc) not in timers:
                    v.append(("timer-outlives-connect", f"connect() has fired ({self.show_res(self.result.res)}) but a delayed "
                                                        f"call that is not a connection's timeout is still pending (a relay "
                                                        f"attempt waiting to start, or the deadline)"))
        if self.sender and self.fired() and self.result.res[0] == "fail" and go_conns:
            v.append(("go-after-failure", f"the Sender's connect() failed with {self.result.res[1]} but it wrote 'go' on "
                                          f"connection(s) {go_conns}"))
        if len(ok_conns) > 1:
            v.append(("two-selected", f"negotiation succeeded on connections {ok_conns}"))
        if self.sender and go_conns and (self.t._winner is not self.conns[go_conns[0]]["p"]):
            v.append(("go-not-winner", f"go on {go_conns} but _winner is {self.idx(self.t._winner) if self.t._winner else None}"))
        if self.started:
            r = self.result.res
            if r != "pending" and r[0] == "ok":
                w = self.idx(r[1])
                if w == "?" or w not in ok_conns or (self.sender and w not in go_conns):
                    what = "None" if r[1] is None else (f"conn {w}" if w != "?" else f"{r[1]!r} (not one of its connections)")
                    v.append(("result-not-selected", f"connect() returned {what}: not a Connection that completed the "
                                                     f"handshake; negotiated={ok_conns} go={go_conns}"))
                for i, c in enumerate(self.conns):
                    if i != w and not c["tr"].lost and not c["gone"] and not c["forced"]:
                        v.append(("loser-left-open", f"connect() returned conn {w} but conn {i} is still open (state={c['p'].state})"))
            if r != "pending" and r[0] == "fail" and ok_conns:
                v.append(("failed-but-selected", f"connect() failed with {r[1]} although negotiation succeeded on {ok_conns}"))
            if r == "pending" and ok_conns and not (self.port is not None and self.port.closing()):
                v.append(("selected-but-pending", f"negotiation succeeded on {ok_conns} but connect() has not fired"))
            if r == "pending" and now >= self.t0 + DEADLINE:
                v.append(("deadline-missed", f"connect() still pending {now - self.t0}s after it was called"))


def spec(l):
    return ",".join(str(x) for x in l) or "-"


def zombie_probe(w, prefix=""):
    """Observation only, AFTER the last compared line (the model has no counterpart): outbound attempts whose cancel was
    asynchronous.  `there_can_be_only_one` / the deadline cancelled the endpoint's connect() Deferred while the attempt
    was still connecting; an endpoint whose canceller cannot stop the attempt at once (Tor, a proxy) completes it all
    the same: the protocol is built and connected, the endpoint's late callback(p) is swallowed by the cancelled
    Deferred, so nobody ever calls startNegotiation().  Such a connection must never be confirmed and must not stay
    open: the first one is sent the complete handshake, the others stay silent for TIMEOUT seconds.
    Returns (violations, tags)."""
    viol, tags = [], []
    zs = []
    for lab, ep in w.eps.items():
        if ep.d is None or not ep.d.called or ep.factory is None:
            continue
        if any(c["p"].factory is ep.factory for c in w.conns):
            continue                                   # it did connect in time
        if not getattr(ep, "cancelled", False):
            continue                                   # it failed by itself: no connection
        relay = lab.startswith("r")
        p = ep.factory.buildProtocol(IPv4Address("TCP", "10.0.0.9", 9))
        p.callLater = w.clock.callLater
        tr = FakeTransport()
        w._guard(lambda: p.makeConnection(tr))
        w._guard(lambda: ep.d.callback(p))             # swallowed: the Deferred was cancelled
        zs.append((lab, p, tr, relay))
    for n, (lab, p, tr, relay) in enumerate(zs):
        if n == 0:
            hs = (b"ok\n" if relay else b"") + w.expect_this + (b"" if w.sender else GO)
            for piece in (hs[:30], hs[30:]):
                if not tr.lost:
                    w._guard(lambda: p.dataReceived(piece))
            tags.append(f"zombie:{prefix}handshake-sent")
    if zs:
        w._guard(lambda: w.clock.advance(CONN_TIMEOUT))
    for lab, p, tr, relay in zs:
        wrote = b"".join(tr.written)
        if GO in tr.written or p.state == "records":
            viol.append(("cancelled-attempt-confirmed", f"attempt {lab} was cancelled while connecting, connected all the same, "
                                                       f"and ended selected: state={p.state} wrote={wrote!r}"))
        if not tr.lost:
            viol.append(("cancelled-attempt-left-open", f"attempt {lab} was cancelled while connecting, connected all the same, "
                                                        f"and is still open after the complete handshake / {CONN_TIMEOUT}s: state={p.state}"))
        tags.append(f"zombie:{prefix}{'closed' if tr.lost else 'open'}")
    return viol, tags


def new_line(w):
    c = w.cfg
    return (f"new {c['role']} {1 if c['listener'] else 0} {len(w.dhints)} {spec(int(h[2]) for h in w.rhints)} "
            f"{hx(w.send_this)} {hx(w.expect_this)} {hx(w.relay_hs)} {spec(w.keys)} {spec(w.raises)} "
            f"{0 if w.has_key else 1}")


def op_line(op, w=None):
    if op[0] == "connfail" and len(op) > 2 and w is not None:
        return f"connfail {op[1]} {getattr(w, 'last_cls', 'ConnectionRefusedError')}"     # the exception CLASS
    if len(op) > 1 and op[0] in ("S", "R") and op[1] == "connfail" and len(op) > 3 and w is not None:
        W = w.S if op[0] == "S" else w.R
        return f"{op[0]} connfail {op[2]} {getattr(W, 'last_cls', 'ConnectionRefusedError')}"
    return " ".join(str(x) for x in op)


def late_tags(W, prefix=""):
    """what became of the late contenders (op `accept`) of one side"""
    tags = []
    for c in W.conns:
        if not c["forced"]:
            continue
        pre = b"ok\n" if c["relay"] else b""
        full = c["rx"].startswith(pre + W.expect_this)
        wrote = c["tr"].written
        if NEVERMIND in wrote:
            how = "nevermind"
        elif GO in wrote:
            how = "GO"
        elif c["p"].state == "records":
            how = "selected"
        elif c.get("orphan"):
            how = "orphan"
        elif isinstance(c["p"]._error, transit.BadHandshake) and "timeout" in str(c["p"]._error):
            how = "timed-out"
        elif c["p"].state == "hung up":
            how = "rejected"
        elif c["gone"]:
            how = "hung-up-by-peer"
        else:
            how = "still-negotiating"
        tags.append(f"late:{prefix}{'S' if W.sender else 'R'}:{how}")
        if full and W.sender:
            tags.append(f"late:{prefix}complete-handshake-in-{min(len([1 for _ in c.get('chunks', [])]), 9) or 'n'}-reads")
    if any(c["forced"] for c in W.conns):
        tags.append(f"late:{prefix}contenders:{sum(1 for c in W.conns if c['forced'])}")
        tags.append(f"late:{prefix}winner-{'gone' if any(not c['forced'] and c['p'].state == 'records' and (c['gone'] or c['tr'].lost) for c in W.conns) else 'alive'}")
    return tags


def run_case(case):
    if case.get("duo"):
        return run_duo(case)
    w = World(case["cfg"])
    lines, exp = [new_line(w)], ["ok"]
    tags = ["role:" + case["cfg"]["role"], "gen:" + case.get("gen", "?")]
    for op in case["ops"]:
        r = w.op(op)
        lines.append(op_line(op, w))
        exp.append("skip" if r is None else r)
        if r is None:
            tags.append("skip:" + op[0])
    seen = set()
    viol = []
    for s, m in w.viol:
        if s not in seen:
            seen.add(s)
            viol.append((s, m))
    if any("raised=RecordError" in e for e in exp):
        tags.append("records:complete-record-raised")
    if any(c["p"].state == "records" and len(c["p"].buf) >= 4 for c in w.conns):
        tags.append("records:incomplete-record-waiting")
    tags += late_tags(w)
    states = {c["p"].state for c in w.conns}
    for st in states:
        tags.append("final:" + str(st))
    res = w.show_res(w.result.res) if w.result else "not-started"
    tags.append("result:" + res.split(":")[0] + (":" + res.split(":")[1] if res.startswith("fail") else ""))
    tags.append(f"conns:{len(w.conns)}")
    for k in case.get("kinds", []):
        tags.append("peer:" + k)
    nontrivial = any(c["p"].state in ("records", "hung up") for c in w.conns)
    zv, zt = zombie_probe(w)
    for s_, m in zv:
        if s_ not in seen:
            seen.add(s_)
            viol.append((s_, m))
    return Result(lines, exp, viol, tags + zt, nontrivial)


# ---------------------------------------------------------------------------------------------
# generators

LATE_KINDS = ["honest", "honest", "honest", "honest", "partial", "partial", "stranger", "wrongkey", "offbyone", "extra", "silent"]
PEER_KINDS = ["honest", "honest", "honest", "stranger", "wrongkey", "reflected", "partial", "offbyone", "silent", "extra"]


def peer_script(rng, w, relay, kind, decision):
    """the bytes the peer will send on a connection, as one string"""
    pre = b"ok\n" if relay else b""
    if relay and rng.random() < 0.15:
        pre = rng.choice([b"bad relay\n", b"ok", b"o", b"okk\n", b"\n"])
    E = w.expect_this
    tail = b"" if w.sender else decision
    if kind == "honest":
        s = pre + E + tail
    elif kind == "extra":       # bytes right behind the handshake: the record-layer boundary
        if w.sender or decision == GO:
            extra = rng.choice([bytes(rng.randrange(256) for _ in range(rng.randrange(1, 4))),
                                bytes(rng.randrange(256) for _ in range(rng.randrange(4, 9))),
                                b"\x00\x00\x00\x00",                  # a complete, empty record
                                b"\x00\x00\x00\x01A",                 # a complete record with a wrong nonce
                                b"\x00\x00\x00\x01\x00",              # a complete record that does not authenticate
                                b"\x00\x00\x00\x02\x00",              # an incomplete record
                                b"\x00\x00\x00\x19" + bytes(25),      # nonce 0, garbage box
                                b"\x00\x00", b"\x00\x00\x00"])
        else:
            extra = b""
        s = pre + E + tail + extra
    elif kind == "stranger":
        s = rng.choice([b"GET / HTTP/1.0\r\n\r\n", b"SSH-2.0-OpenSSH_9.6\r\n", b"\x16\x03\x01\x02\x00\x01",
                        bytes(rng.randrange(256) for _ in range(rng.randrange(1, 120))), b"transit", b"t", b"\n"])
    elif kind == "wrongkey":
        other = transit.build_receiver_handshake(OTHER_KEY) if w.sender else transit.build_sender_handshake(OTHER_KEY)
        s = pre + other + tail
    elif kind == "reflected":
        s = pre + w.send_this + tail
    elif kind == "partial":
        full = pre + E + tail
        s = full[:rng.randrange(0, len(full))]
    elif kind == "offbyone":
        full = bytearray(pre + E + tail)
        pos = rng.randrange(len(full))
        if rng.random() < 0.5:
            full[pos] ^= 1 << rng.randrange(8)
            s = bytes(full)
        elif rng.random() < 0.5:
            s = bytes(full[:pos] + full[pos + 1:])
        else:
            s = bytes(full[:pos] + full[pos:pos + 1] + full[pos:])
    elif kind == "silent":
        s = b""
    else:
        raise ValueError(kind)
    return s


def chunk(rng, s, mode):
    if not s:
        return []
    if mode == "all":
        return [s]
    if mode == "one":
        return [s[i:i + 1] for i in range(len(s))]
    out, i = [], 0
    while i < len(s):
        n = rng.choice([1, 1, 2, 3, 5, 16, 17, 40, 86, 87, 88, 89, 90, 200])
        out.append(s[i:i + n])
        i += n
    return out


NASTY_HOSTS = ["my_laptop", "a b.example", "a..b", "-x.example", "x" * 64 + ".example", "a\x00b", "\x00", "1.2.3.4\x00", "::1\x00", "fe80::1%eth0", "fe80::1%", "1.2.3.4", "::1", "\u00e9.example",
               "", "1.2.3", "[::1]", "a" * 70, " 1.2.3.4", "%"]


def gen_hints(rng, ndirect, relay_prios):
    """the peer's hint lists: mostly distinct plain hosts; sometimes the same host:port twice (among the direct
    hints, among the relay hints with another priority, once direct and once relay), sometimes a hostname that has
    tripped address classifiers — at any position"""
    dh = [[f"d{j}", 1, 0] for j in range(ndirect)]
    rh = [[f"r{j}", 1, p] for j, p in enumerate(relay_prios)]
    r = rng.random()
    if r < 0.35:
        for _ in range(rng.choice([1, 1, 2])):
            what = rng.choice(["dup-direct", "dup-direct", "dup-relay", "direct+relay", "nasty", "nasty", "nasty-relay"])
            if what == "dup-direct" and dh:
                src = rng.choice(dh)
                dh.insert(rng.randrange(len(dh) + 1), [src[0], src[1], rng.choice([src[2], src[2], 1])])
            elif what == "dup-relay" and rh:
                src = rng.choice(rh)
                rh.insert(rng.randrange(len(rh) + 1), [src[0], src[1], src[2] + 1])
            elif what == "direct+relay" and dh:
                src = rng.choice(dh)
                rh.insert(rng.randrange(len(rh) + 1), [src[0], src[1], rng.choice([0, 1])])
            elif what == "nasty":
                dh.insert(rng.randrange(len(dh) + 1), [rng.choice(NASTY_HOSTS), rng.choice([1, 1, 0, 65535]), 0])
            elif what == "nasty-relay":
                rh.insert(rng.randrange(len(rh) + 1), [rng.choice(NASTY_HOSTS), 1, rng.choice([0, 1])])
    return dh[:4], rh[:3]


def gen_case(rng, big=False):
    """a schedule chosen against the live real objects (so most operations are possible), with a
    sprinkling of impossible ones"""
    role = rng.choice(["S", "R"])
    listener = rng.random() < 0.7
    directs = rng.choice([0, 1, 1, 2, 3])
    relays = [rng.choice([0, 0, 1, 2]) for _ in range(rng.choice([0, 0, 1, 2]))]
    if not listener and directs == 0 and not relays and rng.random() < 0.8:
        listener = True
    dh, rh = gen_hints(rng, directs, relays)
    cfg = dict(role=role, listener=listener, dhints=dh, rhints=rh)
    if listener and rng.random() < 0.25:
        cfg["late_key"] = True        # listen -> inbound arrivals -> set_transit_key -> connect
    w = World(cfg)
    ops, kinds = [], []
    pending = {}       # conn index -> list of chunks still to deliver
    go_given = [False]
    connect_at = rng.choice([0, 0, 0, 1, 2, 4, 8])
    nsteps = rng.randrange(4, 40 if not big else 80)
    mode = rng.choice(["rand", "rand", "one", "all"])

    def do(op):
        r = w.op(op)
        ops.append(op)
        return r

    def new_peer(i):
        if w.conns[i]["forced"]:
            # a late contender: a key holder (the peer's second address, a slow route) or anybody else.  An honest
            # Sender has said go already, so what a late connection of the Receiver hears is nevermind, or nothing.
            kind = rng.choice(LATE_KINDS)
            kinds.append("late-" + kind)
            decision = b"" if w.sender else rng.choice([NEVERMIND, NEVERMIND, NEVERMIND, b"", b"never", b"\n"])
            s = peer_script(rng, w, False, kind, decision)
            pending[i] = chunk(rng, s, rng.choice(["rand", "rand", "one", "all"]) if len(s) < 300 else "rand")
            return
        kind = rng.choice(PEER_KINDS)
        kinds.append(kind)
        if w.sender:
            decision = b""
        else:
            # the simulated sender says go on the first connection it likes, nevermind on later ones;
            # sometimes it misbehaves
            r = rng.random()
            if r < 0.1:
                decision = GO
            elif r < 0.2:
                decision = NEVERMIND
            elif r < 0.25:
                decision = rng.choice([b"go", b"g", b"go\r\n", b"gone\n", b"\n"])
            elif not go_given[0]:
                decision = GO
                go_given[0] = True
            else:
                decision = NEVERMIND
        c = w.conns[i]
        s = peer_script(rng, w, c["relay"], kind, decision)
        m = mode if len(s) < 300 or mode != "one" else "rand"
        pending[i] = chunk(rng, s, m)

    if not w.has_key:
        # arrivals before the key is known: strangers, port scanners, abandoned attempts, the key holder being quick;
        # they stay, hang up, or sit there until the 60 s timer
        for _ in range(rng.choice([0, 1, 1, 2, 3])):
            n0 = len(w.conns)
            do(["inbound"])
            for i in range(n0, len(w.conns)):
                new_peer(i)
                fate = rng.choice(["stay", "hangup", "timeout", "talk", "talk-hangup"])
                if fate.startswith("talk"):
                    while pending[i] and not w.conns[i]["tr"].lost and not w.conns[i]["gone"] and rng.random() < 0.8:
                        do(["data", i, hx(pending[i].pop(0))])
                if fate in ("hangup", "talk-hangup"):
                    do(["lost", i])
                elif fate == "timeout":
                    do(["advance", rng.choice([59, 60, 61])])
                    if rng.random() < 0.7:
                        do(["lost", i])
            if rng.random() < 0.3:
                do(["advance", rng.choice([0, 1, 30, 60])])
        if rng.random() < 0.1:
            do(["connect"])            # not possible before the key: skipped
        do(["setkey"])
    for step in range(nsteps):
        if step == connect_at:
            do(["connect"])
        choices = []
        if w.port_open() and len(w.conns) < 5:
            choices += ["inbound"] * 2
        for k, lab in enumerate(w.labels):
            ep = w.eps.get(lab)
            if ep is not None and ep.d is not None and not ep.d.called and len(w.conns) < 5:
                choices += [("connected", k)] * 3 + [("connfail", k)]
                if ep.real_failure() is not None:
                    choices += [("connfail", k)] * 4          # the real endpoint refuses this hostname
        for i, chunks in pending.items():
            if chunks and not w.conns[i]["tr"].lost and not w.conns[i]["gone"]:
                choices += [("data", i)] * 6
        for i, c in enumerate(w.conns):
            if not c["gone"]:
                choices += [("lost", i)] * (3 if c["tr"].lost else 1)
        choices += ["advance"] * 2
        if w.port is not None and w.port.closing():
            choices += ["portclosed"] * 3
        if not w.started:
            choices += ["connect"]
        if w.can_accept() and len(w.conns) < 7:
            choices += ["accept"] * 4
        if rng.random() < 0.06:
            choices = [rng.choice(["inbound", ("connected", rng.randrange(6)), ("connfail", rng.randrange(6)),
                                   ("junk", rng.randrange(6)), ("lost", rng.randrange(6)), "connect", "accept"])]
        ch = rng.choice(choices)
        n0 = len(w.conns)
        if ch == "inbound":
            do(["inbound"])
        elif ch == "accept":
            do(["accept"])
        elif ch == "connect":
            do(["connect"])
        elif ch == "advance":
            do(["advance", rng.choice([0, 1, 1, 2, 2, 3, 10, 30, 58, 59, 60, 61, 100, 119, 120, 121])])
        elif ch[0] == "connected":
            do(["connected", ch[1]])
        elif ch[0] == "connfail":
            ep = w.eps.get(w.labels[ch[1]]) if ch[1] < len(w.labels) else None
            kinds_ = ["real"] * 4 if ep is not None and ep.real_failure() is not None else ["refused", "refused", "dns", "timeout", "other"]
            do(["connfail", ch[1], rng.choice(kinds_)])
        elif ch[0] == "data":
            do(["data", ch[1], hx(pending[ch[1]].pop(0))])
        elif ch[0] == "junk":
            do(["data", ch[1], hx(bytes(rng.choice([0, 0, 1, rng.randrange(256)]) for _ in range(rng.randrange(1, 7))))])
        elif ch[0] == "lost":
            do(["lost", ch[1]])
        elif ch == "portclosed":
            do(["portclosed"])
        for i in range(n0, len(w.conns)):
            new_peer(i)
        if w.port is not None and w.port.closing() and rng.random() < 0.6:
            do(["portclosed"])          # usually the port is gone a reactor turn later; sometimes it takes longer
    if w.can_accept() and rng.random() < 0.7:
        # LATE contenders, once the selection is made: up to three of them, their bytes interleaved with each other, with
        # losses (of the winner too), the port finishing to close, a late connect(), and time passing
        for _ in range(rng.randrange(3, 16)):
            ch = []
            if sum(1 for c in w.conns if c["forced"]) < 3 and len(w.conns) < 8:
                ch += [["accept"]] * 3
            for i, chunks in pending.items():
                if chunks and w.conns[i]["forced"] and not w.conns[i]["tr"].lost and not w.conns[i]["gone"]:
                    ch += [["data", i, None]] * 6
            for i, c in enumerate(w.conns):
                if not c["gone"]:
                    ch += [["lost", i]] * (2 if c["tr"].lost else 1)
            ch += [["advance", rng.choice([0, 1, 1, 2, 30, 59, 60, 61])]]
            if w.port is not None and w.port.closing():
                ch += [["portclosed"]] * 2
            if not w.started:
                ch += [["connect"]] * 2
            op = list(rng.choice(ch))
            if op[0] == "data":
                op[2] = hx(pending[op[1]].pop(0))
            n0 = len(w.conns)
            do(op)
            for i in range(n0, len(w.conns)):
                new_peer(i)
    if not w.started and rng.random() < 0.8:
        do(["connect"])
    if rng.random() < 0.6:
        # let time pass beyond every deadline, closing what was asked to close
        for i, c in enumerate(w.conns):
            if c["tr"].lost and not c["gone"] and rng.random() < 0.7:
                do(["lost", i])
        for dt in rng.choice([[60, 60], [120], [59, 1, 59, 1], [200], [119, 1]]):
            do(["advance", dt])
    if rng.random() < 0.7:
        # late arrivals at the advertised port (a key holder whose user was slow, or a stranger): they are only
        # delivered if the port is still listening, which it must not be once connect() has fired
        for _ in range(rng.choice([1, 1, 2])):
            n0 = len(w.conns)
            if do(["inbound"]) is not None and len(w.conns) > n0:
                i = n0
                kind = rng.choice(["honest", "honest", "stranger", "partial"])
                kinds.append("late-" + kind)
                s = peer_script(rng, w, False, kind, GO if not w.sender else b"")
                for ch in chunk(rng, s, rng.choice(["all", "rand"])):
                    do(["data", i, hx(ch)])
                do(["advance", rng.choice([0, 1, 30, 60])])
    return dict(cfg=cfg, ops=ops, kinds=kinds, gen="live")


def corpus():
    out = []
    sender = World(dict(role="S", listener=True, directs=0, relays=[]))
    recv = World(dict(role="R", listener=True, directs=0, relays=[]))
    E_s, E_r = sender.expect_this, recv.expect_this

    def c(cfg, ops, name):
        out.append(dict(cfg=cfg, ops=ops, kinds=[], gen="corpus:" + name))
    L = dict(role="S", listener=True, directs=0, relays=[])
    # two inbound receivers finish their handshake in both orders: first gets go, second nevermind
    for order in ([0, 1], [1, 0]):
        c(L, [["inbound"], ["inbound"], ["connect"]] + [["data", i, hx(E_s)] for i in order] + [["lost", order[1]]], "two-inbound")
    # early winner: the inbound connection completes before connect() is called
    c(L, [["inbound"], ["data", 0, hx(E_s)], ["connect"]], "early-winner")
    c(dict(L, directs=2), [["inbound"], ["data", 0, hx(E_s)], ["connect"], ["connected", 1]], "early-winner-cancels-direct")
    # byte-at-a-time, and a stranger
    c(L, [["connect"], ["inbound"]] + [["data", 0, hx(E_s[i:i + 1])] for i in range(len(E_s))], "bytewise")
    c(L, [["connect"], ["inbound"], ["data", 0, hx(E_s[:-1] + b"x")]], "last-byte-wrong")
    c(L, [["connect"], ["inbound"], ["data", 0, hx(E_s[:-1])], ["advance", 60], ["lost", 0], ["advance", 60]], "partial-timeout-deadline")
    # nothing can be negotiated: the deadline
    c(dict(L, directs=1, relays=[0]), [["connect"], ["advance", 1], ["advance", 1], ["connected", 1], ["advance", 118]], "deadline")
    c(dict(role="S", listener=False, directs=0, relays=[]), [["connect"]], "no-contenders")
    c(dict(role="S", listener=False, directs=1, relays=[]), [["connect"], ["connfail", 0]], "all-failed")
    # relay: ok then handshake; relays of two priorities start 0 s and 2 s after the direct ones' delay
    c(dict(role="S", listener=False, directs=1, relays=[1, 0]),
      [["connect"], ["connected", 1], ["advance", 2], ["connected", 1], ["connected", 2], ["advance", 2], ["connected", 2],
       ["data", 1, hx(b"ok\n" + E_s)], ["data", 2, hx(b"ok\n")]], "relay")
    # receiver: go on one, nevermind on the other; go without handshake; two go's
    R = dict(role="R", listener=True, directs=1, relays=[])
    c(R, [["connect"], ["inbound"], ["connected", 1], ["data", 0, hx(E_r)], ["data", 1, hx(E_r)], ["data", 1, hx(GO)],
          ["lost", 0]], "receiver-go-second")
    c(R, [["connect"], ["inbound"], ["connected", 1], ["data", 0, hx(E_r + NEVERMIND)], ["data", 1, hx(E_r + GO + b"\x00\x00")]], "receiver-nevermind-go")
    c(R, [["connect"], ["inbound"], ["data", 0, hx(GO)]], "receiver-go-only")
    c(R, [["inbound"], ["inbound"], ["data", 0, hx(E_r + GO)], ["data", 1, hx(E_r + GO)], ["connect"]], "receiver-two-go")
    # the record-layer boundary behind `go`: waiting on an incomplete prefix / record, raising on a complete one
    c(L, [["connect"], ["inbound"], ["data", 0, hx(E_s + b"\x4a\xb3\x1a")], ["advance", 0], ["data", 0, "9af6"],
          ["data", 0, "00"]], "records-incomplete-waits")
    c(L, [["connect"], ["inbound"], ["data", 0, hx(E_s + b"\x00\x00")], ["data", 0, "0000"], ["data", 0, "00"]], "records-empty-record")
    c(L, [["connect"], ["inbound"], ["data", 0, hx(E_s + b"\x00\x00\x00\x02\x00")], ["data", 0, "41"], ["lost", 0]], "records-bad-nonce")
    c(R, [["connect"], ["inbound"], ["data", 0, hx(E_r + GO + b"\x00\x00\x00\x01\x00")]], "records-bad-box-same-chunk")
    c(R, [["connect"], ["inbound"], ["data", 0, hx(E_r + GO + b"\x00\x00\x01\x00" + bytes(100))], ["data", 0, hx(bytes(155))],
          ["data", 0, "00"]], "records-256-byte-record")
    # MANY contenders at once (a port scan, a crowd of strangers, many partial handshakes): more pending inbound
    # negotiations than any plausible cap (20 / 40), the OLDEST of them a slow key holder; then a fast winner — or
    # nobody, up to the deadline.  Every other connection is closed, whatever its age; nothing is confirmed afterwards.
    for nmany in (20, 40):
        crowd = [["inbound"], ["data", 0, hx(E_s[:5])]] + [["inbound"] for _ in range(nmany)] + \
                [["data", 1 + j, hx(b"GET / HTTP"[:1 + j % 9])] for j in range(0, nmany, 3)]
        c(L, [["connect"]] + crowd + [["inbound"], ["data", nmany + 1, hx(E_s)], ["advance", 1], ["data", 0, hx(E_s[5:])],
                                      ["advance", 70]], "crowd-%d-then-winner" % nmany)
        c(L, [["connect"]] + crowd + [["advance", 60], ["advance", 60], ["data", 0, hx(E_s[5:])], ["advance", 10]],
          "crowd-%d-deadline" % nmany)
    # late arrivals: the listening port must be gone once connect() has fired
    c(L, [["connect"], ["advance", 120], ["inbound"], ["data", 0, hx(E_s)], ["advance", 10]], "late-keyholder-after-deadline")
    c(dict(L, directs=1), [["connect"], ["advance", 60], ["advance", 60], ["inbound"], ["data", 0, hx(E_s)]], "late-keyholder-after-deadline-2")
    c(R, [["connect"], ["connected", 1], ["data", 0, hx(E_r + GO)], ["inbound"], ["data", 1, hx(b"GET / HTTP/1.0\r\n\r\n")],
          ["advance", 30]], "late-stranger-after-outbound-winner")
    c(R, [["connect"], ["connected", 1], ["data", 0, hx(E_r + GO)], ["inbound"], ["data", 1, hx(E_r + GO)]], "late-keyholder-after-outbound-winner")
    c(dict(role="S", listener=True, directs=0, relays=[0]),
      [["connect"], ["advance", 0], ["connected", 1], ["data", 0, hx(b"ok\n" + E_s)], ["inbound"], ["data", 1, hx(E_s)]],
      "late-keyholder-after-relay-winner")
    c(L, [["inbound"], ["data", 0, hx(E_s)], ["inbound"], ["connect"], ["inbound"]], "late-after-early-inbound-winner")
    # the peer names the same host:port twice (direct twice; relay twice with another priority; direct and relay):
    # every started attempt is a contender — whichever finishes first is returned, the others are cancelled
    for first in (0, 1):
        c(dict(role="S", listener=False, dhints=[["h", 7, 0], ["h", 7, 0]], rhints=[]),
          [["connect"], ["connected", 0], ["connected", 1], ["data", first, hx(E_s)], ["advance", 120]], f"dup-direct-{first}")
        c(dict(role="S", listener=True, dhints=[["h", 7, 0], ["x", 1, 0], ["h", 7, 1]], rhints=[]),
          [["connect"], ["connected", 1 + 2 * first], ["data", 0, hx(E_s)], ["advance", 60], ["advance", 60]], f"dup-direct-listener-{first}")
        c(dict(role="S", listener=False, dhints=[], rhints=[["r", 9, 0], ["r", 9, 1]]),
          [["connect"], ["advance", 0], ["advance", 2], ["connected", first], ["data", 0, hx(b"ok\n" + E_s)], ["advance", 120]], f"dup-relay-{first}")
    c(dict(role="S", listener=False, dhints=[["h", 7, 0]], rhints=[["h", 7, 0]]),
      [["connect"], ["advance", 2], ["connected", 1], ["connected", 0], ["data", 0, hx(b"ok\n" + E_s)], ["advance", 120]], "dup-direct+relay")
    c(dict(role="R", listener=False, dhints=[["h", 7, 0], ["h", 7, 0]], rhints=[]),
      [["connect"], ["connected", 0], ["connected", 1], ["data", 0, hx(E_r + GO)], ["advance", 120]], "dup-direct-receiver")
    # a hostname for which building the endpoint is delicate, at every position, with and without our own listener
    for lst in (False, True):
        for pos in range(3):
            for bad in ("a\x00b", "1.2.3.4\x00", "fe80::1%"):
                dh = [["d0", 1, 0], ["d1", 1, 0]]
                dh.insert(pos, [bad, 1, 0])
                k0 = 1 if lst else 0
                good = k0 + (0 if pos != 0 else 1)          # an attempt other than the delicate one
                c(dict(role="S", listener=lst, dhints=dh, rhints=[["r0", 1, 0]]),
                  [["connect"], ["connected", good], ["data", 0, hx(E_s)], ["advance", 2], ["connected", k0 + pos],
                   ["advance", 120]], f"nasty-host-{int(lst)}-{pos}")
    c(dict(role="S", listener=True, dhints=[], rhints=[["r\x00", 1, 1], ["r1", 1, 0]]),
      [["connect"], ["advance", 0], ["inbound"], ["data", 0, hx(E_s)], ["advance", 120]], "nasty-relay-host")
    # the listener is up before the key is known (`wormhole send`): early arrivals that hang up / time out / stay,
    # then the key, connect(), and the key holder's real attempt
    K = dict(role="S", listener=True, directs=0, relays=[], late_key=True)
    c(K, [["inbound"], ["lost", 0], ["setkey"], ["connect"], ["inbound"], ["data", 1, hx(E_s)], ["advance", 120]], "early-hangup-then-key")
    c(K, [["inbound"], ["advance", 60], ["lost", 0], ["setkey"], ["connect"], ["inbound"], ["data", 1, hx(E_s)]], "early-timeout-then-key")
    c(K, [["inbound"], ["data", 0, hx(E_s)], ["setkey"], ["connect"], ["data", 0, hx(E_s)], ["inbound"], ["data", 1, hx(E_s)],
          ["lost", 0]], "early-keyholder-stays")
    c(K, [["inbound"], ["inbound"], ["lost", 1], ["connect"], ["setkey"], ["lost", 0], ["connect"], ["advance", 120]], "early-two-then-deadline")
    c(dict(K, role="R", directs=1), [["inbound"], ["lost", 0], ["setkey"], ["connect"], ["connected", 1], ["data", 1, hx(E_r + GO)]], "early-hangup-receiver")
    c(dict(K, role="R"), [["inbound"], ["data", 0, hx(E_r + GO)], ["advance", 61], ["setkey"], ["connect"], ["inbound"],
                         ["data", 1, hx(E_r + GO)]], "early-keyholder-receiver")
    # the port closes a while after stopListening(): the winner is reported at once, whatever happens in between
    for tail in ([["advance", 1], ["portclosed"]], [["portclosed"], ["advance", 1]], [["advance", 200]]):
        c(L, [["connect"], ["inbound"], ["advance", 119], ["data", 0, hx(E_s)]] + tail, "slow-port-close-deadline")
        c(dict(role="R", listener=True, directs=0, relays=[]),
          [["connect"], ["inbound"], ["data", 0, hx(E_r)], ["advance", 119], ["data", 0, hx(GO)]] + tail, "slow-port-close-deadline-receiver")
    c(L, [["inbound"], ["data", 0, hx(E_s)], ["connect"], ["advance", 120], ["portclosed"]], "slow-port-close-early-winner")
    c(dict(L, directs=1), [["connect"], ["connected", 1], ["data", 0, hx(E_s)], ["inbound"], ["advance", 120], ["portclosed"]], "slow-port-close-outbound-winner")
    # an endpoint whose connect() fails with something that is not a ConnectError: the REAL HostnameEndpoint refuses an
    # illegal hostname with ValueError; a Tor stream error; DNS; timeout — a failure is a failure
    for kind, host in (("real", "my_laptop"), ("real", "a b.example"), ("other", "d0"), ("dns", "d0"), ("timeout", "d0")):
        c(dict(role="S", listener=True, dhints=[[host, 1, 0], ["d1", 1, 0]], rhints=[]),
          [["connect"], ["connfail", 1, kind], ["connected", 2], ["data", 0, hx(E_s)], ["advance", 120]], f"connfail-{kind}-{host[:3]}")
        c(dict(role="R", listener=False, dhints=[[host, 1, 0]], rhints=[["r0", 1, 0]]),
          [["connect"], ["advance", 2], ["connfail", 0, kind], ["connected", 1], ["data", 0, hx(b"ok\n" + E_r + GO)]], f"connfail-{kind}-{host[:3]}-receiver")
    c(dict(role="S", listener=False, dhints=[["my_laptop", 1, 0]], rhints=[]), [["connect"], ["connfail", 0, "real"]], "connfail-real-only")
    c(dict(role="S", listener=False, dhints=[], rhints=[["bad_relay", 1, 0]]), [["connect"], ["advance", 0], ["connfail", 0, "real"]], "connfail-real-relay")
    # cancelled connection whose timer is still running
    c(dict(L, directs=1), [["connect"], ["inbound"], ["connected", 1], ["data", 1, hx(E_s)], ["advance", 60], ["lost", 0], ["advance", 60]], "cancelled-then-timeout")
    # ---- LATE contenders: the selection is made, the port has been told to stop, and hands over one more connection.
    # Nobody is left to cancel it; the Sender's answer to a complete handshake must be nevermind + close.
    def pieces(i, b, n):
        return [["data", i, hx(b[j:j + n])] for j in range(0, len(b), n)]
    LD = dict(L, directs=1)
    # an outbound winner, a half-negotiated inbound loser (cancelled), then a late key holder in pieces of 7 bytes
    c(LD, [["connect"], ["connected", 1], ["inbound"], ["data", 1, hx(E_s[:40])], ["data", 0, hx(E_s)], ["accept"]]
      + pieces(2, E_s, 7) + [["lost", 2], ["advance", 121]], "late-after-outbound-winner")
    c(L, [["connect"], ["inbound"], ["data", 0, hx(E_s)], ["accept"], ["data", 1, hx(E_s)], ["lost", 1]], "late-after-inbound-winner")
    c(dict(role="S", listener=True, directs=0, relays=[0]),
      [["connect"], ["advance", 0], ["connected", 1], ["data", 0, hx(b"ok\n" + E_s)], ["accept"], ["data", 1, hx(E_s[:88])],
       ["portclosed"], ["data", 1, hx(E_s[88:])]], "late-after-relay-winner")
    c(L, [["inbound"], ["data", 0, hx(E_s)], ["accept"], ["data", 1, hx(E_s[:50])], ["connect"], ["data", 1, hx(E_s[50:])],
          ["advance", 120]], "late-after-early-winner")
    c(L, [["connect"], ["inbound"], ["data", 0, hx(E_s)], ["accept"]] + pieces(1, E_s, 1), "late-bytewise")
    c(L, [["connect"], ["inbound"], ["data", 0, hx(E_s)], ["lost", 0], ["accept"], ["data", 1, hx(E_s)]], "late-after-winner-lost")
    c(L, [["connect"], ["inbound"], ["data", 0, hx(E_s + b"\x00\x00\x00\x02\x00")], ["accept"], ["data", 1, hx(E_s + b"\x00\x00")],
          ["data", 0, "41"]], "late-while-winner-mid-record")
    # the winner has hung up by itself (a record that does not authenticate): it is the winner all the same
    c(L, [["connect"], ["inbound"], ["data", 0, hx(E_s + b"\x00\x00\x00\x00")], ["accept"], ["data", 1, hx(E_s[:70])], ["lost", 0],
          ["data", 1, hx(E_s[70:])]], "late-after-winner-record-error")
    c(L, [["connect"], ["inbound"], ["data", 0, hx(E_s)], ["accept"], ["accept"], ["data", 1, hx(E_s[:30])], ["data", 2, hx(E_s[:60])],
          ["data", 1, hx(E_s[30:])], ["data", 2, hx(E_s[60:])], ["lost", 2], ["lost", 1]], "late-two-interleaved")
    c(L, [["connect"], ["inbound"], ["data", 0, hx(E_s)], ["accept"], ["data", 1, hx(E_s[:-1])], ["advance", 59], ["advance", 1],
          ["lost", 1]], "late-partial-times-out")
    c(L, [["connect"], ["inbound"], ["data", 0, hx(E_s)], ["accept"], ["data", 1, hx(E_s[:-1] + b"x")]], "late-last-byte-wrong")
    c(L, [["connect"], ["inbound"], ["data", 0, hx(E_s)], ["accept"], ["data", 1, hx(b"GET / HTTP/1.0\r\n\r\n")], ["accept"],
          ["data", 2, hx(transit.build_receiver_handshake(OTHER_KEY))]], "late-stranger-and-wrong-key")
    # not possible (skipped by world and model alike): before any selection; without a listener; after a FAILED connect()
    c(L, [["accept"], ["connect"], ["accept"], ["inbound"], ["accept"], ["data", 0, hx(E_s[:10])], ["accept"]], "late-not-before-selection")
    c(dict(role="S", listener=False, directs=1, relays=[]), [["connect"], ["connected", 0], ["data", 0, hx(E_s)], ["accept"]], "late-no-listener")
    c(L, [["connect"], ["advance", 120], ["accept"], ["inbound"]], "late-not-after-failure")
    # the Receiver: its late connection hears nevermind from an honest Sender (or nothing, or rubbish)
    c(R, [["connect"], ["inbound"], ["data", 0, hx(E_r + GO)], ["accept"], ["data", 1, hx(E_r[:20])], ["data", 1, hx(E_r[20:] + NEVERMIND)],
          ["lost", 1]], "late-receiver-nevermind")
    c(R, [["connect"], ["connected", 1], ["data", 0, hx(E_r + GO)], ["accept"], ["data", 1, hx(E_r)], ["advance", 60], ["lost", 1]], "late-receiver-silent-sender")
    c(R, [["connect"], ["inbound"], ["data", 0, hx(E_r + GO)], ["accept"], ["data", 1, hx(b"SSH-2.0-OpenSSH_9.6\r\n")]], "late-receiver-stranger")
    # the late key holder's handshake cut at EVERY byte position, with something else happening at the cut
    for pos in range(len(E_s) + 1):
        mid = [[], [["advance", 1]], [["lost", 0]], [["portclosed"]], [["accept"], ["data", 2, hx(E_s[:pos])]]][pos % 5]
        ops = [["connect"], ["inbound"], ["data", 0, hx(E_s)], ["accept"]]
        if pos:
            ops.append(["data", 1, hx(E_s[:pos])])
        ops += mid
        if pos < len(E_s):
            ops.append(["data", 1, hx(E_s[pos:])])
        c(L, ops, "late-cut")
    return out


def interleavings(counts):
    """all sequences over connection indices in which index i occurs counts[i] times"""
    items = [i for i, n in enumerate(counts) for _ in range(n)]
    seen = set()
    for p in itertools.permutations(items):
        if p not in seen:
            seen.add(p)
            yield p


def exhaustive(rng, nconn, npts, max_cases=None):
    """every order of byte-level progress of `nconn` connections with `npts` progress points each"""
    out = []
    w = World(dict(role="S", listener=True, directs=0, relays=[]))
    r = World(dict(role="R", listener=True, directs=0, relays=[]))
    scen = []
    scen.append(("S", [w.expect_this] * nconn))
    bad = transit.build_receiver_handshake(OTHER_KEY)
    scen.append(("S", [w.expect_this, bad] + [w.expect_this] * (nconn - 2)))
    scen.append(("R", [r.expect_this + GO] + [r.expect_this + NEVERMIND] * (nconn - 1)))
    scen.append(("R", [r.expect_this + GO] * nconn))
    for role, streams in scen:
        pieces = []
        for s in streams:
            cut = sorted(rng.sample(range(1, len(s)), npts - 1)) if npts > 1 else []
            if npts >= 3:
                cut = [len(s) - 4, len(s) - 1][:npts - 1] if rng.random() < 0.5 else cut
                cut = sorted(set(cut))
                while len(cut) < npts - 1:
                    cut = sorted(set(cut + [rng.randrange(1, len(s))]))
            pieces.append([s[a:b] for a, b in zip([0] + cut, cut + [len(s)])])
        allp = list(interleavings([npts] * nconn))
        if max_cases and len(allp) > max_cases:
            allp = rng.sample(allp, max_cases)
        for order in allp:
            pos = [0] * nconn
            ops = [["inbound"] for _ in range(nconn)]
            ops.insert(rng.randrange(len(ops) + 1), ["connect"])
            for i in order:
                ops.append(["data", i, hx(pieces[i][pos[i]])])
                pos[i] += 1
            out.append(dict(cfg=dict(role=role, listener=True, directs=0, relays=[]), ops=ops, kinds=[], gen=f"exh{nconn}x{npts}"))
    return out


def exhaustive_late(rng, nlate, npts, max_cases=None):
    """a decided Sender (an inbound winner, a cancelled half-negotiated loser), then `nlate` late key holders with
    `npts` progress points each: every order of their byte-level progress"""
    out = []
    w = World(dict(role="S", listener=True, directs=0, relays=[]))
    E = w.expect_this
    pieces = []
    for _ in range(nlate):
        cut = sorted(set(rng.sample(range(1, len(E)), npts - 1))) if npts > 1 else []
        if npts >= 3 and rng.random() < 0.5:
            cut = [len(E) - 4, len(E) - 1][:npts - 1]
        pieces.append([E[a:b] for a, b in zip([0] + cut, cut + [len(E)])])
    allp = list(interleavings([npts] * nlate))
    if max_cases and len(allp) > max_cases:
        allp = rng.sample(allp, max_cases)
    for order in allp:
        pos = [0] * nlate
        ops = [["inbound"], ["inbound"], ["data", 1, hx(E[:rng.randrange(1, len(E))])], ["data", 0, hx(E)]]
        ops.insert(rng.randrange(len(ops) + 1), ["connect"])
        ops += [["accept"] for _ in range(nlate)]
        for i in order:
            ops.append(["data", 2 + i, hx(pieces[i][pos[i]])])
            pos[i] += 1
        out.append(dict(cfg=dict(role="S", listener=True, directs=0, relays=[]), ops=ops, kinds=[], gen=f"exhlate{nlate}x{npts}"))
    return out


# ---------------------------------------------------------------------------------------------
# two sides: a real TransitSender and a real TransitReceiver (same key) whose connections are joined by links

class DuoWorld:
    """Sender world + Receiver world + links.  A link pipes, in order and in the pieces the case asks for, what
    one end's transport was given to write into the other end's dataReceived (through a relay: `ok\\n` first,
    the request line withheld).  Connections that are not an end of a link belong to strangers."""

    def __init__(self, cfg):
        self.cfg = cfg
        def side(role, l, d, r, hd, hr):
            c = dict(role=role, listener=cfg[l], late_key=bool(cfg.get("k" + role, False)))
            if hd in cfg:
                c["dhints"] = cfg[hd]
            else:
                c["directs"] = cfg[d]
            if hr in cfg:
                c["rhints"] = cfg[hr]
            else:
                c["relays"] = cfg[r]
            return c
        self.S = World(side("S", "lS", "dS", "rS", "hdS", "hrS"))
        self.R = World(side("R", "lR", "dR", "rR", "hdR", "hrR"))
        self.links = []          # (sIdx, rIdx, relay)
        self.viol = []

    def new_line(self):
        c = self.cfg
        S, R = self.S, self.R
        return (f"duo {1 if c['lS'] else 0} {len(S.dhints)} {spec(int(h[2]) for h in S.rhints)} "
                f"{1 if c['lR'] else 0} {len(R.dhints)} {spec(int(h[2]) for h in R.rhints)} "
                f"{hx(S.send_this)} {hx(S.expect_this)} {hx(S.relay_hs)} {hx(R.relay_hs)} "
                f"{spec(S.keys)} {spec(S.raises)} {spec(R.keys)} {spec(R.raises)} "
                f"{1 if c.get('kS') else 0} {1 if c.get('kR') else 0}")

    def linked(self, side, i):
        return any((l[0] if side == "S" else l[1]) == i for l in self.links)

    def stream(self, src, relay):
        w = src["tr"].written
        return (b"ok\n" + b"".join(w[1:])) if relay else b"".join(w)

    @staticmethod
    def _split(r):
        if r.startswith("raised="):
            head, rest = r.split(" ", 1)
            return head + " ", rest
        return "", r

    def summary(self):
        ls = " ".join(f"{a}-{b}{'y' if y else ''}" for a, b, y in self.links)
        return f"{self.S.summary()} || {self.R.summary()} || {ls}"

    def _can_connect(self, W, k, want_relay):
        lab = W.labels[k] if k < len(W.labels) else None
        ep = W.eps.get(lab)
        return (ep is not None and ep.d is not None and not ep.d.called and lab.startswith("r") == want_relay)

    def op(self, op):
        k = op[0]
        raised = ""
        if k in ("S", "R"):
            W = self.S if k == "S" else self.R
            sub = list(op[1:])
            if sub[0] == "data" and self.linked(k, sub[1]):
                return None
            r = W.op(sub)
            if r is None:
                return None
            raised, _ = self._split(r)
        elif k == "link":
            how = op[1]
            if how == "s":
                if not (self.S.port_open() and self._can_connect(self.R, op[2], False)):
                    return None
                a, b = len(self.S.conns), len(self.R.conns)
                self.S.op(["inbound"]); self.R.op(["connected", op[2]])
                self.links.append((a, b, False))
            elif how == "sl":
                # a LATE link: the Receiver's direct dial `op[2]` reaches the Sender's port after the Sender has made its
                # selection (the Receiver's second address, a slow route); the port hands it to the factory all the same
                if not (self.S.can_accept() and self._can_connect(self.R, op[2], False)):
                    return None
                a, b = len(self.S.conns), len(self.R.conns)
                self.S.op(["accept"]); self.R.op(["connected", op[2]])
                self.links.append((a, b, False))
            elif how == "r":
                if not (self.R.port_open() and self._can_connect(self.S, op[2], False)):
                    return None
                a, b = len(self.S.conns), len(self.R.conns)
                self.S.op(["connected", op[2]]); self.R.op(["inbound"])
                self.links.append((a, b, False))
            else:
                if not (self._can_connect(self.S, op[2], True) and self._can_connect(self.R, op[3], True)):
                    return None
                a, b = len(self.S.conns), len(self.R.conns)
                self.S.op(["connected", op[2]]); self.R.op(["connected", op[3]])
                self.links.append((a, b, True))
        elif k == "fwd":
            l, n = op[2], op[3]
            if l >= len(self.links):
                return None
            a, b, relay = self.links[l]
            if op[1] == "SR":
                src, dst, W, di = self.S.conns[a], self.R.conns[b], self.R, b
            else:
                src, dst, W, di = self.R.conns[b], self.S.conns[a], self.S, a
            chunk = self.stream(src, relay)[len(dst["rx"]):][:n]
            if not chunk or dst["tr"].lost or dst["gone"]:
                return None
            r = W.op(["data", di, hx(chunk)])
            raised, _ = self._split(r)
        else:
            raise ValueError(op)
        self.check()
        return raised + self.summary()

    def check(self):
        """same_link, on the real objects"""
        v = self.viol
        S, R = self.S, self.R
        rs = S.result.res if S.result else "pending"
        rr = R.result.res if R.result else "pending"
        s_ok = rs != "pending" and rs[0] == "ok"
        r_ok = rr != "pending" and rr[0] == "ok"
        # whoever the Receiver uses is the peer end of the connection the Sender said go on
        for j, c in enumerate(R.conns):
            if c["obs"].res != "pending" and c["obs"].res[0] == "ok":
                ends = [l for l in self.links if l[1] == j]
                if not ends:
                    v.append(("receiver-selected-stranger", f"R conn {j} negotiated but is not an end of any link"))
                elif GO not in S.conns[ends[0][0]]["tr"].written:
                    v.append(("receiver-selected-without-go", f"R conn {j} negotiated but the Sender never wrote go on "
                                                             f"its end (S conn {ends[0][0]})"))
        for i, c in enumerate(S.conns):
            if c["obs"].res != "pending" and c["obs"].res[0] == "ok" and not self.linked("S", i):
                v.append(("sender-selected-stranger", f"S conn {i} negotiated but is not an end of any link"))
        if s_ok and r_ok:
            a, b = S.idx(rs[1]), R.idx(rr[1])
            if (a, b) not in [(l[0], l[1]) for l in self.links]:
                v.append(("not-same-link", f"Sender's connect() returned its conn {a}, Receiver's its conn {b}: "
                                           f"not the two ends of one link (links: {self.links})"))
            else:
                if GO not in S.conns[a]["tr"].written:
                    v.append(("same-link-without-go", f"link {a}-{b}: the Sender did not write go on it"))
                pre = b"ok\n" if R.conns[b]["relay"] else b""
                if not R.conns[b]["rx"].startswith(pre + S.send_this + GO):
                    v.append(("same-link-without-handshake", f"link {a}-{b}: the Receiver saw {R.conns[b]['rx'][:50]!r}"))
            for W, w, nm in ((S, a, "S"), (R, b, "R")):
                for i, c in enumerate(W.conns):
                    if i != w and not c["tr"].lost and not c["gone"] and not c["forced"]:
                        v.append(("other-end-open", f"both results are out but {nm} conn {i} is still open "
                                                    f"(state={c['p'].state})"))


def run_duo(case):
    w = DuoWorld(case["cfg"])
    lines, exp = [w.new_line()], ["ok"]
    tags = ["duo", "gen:" + case.get("gen", "?")]
    for op in case["ops"]:
        r = w.op(op)
        lines.append(op_line(op, w))
        exp.append("skip" if r is None else r)
        if r is None:
            tags.append("skip:" + "-".join(str(x) for x in op[:2]))
    viol, seen = [], set()
    for s_, m in w.viol + [(a, "S: " + b) for a, b in w.S.viol] + [(a, "R: " + b) for a, b in w.R.viol]:
        if s_ not in seen:
            seen.add(s_)
            viol.append((s_, m))
    rs = w.S.show_res(w.S.result.res) if w.S.result else "not-started"
    rr = w.R.show_res(w.R.result.res) if w.R.result else "not-started"
    tags.append("duo-results:" + rs.split(":")[0] + "/" + rr.split(":")[0])
    tags.append(f"duo-links:{len(w.links)}")
    if any(l[2] for l in w.links):
        tags.append("duo-relay-link")
    tags += late_tags(w.S, "duo-") + late_tags(w.R, "duo-")
    late_links = [l for l in w.links if w.S.conns[l[0]]["forced"]]
    if late_links:
        tags.append(f"duo-late-links:{len(late_links)}")
    nontrivial = bool(w.links) or any(c["p"].state in ("records", "hung up") for c in w.S.conns + w.R.conns)
    for W, nm in ((w.S, "S"), (w.R, "R")):
        zv, zt = zombie_probe(W, "duo-")
        tags += zt
        for s_, m in zv:
            if s_ not in seen:
                seen.add(s_)
                viol.append((s_, nm + ": " + m))
    return Result(lines, exp, viol, tags, nontrivial)


def gen_duo(rng, big=False):
    """a two-sided schedule chosen against the live real objects"""
    cfg = dict(lS=rng.random() < 0.7, dS=rng.choice([0, 1, 1, 2]), rS=[rng.choice([0, 0, 1]) for _ in range(rng.choice([0, 1, 1]))],
               lR=rng.random() < 0.6, dR=rng.choice([0, 1, 1, 2]), rR=[rng.choice([0, 0, 1]) for _ in range(rng.choice([0, 1, 1]))])
    if not cfg["lS"] and not cfg["lR"] and not (cfg["rS"] and cfg["rR"]):
        cfg["lS"] = True
        cfg["dR"] = max(cfg["dR"], 1)
    if cfg["lS"] and rng.random() < 0.3:
        cfg["dR"] = rng.choice([2, 2, 3])        # the Receiver knows several addresses of the Sender: late links
    if cfg["lS"] and rng.random() < 0.25:
        cfg["kS"] = True
    if cfg["lR"] and rng.random() < 0.1:
        cfg["kR"] = True
    cfg["hdS"], cfg["hrS"] = gen_hints(rng, cfg["dS"], cfg["rS"])
    cfg["hdR"], cfg["hrR"] = gen_hints(rng, cfg["dR"], cfg["rR"])
    w = DuoWorld(cfg)
    ops = []

    def do(op):
        r = w.op(op)
        ops.append(op)
        return r
    for side in rng.sample(["S", "R"], 2):
        if rng.random() < 0.85:
            do([side, "connect"])
    stranger = {}
    for step in range(rng.randrange(6, 45 if not big else 90)):
        ch = []
        for side, W in (("S", w.S), ("R", w.R)):
            if not W.has_key:
                ch += [[side, "setkey"]] * 3
            elif not W.started:
                ch += [[side, "connect"]] * 2
            if W.port_open() and len(W.conns) < 4:
                ch += [[side, "inbound"]]
            for k, lab in enumerate(W.labels):
                ep = W.eps.get(lab)
                if ep is not None and ep.d is not None and not ep.d.called:
                    ch += [[side, "connfail", k, "real" if ep.real_failure() is not None else rng.choice(["refused", "dns", "other"])]]
                    if len(W.conns) < 4:
                        ch += [[side, "connected", k]]      # a stranger answers
            for i, c in enumerate(W.conns):
                if not c["gone"]:
                    ch += [[side, "lost", i]] * (2 if c["tr"].lost else 1)
                if not w.linked(side, i) and not c["tr"].lost and not c["gone"]:
                    key = (side, i)
                    if key not in stranger:
                        kind = rng.choice(["stranger", "wrongkey", "reflected", "partial", "offbyone", "silent"])
                        scr = peer_script(rng, W, c["relay"], kind, GO if side == "R" else b"")
                        full = (b"ok\n" if c["relay"] else b"") + W.expect_this
                        if scr.startswith(full):      # a stranger cannot produce the handshake
                            scr = scr[:len(full) - 1]
                        stranger[key] = chunk(rng, scr, "rand")
                    if stranger[key]:
                        ch += [[side, "data", i, None]] * 2
            ch += [[side, "advance", rng.choice([0, 1, 2, 2, 30, 60, 61, 120])]]
            if W.port is not None and W.port.closing():
                ch += [[side, "portclosed"]] * 4
            if W.can_accept() and len(W.conns) < 5:
                ch += [[side, "accept"]]            # a stranger arrives late
        # links that can be made now
        for k in range(len(w.R.labels)):
            if w.S.port_open() and w._can_connect(w.R, k, False):
                ch += [["link", "s", k]] * 5
        for k in range(len(w.R.labels)):
            if w.S.can_accept() and w._can_connect(w.R, k, False):
                ch += [["link", "sl", k]] * 12      # the Receiver's other dial arrives after the Sender's selection
        for k in range(len(w.S.labels)):
            if w.R.port_open() and w._can_connect(w.S, k, False):
                ch += [["link", "r", k]] * 5
        for ks in range(len(w.S.labels)):
            for kr in range(len(w.R.labels)):
                if w._can_connect(w.S, ks, True) and w._can_connect(w.R, kr, True):
                    ch += [["link", "y", ks, kr]] * 5
        for l, (a, b, relay) in enumerate(w.links):
            for d, src, dst in (("SR", w.S.conns[a], w.R.conns[b]), ("RS", w.R.conns[b], w.S.conns[a])):
                if len(w.stream(src, relay)) > len(dst["rx"]) and not dst["tr"].lost and not dst["gone"]:
                    ch += [["fwd", d, l, rng.choice([1, 2, 3, 5, 40, 86, 87, 88, 200])]] * 8
        if not ch:
            break
        late = [o for o in ch if o[:2] == ["link", "sl"]]
        op = list(rng.choice(late if late and rng.random() < 0.5 else ch))
        if op[1] == "data":
            op[3] = hx(stranger[(op[0], op[2])].pop(0))
        do(op)
    if rng.random() < 0.5:
        for side, W in (("S", w.S), ("R", w.R)):
            if not W.has_key:
                do([side, "setkey"])
            if not W.started:
                do([side, "connect"])
            for i, c in enumerate(W.conns):
                if c["tr"].lost and not c["gone"]:
                    do([side, "lost", i])
            do([side, "advance", 120])
    return dict(duo=True, cfg=cfg, ops=ops, gen="duo-live")


def corpus_duo():
    out = []

    def c(cfg, ops, name):
        base = dict(lS=False, dS=0, rS=[], lR=False, dR=0, rR=[])
        base.update(cfg)
        out.append(dict(duo=True, cfg=base, ops=ops, gen="duo:" + name))
    both = [["S", "connect"], ["R", "connect"]]
    c(dict(lS=True, dR=1), both + [["link", "s", 0], ["fwd", "RS", 0, 200], ["fwd", "SR", 0, 200]], "s-listens")
    c(dict(lR=True, dS=1), both + [["link", "r", 0], ["fwd", "SR", 0, 5], ["fwd", "RS", 0, 200], ["fwd", "SR", 0, 80], ["fwd", "SR", 0, 200]], "r-listens")
    c(dict(rS=[0], rR=[0]), both + [["S", "advance", 0], ["R", "advance", 0], ["link", "y", 0, 0], ["fwd", "RS", 0, 3], ["fwd", "SR", 0, 3],
                                   ["fwd", "RS", 0, 200], ["fwd", "SR", 0, 200]], "relay")
    # two links race: S listens and dials, R listens and dials; the Sender decides
    c(dict(lS=True, dS=1, lR=True, dR=1),
      both + [["link", "s", 1], ["link", "r", 1], ["fwd", "RS", 0, 200], ["fwd", "RS", 1, 200], ["fwd", "SR", 1, 200],
              ["fwd", "SR", 0, 200], ["S", "lost", 1], ["R", "lost", 1]], "race-two-links")
    c(dict(lS=True, dS=1, lR=True, dR=1),
      both + [["link", "s", 1], ["link", "r", 1], ["fwd", "RS", 1, 200], ["fwd", "RS", 0, 200], ["fwd", "SR", 0, 200],
              ["fwd", "SR", 1, 200]], "race-two-links-other-order")
    # a stranger at the Sender's port, a stranger answering the Receiver's dial, then the real link
    c(dict(lS=True, dR=2),
      both + [["S", "inbound"], ["S", "data", 0, hx(b"GET / HTTP/1.0\r\n\r\n")], ["R", "connected", 0], ["R", "data", 0, hx(b"transit sender 00 ready\n\ngo\n")],
              ["link", "s", 1], ["fwd", "RS", 0, 200], ["fwd", "SR", 0, 200]], "strangers-then-link")
    # the Sender dials the Receiver's port twice (same host:port twice in the Receiver's hints); either attempt may win
    for first in (0, 1):
        c(dict(lR=True, hdS=[["h", 7, 0], ["h", 7, 0]], hrS=[]),
          both + [["link", "r", 0], ["link", "r", 1], ["fwd", "RS", first, 200], ["fwd", "SR", first, 200], ["fwd", "RS", 1 - first, 200],
                  ["fwd", "SR", 1 - first, 200], ["S", "advance", 120], ["R", "advance", 120]], f"dup-dial-{first}")
    # a delicate hostname in front of the good hint; our own listener is what the peer reaches
    c(dict(lS=True, hdS=[["a\x00b", 1, 0], ["d1", 1, 0]], hrS=[], dR=1),
      both + [["link", "s", 0], ["fwd", "RS", 0, 200], ["fwd", "SR", 0, 200], ["S", "advance", 120], ["R", "advance", 120]], "nasty-host-then-listener")
    c(dict(lR=True, hdS=[["d0", 1, 0], ["::1\x00", 1, 0]], hrS=[]),
      both + [["link", "r", 0], ["fwd", "RS", 0, 200], ["fwd", "SR", 0, 200], ["S", "advance", 120], ["R", "advance", 120]], "nasty-host-behind")
    # the Sender listens before it has the key (wormhole send): a stranger arrives early and hangs up (or not);
    # then the key, both connect(), the Receiver dials in
    c(dict(lS=True, kS=True, dR=1), [["S", "inbound"], ["S", "lost", 0], ["S", "setkey"]] + both +
      [["link", "s", 0], ["fwd", "RS", 0, 200], ["fwd", "SR", 0, 200], ["S", "advance", 120], ["R", "advance", 120]], "early-stranger-hangup")
    c(dict(lS=True, kS=True, dR=1), [["S", "inbound"], ["S", "advance", 60], ["S", "setkey"]] + both +
      [["S", "lost", 0], ["link", "s", 0], ["fwd", "RS", 0, 200], ["fwd", "SR", 0, 200]], "early-stranger-timeout")
    # the Receiver is quicker than the Sender's key: its first dial is dropped, a second one works
    c(dict(lS=True, kS=True, dR=2), [["R", "connect"], ["link", "s", 0], ["fwd", "RS", 0, 200], ["S", "setkey"], ["S", "connect"],
                                    ["link", "s", 1], ["fwd", "RS", 1, 200], ["fwd", "SR", 1, 200], ["R", "lost", 0]], "early-keyholder-then-retry")
    # the Sender's port takes its time to close after the Receiver's dial-in has won; the deadline falls in between
    c(dict(lS=True, dR=1), both + [["link", "s", 0], ["S", "advance", 119], ["fwd", "RS", 0, 200], ["S", "advance", 1], ["fwd", "SR", 0, 200],
                                   ["S", "portclosed"], ["R", "advance", 120]], "slow-port-close-deadline")
    # an illegal hostname among the Receiver's hints: the real endpoint refuses it; the other hint works
    c(dict(lS=True, hdR=[["my_laptop", 1, 0], ["d1", 1, 0]], hrR=[]),
      both + [["R", "connfail", 0, "real"], ["link", "s", 1], ["fwd", "RS", 0, 200], ["fwd", "SR", 0, 200]], "illegal-hostname-then-link")
    # the Receiver is late: the Sender's deadline passes first
    c(dict(lS=True, dR=1), [["S", "connect"], ["S", "advance", 120], ["R", "connect"], ["link", "s", 0], ["R", "connfail", 0]], "late-receiver")
    # the link is cut before go arrives
    c(dict(lS=True, dR=1), both + [["link", "s", 0], ["fwd", "RS", 0, 200], ["R", "lost", 0], ["R", "advance", 120]], "cut-before-go")
    # LATE links: the Receiver dials the Sender's port twice (two addresses); the second dial is handed to the factory after
    # the Sender has said go on the first.  It must hear nevermind, whichever of the two answers reaches the Receiver first.
    for first in (1, 0):
        c(dict(lS=True, dR=2), both + [["link", "s", 0], ["fwd", "RS", 0, 200], ["link", "sl", 1], ["fwd", "RS", 1, 200],
                                       ["fwd", "SR", first, 200], ["fwd", "SR", 1 - first, 200], ["S", "lost", 1], ["R", "lost", 1]], f"late-link-{first}")
    c(dict(lS=True, dR=2), both + [["link", "s", 0], ["fwd", "RS", 0, 200], ["link", "sl", 1], ["fwd", "RS", 1, 40], ["fwd", "SR", 0, 50],
                                   ["fwd", "RS", 1, 48], ["S", "portclosed"], ["fwd", "RS", 1, 1], ["fwd", "SR", 1, 200], ["fwd", "SR", 0, 200]], "late-link-pieces")
    # the Sender's winner is its own dial to the Receiver's port; the Receiver's dial reaches the Sender's port late
    c(dict(lS=True, dS=1, lR=True, dR=1),
      both + [["link", "r", 1], ["fwd", "RS", 0, 200], ["link", "sl", 1], ["fwd", "RS", 1, 200], ["fwd", "SR", 1, 200],
              ["fwd", "SR", 0, 200]], "late-link-after-outbound-winner")
    # via the relay first, then a late direct dial
    c(dict(lS=True, rS=[0], rR=[0], dR=1), both + [["S", "advance", 2], ["R", "advance", 2], ["link", "y", 1, 1], ["fwd", "RS", 0, 200],
                                                   ["link", "sl", 0], ["fwd", "RS", 1, 200], ["fwd", "SR", 1, 200], ["fwd", "SR", 0, 200]], "late-link-after-relay-winner")
    # a late stranger at either side
    c(dict(lS=True, lR=True, dS=1, dR=1),
      both + [["link", "s", 1], ["fwd", "RS", 0, 200], ["S", "accept"], ["S", "data", 1, hx(b"transit receiver 00 ready\n\n")],
              ["fwd", "SR", 0, 200], ["R", "accept"], ["R", "data", 1, hx(b"transit sender 00 ready\n\ngo\n")], ["R", "accept"],
              ["R", "advance", 60], ["R", "lost", 2]], "late-strangers")
    return out


def cases(rng, tier):
    out = corpus()
    if tier == "quick":
        out += exhaustive(rng, 2, 3)
        out += exhaustive(rng, 3, 2, max_cases=30)
        out += exhaustive_late(rng, 2, 3) + exhaustive_late(rng, 3, 2, max_cases=30)
        out += [gen_case(rng) for _ in range(350)]
        out += corpus_duo() + [gen_duo(rng) for _ in range(150)]
    else:
        out += exhaustive(rng, 2, 3)
        out += exhaustive(rng, 3, 3)
        out += exhaustive_late(rng, 2, 3) + exhaustive_late(rng, 3, 3)
        out += [gen_case(rng, big=(j % 4 == 0)) for j in range(9000)]
        out += corpus_duo() + [gen_duo(rng, big=(j % 4 == 0)) for j in range(4000)]
    return out


def search(rng, seconds, seeds):
    t0 = time.time()
    for c in seeds:
        yield c, run_case(c)
    for c in corpus() + corpus_duo() + exhaustive(rng, 2, 3) + exhaustive_late(rng, 2, 3):
        yield c, run_case(c)
    while time.time() - t0 < seconds:
        c = gen_case(rng, big=True) if rng.random() < 0.6 else gen_duo(rng, big=True)
        yield c, run_case(c)


def shrink(case):
    ops = case["ops"]
    for i in reversed(range(len(ops))):
        if ops[i][0] in ("inbound", "connected", "link", "accept") or (case.get("duo") and len(ops[i]) > 1
                                                                        and ops[i][1] in ("inbound", "connected", "accept")):
            continue          # would renumber the connections
        c = dict(case)
        c["ops"] = ops[:i] + ops[i + 1:]
        yield c
