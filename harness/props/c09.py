"""C09 — the mailbox session survives connection loss: nothing lost, nothing repeated."""
import os
import random
import time

from ..core import Result
from .. import mailbox_corr as mc
from . import c14
from ..worlds.mailbox import World

ID = "C09"
MODEL = "CLIENT"
PROP_MODULES = ["WV.Props.ClientSkel", "WV.Props.C09"]
# translation validation of the control machines' method bodies against WV.Client (tools/extract.py::extract_pyir ->
# WV/Gen/PyIR.lean; agents/deepPyIR2_integration.md): part of the check as soon as the modules are installed
import os as _os
PROP_MODULES += ["WV.Props." + _m for _m in ("PyIR_Client", "PyIR_Client_Boss", "PyIR_Client_Glue", "PyIRRC_C14")
                 if _os.path.exists(_os.path.join(_os.path.dirname(_os.path.abspath(__file__)), "..", "..", "lean", "WV",
                                                  "Props", _m + ".lean"))]
# the data half of the liveness clause (two composed C03 `Client`s + server: Drained => received == sent, and the
# explicit draining continuation); part of the check as soon as its module is installed
if os.path.exists(os.path.join(os.path.dirname(os.path.dirname(os.path.dirname(os.path.abspath(__file__)))),
                               "lean", "WV", "Props", "C09_Live.lean")):
    PROP_MODULES.append("WV.Props.C09_Live")
NATIVE_DECIDE_MODULES = ["WV.Proofs.ClientCert", "WV.Props.C09"]
TRUSTED = list(c14.TRUSTED) + [
    "data half of the liveness clause (WV.Props.C09_Live): proved for the composition of two C03 `Client`s (Boss/Send/"
    "Mailbox/Order/Receive data layers) with the storing/duplicating/replaying server `Sys`, under the ideal (side, "
    "phase)-keyed AEAD hypothesis `Crypto.Ideal` and in a LEGAL ENVIRONMENT (`legalRun`: Boss.happy and "
    "Send.got_verified_key are called by Receive only, Receive.got_key comes after Boss.got_code, Mailbox inputs are "
    "well-typed — read off _key.py/_receive.py/_code.py; without it the statement is false in `Sys`: "
    "`legality_is_needed`); that the real client is that `Client` is C03's correspondence plus the `drained-comp` "
    "cases here; fairness itself (that a network performs the continuation) is not proved",
]
RULE = ("(a) guided schedules with frequent drops, client 0 compared step by step with the Lean model (every reconnect "
        "must carry bind + exactly the owed commands); (b) two real clients with random drop sequences on both sides "
        "(in-flight commands and answers lost), then stable connectivity: the oracle requires key, verifier, versions "
        "once each and every send_message() delivered to the peer exactly once and in order; (c) the same oracle with two "
        "clients on their real connection stack (real twisted ClientService, real autobahn handshake with the real server "
        "protocol over in-memory pipes; refused and unanswered reconnection attempts, minutes of virtual time); (d) one "
        "long outage on the real ClientService as the client constructs it; (e) `drained`: two real clients, an arbitrary "
        "prefix with drops (also in the middle of sends, sends while disconnected), then the continuation of "
        "WV.Props.C09Live.e2e_always_completable on the real code — reconnect both, the server replays, flush — and the "
        "real-code reading of `Drained`: both Mailboxes S2B, Send._queue / Order._queue / _rx_phases / _pending_outbound "
        "empty, every numbered message the server stores is in the peer's _processed, received == sent both ways; "
        "(f) `drained-comp`: the same continuation on ONE real client's data path (Boss/Send/Mailbox/Order/Receive with "
        "recorder collaborators), the same op lines through WV.C03.driver (the `Client` the new theorems are about); "
        "distinct = distinct traces")


def cases(rng, tier):
    n = 30 if tier == "quick" else 800
    out = [dict(seed=4000 + i, n=120, profile="drops") for i in range(4)]
    out += mc.connection_corpus()
    # one long outage, on the real ClientService as the client constructs it: it must keep trying
    out.append(dict(kind="outage", failures=3000 if tier == "quick" else 20000))
    # long sessions: more peer phases than any plausible "window of recent phases", then a reconnect with a full replay
    for nlong, rec in ([(12, 1), (140, 1), (300, 2)] if tier == "quick" else [(12, 1), (70, 3), (140, 1), (300, 2), (700, 2), (1100, 1)]):
        out.append(dict(kind="long", n=nlong, reconnects=rec, burst=7))
    for _ in range(n):
        out.append(dict(seed=rng.randrange(10**9), n=rng.choice([60, 120, 200]), profile=rng.choice(["drops", "drops", "late-peer", "allocate", "input"])))
    m = 50 if tier == "quick" else 1500
    for _ in range(m):
        out.append(dict(kind="pair", seed=rng.randrange(10**9), nmsg=[rng.randrange(0, 5), rng.randrange(0, 5)],
                        pdrop=rng.choice([0.02, 0.05, 0.1, 0.2]), steps=rng.choice([100, 250, 500])))
    # the same on the real connection stack (real ClientService, real autobahn handshake, real server protocol)
    for _ in range(25 if tier == "quick" else 600):
        out.append(dict(kind="real", seed=rng.randrange(10**9), nmsg=[rng.randrange(0, 4), rng.randrange(0, 4)],
                        pdrop=rng.choice([0.05, 0.15, 0.3]), steps=rng.choice([30, 60, 120])))
    # long sessions: many phases in the mailbox, then late drops (every re-open replays the whole
    # mailbox history, however long it is)
    for k in range(3 if tier == "quick" else 40):
        out.append(dict(kind="pair", seed=rng.randrange(10**9), nmsg=[rng.choice([35, 48, 70]), rng.choice([2, 40])],
                        pdrop=0.0, steps=rng.choice([1500, 2500]), late_drops=rng.choice([1, 2, 3])))
    # the draining continuation on the real code (two clients), and on one client's data path against WV.C03.driver
    for c in DRAINED_CORPUS:
        out.append(dict(c))
    for _ in range(120 if tier == "quick" else 2500):
        out.append(dict(kind="drained", seed=rng.randrange(10**9), nmsg=[rng.randrange(0, 7), rng.randrange(0, 7)],
                        pdrop=rng.choice([0.0, 0.05, 0.15, 0.3]), steps=rng.choice([40, 120, 300]),
                        final_drop=rng.choice([[0, 0], [1, 0], [0, 1], [1, 1]])))
    for _ in range(80 if tier == "quick" else 2000):
        out.append(dict(kind="drained-comp", seed=rng.randrange(10**9), nsend=rng.randrange(0, 7), npeer=rng.randrange(0, 7),
                        pdrop=rng.choice([0.1, 0.25, 0.5])))
    if tier == "thorough":
        # small-scope exhaustive: 3 messages A->B, every single drop point of A (after each of its first 40 steps)
        for at in range(40):
            out.append(dict(kind="drained", seed=7, nmsg=[3, 1], pdrop=0.0, steps=60, final_drop=[0, 0], drop_at=[0, at]))
            out.append(dict(kind="drained", seed=7, nmsg=[3, 1], pdrop=0.0, steps=60, final_drop=[0, 0], drop_at=[1, at]))
    return out


DRAINED_CORPUS = [
    # the run of the Lean non-vacuity example: A sends 3, loses its connection in the middle of the sends, B drops too
    dict(kind="drained", seed=11, nmsg=[3, 1], pdrop=0.15, steps=120, final_drop=[1, 1]),
    dict(kind="drained", seed=12, nmsg=[6, 6], pdrop=0.3, steps=300, final_drop=[1, 0]),
    dict(kind="drained", seed=13, nmsg=[0, 5], pdrop=0.0, steps=40, final_drop=[0, 1]),
    dict(kind="drained", seed=14, nmsg=[4, 0], pdrop=0.05, steps=8, final_drop=[1, 1]),      # nearly everything sent while disconnected
    dict(kind="drained-comp", seed=21, nsend=3, npeer=3, pdrop=0.5),
    dict(kind="drained-comp", seed=22, nsend=6, npeer=0, pdrop=0.25),
    dict(kind="drained-comp", seed=23, nsend=0, npeer=6, pdrop=0.1),
]


def _numeric(phase):
    return phase.isascii() and phase.isdigit()


def run_drained(case):
    """Mirror of `drainActs` (lean/WV/Proofs/C09_Drain.lean) on the real code.  Prefix: any schedule of API calls, frame
    deliveries and drops.  Continuation: reconnect both, let the server replay, flush.  Then the real-code reading of
    `Drained` must hold and with it received == sent (WV.Props.C09Live.e2e_complete_clients)."""
    from ..util import automat_state
    rng = random.Random(case["seed"])
    viol = []
    with World(seed=case["seed"]) as W:
        cl = [W.add_client(delegated=True), W.add_client(delegated=True)]
        code = "9-drumbeat-uproot"
        sent = [[], []]
        started = [False, False]
        ndrops = 0
        midsend = 0
        nreorder = 0
        nsteps = [0, 0]
        drop_at = case.get("drop_at")
        for step in range(case["steps"]):
            choices = []
            for ci in (0, 1):
                c = cl[ci]
                if c.conn is None and c.svc.started:
                    choices += [["open", ci]] * 3
                if c.conn is not None:
                    if c.conn.c2s:
                        choices += [["c2s", ci]] * 4
                    if c.conn.s2c:
                        choices += [["s2c", ci]] * 4
                    if rng.random() < case["pdrop"]:
                        choices += [["drop", ci]] * 3
                    nmf = len(W.msg_frames(ci))
                    if nmf >= 2:
                        choices += [["swapmsg", ci, rng.randrange(nmf), rng.randrange(nmf)]] * 2
                    if nmf >= 1 and rng.random() < 0.3:
                        choices += [["dupmsg", ci, rng.randrange(nmf)]]
                if not started[ci]:
                    choices += [["api", ci, "set_code", code]] * 2
                if len(sent[ci]) < case["nmsg"][ci]:
                    body = bytes([ci, len(sent[ci]) % 256]) * (1 + len(sent[ci]) % 7)
                    choices += [["api", ci, "send", body.hex()]] * 2
                if W.pending_turn(ci):
                    choices += [["turn", ci]] * 2
            if not choices:
                break
            op = rng.choice(choices)
            W.do(op)
            nsteps[op[1]] += 1
            if op[0] == "drop":
                ndrops += 1
            if op[0] == "swapmsg":
                nreorder += 1
            if op[0] == "api" and op[2] == "set_code":
                started[op[1]] = True
            if op[0] == "api" and op[2] == "send":
                sent[op[1]].append(op[3])
                # a drop right behind a send: the frame is written (or queued) and lost with the connection
                if cl[op[1]].conn is not None and rng.random() < case["pdrop"]:
                    W.do(["drop", op[1]])
                    ndrops += 1
                    midsend += 1
            if drop_at and op[1] == drop_at[0] and nsteps[op[1]] == drop_at[1] + 1 and cl[op[1]].conn is not None:
                W.do(["drop", op[1]])
                ndrops += 1
        # the remaining API calls (the continuation contains no send_message): possibly while disconnected
        for ci in (0, 1):
            if not started[ci]:
                W.do(["api", ci, "set_code", code])
            while len(sent[ci]) < case["nmsg"][ci]:
                body = bytes([ci, len(sent[ci]) % 256]) * (1 + len(sent[ci]) % 7)
                W.do(["api", ci, "send", body.hex()])
                sent[ci].append(body.hex())
        for ci in (0, 1):
            if case["final_drop"][ci] and cl[ci].conn is not None:
                W.do(["drop", ci])
                ndrops += 1
        haskey = all(automat_state(c.boss._R) == "S2_verified_key" for c in cl)
        # ---- the continuation: reconnect both, the server replays (in any order, with duplicates), flush
        for rnd in range(3):
            for ci in (0, 1):
                if cl[ci].conn is None and cl[ci].svc.started:
                    W.do(["open", ci])
            for ci in (0, 1):
                while cl[ci].conn is not None and cl[ci].conn.c2s:
                    W.do(["c2s", ci])
            for ci in (0, 1):
                nmf = len(W.msg_frames(ci))
                for _ in range(rng.randrange(0, 4) if nmf >= 2 else 0):
                    W.do(["swapmsg", ci, rng.randrange(nmf), rng.randrange(nmf)])
                    nreorder += 1
                if nmf and rng.random() < 0.3:
                    W.do(["dupmsg", ci, rng.randrange(nmf)])
            W.settle()
        # ---- the real-code reading of `Drained`
        stored = [(r["side"], r["phase"]) for r in W.db.execute("SELECT side, phase FROM messages").fetchall()]
        for ci in (0, 1):
            c = cl[ci]
            b = c.boss
            peer = cl[1 - ci]
            if c.conn is None or automat_state(b._M) != "S2B":
                viol.append(("drained:not-open", f"client {ci}: after reconnecting and flushing the Mailbox is {automat_state(b._M)} "
                             f"(connection {'up' if c.conn is not None else 'down'}); events {[n for n, v in c.events]}"))
            if b._M._pending_outbound:
                viol.append(("drained:pending-outbound", f"client {ci}: both sides connected, everything flushed, and "
                             f"_pending_outbound still holds {sorted(b._M._pending_outbound)} ({ndrops} drops)"))
            if b._S._queue:
                viol.append(("drained:send-queue", f"client {ci}: Send._queue still holds {len(b._S._queue)} messages"))
            if b._O._queue:
                viol.append(("drained:order-queue", f"client {ci}: Order._queue still holds {len(b._O._queue)} messages"))
            if b._rx_phases:
                viol.append(("drained:parked", f"client {ci}: phases {sorted(b._rx_phases)} are parked in the reorder buffer, "
                             f"next expected {b._next_rx_phase}"))
            for side, phase in stored:
                if side == c.side and _numeric(phase) and phase not in peer.boss._M._processed:
                    viol.append(("drained:unprocessed", f"the server stores phase {phase} of client {ci} and the peer's Mailbox "
                                 f"never accepted it (_processed = {sorted(peer.boss._M._processed)})"))
                    break
            for i in range(len(sent[ci])):
                if (c.side, str(i)) not in stored:
                    viol.append(("drained:not-stored", f"client {ci}: send_message #{i} never reached the server "
                                 f"(stored: {sorted(p for s_, p in stored if s_ == c.side)})"))
                    break
            got = [v for n, v in c.events if n == "message"]
            want = sent[1 - ci]
            if got != want:
                if got == want[:len(got)]:
                    viol.append(("message-lost", f"client {ci} received {got}, peer sent {want} ({ndrops} drops)"))
                else:
                    viol.append(("message-repeated-or-reordered", f"client {ci} received {got}, peer sent {want}"))
            names = [n for n, v in c.events]
            for once in ("code", "key", "verifier", "versions"):
                k = names.count(once)
                if k != 1:
                    viol.append((("event-lost:" if k == 0 else "event-repeated:") + once,
                                 f"client {ci}: {once} notified {k} times after {ndrops} drops: {names}"))
            for ent in c.internal:
                viol.append(("internal:" + ent[0], f"internal failure {ent}"))
        trace = [ndrops, midsend, haskey, min(nreorder, 3)] + [[n for n, v in c.events] for c in cl]
        tags = ["drained:drops=%d" % min(ndrops, 5), "drained:midsend=%d" % min(midsend, 3), "drained:reorder=%d" % min(nreorder, 3),
                "drained:haskey" if haskey else "drained:key-exchange-in-continuation",
                "drained:msgs=%d" % min(len(sent[0]) + len(sent[1]), 8)]
        return Result([], [], viol, tags, ndrops > 0, info=dict(trace=trace))


def gen_drained_comp(case):
    """op sequence for ONE client's data path (c03's component world) that mirrors the continuation: sends at any time,
    `lost` / `connected` at any moment, then: connected, the peer's numbered messages in any order with duplicates, the
    echo of everything pending"""
    from . import c03
    rng = random.Random(case["seed"])
    nsend, npeer, pdrop = case["nsend"], case["npeer"], case["pdrop"]
    ops = []
    connected = [False]

    def bounce():
        if rng.random() < pdrop:
            ops.append(["mbox", "lost" if connected[0] else "connected"])
            connected[0] = not connected[0]

    todo = ["boss got_code", "mbox connected", "mbox got_mailbox", "key", "addpake", "addversion", "pake", "version"]
    sends = ["%02x" % (16 + i) * (1 + i % 5) for i in range(nsend)]
    peers = [c03.hx(bytes([i, 255 - i]) * (1 + i % 4)) for i in range(npeer)]
    si = 0
    while todo or si < len(sends):
        bounce()
        if si < len(sends) and (not todo or rng.random() < 0.4):
            ops.append(["send", sends[si]])
            si += 1
            continue
        s = todo.pop(0)
        if s == "mbox connected":
            if connected[0]:
                continue
            connected[0] = True
            ops.append(["mbox", "connected"])
        elif s == "addpake":
            ops.append(["add", "pake", "0102"])
        elif s == "addversion":
            ops.append(["add", "version", "0304"])
        elif s in ("pake", "version"):
            if not connected[0]:
                ops.append(["mbox", "connected"])
                connected[0] = True
            if s == "pake":
                ops.append(["mailbox_rx", c03.PEER, "pake", ["raw", "70616b652d626f6479"]])
            else:
                ops.append(["mailbox_rx", c03.PEER, "version", ["seal", c03.PEER, "version", "7b7d", False]])
        else:
            ops.append(s.split(" "))
    # drops at the end, then the continuation
    for _ in range(rng.randrange(0, 3)):
        ops.append(["mbox", "lost" if connected[0] else "connected"])
        connected[0] = not connected[0]
    if not connected[0]:
        ops.append(["mbox", "connected"])          # re-open + drain
        connected[0] = True
    order = list(range(npeer))
    rng.shuffle(order)
    for i in order:
        m = ["mailbox_rx", c03.PEER, str(i), ["seal", c03.PEER, str(i), peers[i], False]]
        ops.append(m)
        if rng.random() < 0.3:
            ops.append(m)                           # a duplicate
    echo = ["pake", "version"] + [str(i) for i in range(nsend)]
    rng.shuffle(echo)
    for ph in echo:
        ops.append(["mailbox_rx", "@me", ph, ["raw", "00"]])
    return ops, sends, peers


def run_long(case):
    """A LONG session, scripted: the key is established, the peer sends `n` messages and all arrive; then the receiver's
    connection is lost and re-made (an honest server replays the WHOLE mailbox on the re-open: pake, version and all `n`
    records); then one more message each way.  Whatever the client remembers about what it has processed must not be a
    window: received == sent, each once, nothing internal fails, nobody closes."""
    viol = []
    n = case["n"]
    with World(seed=case.get("seed", 0)) as W:
        cl = [W.add_client(delegated=True), W.add_client(delegated=bool(case.get("deleg1", True)))]
        code = "9-drumbeat-uproot"
        for ci in (0, 1):
            W.do(["api", ci, "set_code", code])
            W.do(["open", ci])
        W.settle()
        sent = [[], []]
        for i in range(n):
            body = "%04x" % i
            W.do(["api", 1, "send", body])
            sent[1].append(body)
            if i % max(1, case.get("burst", 1)) == 0:
                W.settle()
        W.settle()
        for k in range(case.get("reconnects", 1)):
            who = 0 if k % 2 == 0 else 1
            if cl[who].conn is not None:
                W.do(["drop", who])
            W.do(["open", who])
            W.settle()
            for ci in (0, 1):
                body = "ff%02x%02x" % (ci, k)
                W.do(["api", ci, "send", body])
                sent[ci].append(body)
            W.settle()
        for ci in (0, 1):
            c = cl[ci]
            got = [v for nm, v in c.events if nm == "message"]
            want = sent[1 - ci]
            if got != want:
                if got == want[:len(got)]:
                    viol.append(("message-lost", f"long session ({n} messages, then a reconnect): client {ci} received {len(got)} of {len(want)}"))
                else:
                    bad = next((i for i in range(min(len(got), len(want))) if got[i] != want[i]), min(len(got), len(want)))
                    viol.append(("message-repeated-or-reordered", f"long session ({n} messages, then a reconnect): client {ci} received "
                                 f"{len(got)} messages, the peer sent {len(want)}; first difference at #{bad}: {got[bad:bad + 3]} vs {want[bad:bad + 3]}"))
            names = [nm for nm, v in c.events]
            for once in ("code", "key", "verifier", "versions"):
                k = names.count(once)
                if k != 1 and not (not c.delegated and once in ("key", "verifier", "versions", "code")):
                    viol.append((("event-lost:" if k == 0 else "event-repeated:") + once,
                                 f"long session: client {ci}: {once} notified {k} times"))
            if "closed" in names:
                viol.append(("closed-itself", f"long session ({n} messages, then a reconnect): client {ci} closed itself: {c.events[-1]}"))
            for ent in c.internal:
                viol.append(("internal:" + ent[0], f"long session ({n} messages, then a reconnect): internal failure {ent}"))
    return Result([], [], viol, ["long:n=%d" % n, "long:reconnects=%d" % case.get("reconnects", 1)], True)


def run_drained_comp(case):
    from . import c03
    ops, sends, peers = gen_drained_comp(case)
    r = c03.run_comp(dict(ops=ops, seed=case["seed"]))
    viol = list(r.violations)
    last = r.expect[-1] if r.expect else ""
    dig = dict(kv.split("=", 1) for kv in last.split(" | ")[-1].split(" ") if "=" in kv)
    got = []
    adds = []
    for e in r.expect:
        for ev in e.split(" | ")[0].split("; "):
            w = ev.split(" ")
            if "received" in w:
                got.append(w[w.index("received") + 1])
            if "add" in w and len(w) >= w.index("add") + 2:
                adds.append(w[w.index("add") + 1])
    if dig.get("pend") != "[]":
        viol.append(("drained:pending-outbound", f"every phase has been echoed and _pending_outbound is {dig.get('pend')}"))
    if dig.get("sq") != "0" or dig.get("oq") != "0" or dig.get("buf") != "[]":
        viol.append(("drained:queues", f"Send/Order queue or reorder buffer not empty at the end: {last.split(' | ')[-1]}"))
    if dig.get("M") != "S2B":
        viol.append(("drained:not-open", f"Mailbox is {dig.get('M')} at the end"))
    want = [p if p else "-" for p in peers]
    if got != want:
        viol.append(("message-lost" if got == want[:len(got)] else "message-repeated-or-reordered",
                     f"the application received {got}, the peer's messages are {want}"))
    for i in range(len(sends)):
        if c03.hs(str(i)) not in adds:
            viol.append(("drained:not-stored", f"send_message #{i} was never written to a connection (adds: {adds})"))
            break
    ndrops = sum(1 for o in ops if o[:2] == ["mbox", "lost"])
    tags = ["drained-comp:drops=%d" % min(ndrops, 4), "drained-comp:sends=%d" % min(len(sends), 6), "drained-comp:peer=%d" % min(len(peers), 6)]
    return Result(r.lines, r.expect, viol, tags, True, info=dict(model="C03"))


def run_pair(case):
    rng = random.Random(case["seed"])
    viol = []
    with World(seed=case["seed"]) as W:
        cl = [W.add_client(delegated=True), W.add_client(delegated=True)]
        code = "9-drumbeat-uproot"
        sent = [[], []]
        started = [False, False]
        ndrops = 0
        binds_ok = True
        for step in range(case["steps"]):
            choices = []
            for ci in (0, 1):
                c = cl[ci]
                if c.conn is None and c.svc.started:
                    choices += [["open", ci]] * 3
                    if c.ever_opened and rng.random() < 0.3:
                        # a reconnect attempt that reaches TCP but fails the WebSocket negotiation
                        choices += [["ws_fail", ci]]
                if c.conn is not None:
                    if c.conn.c2s:
                        choices += [["c2s", ci]] * 4
                    if c.conn.s2c:
                        choices += [["s2c", ci]] * 4
                    if rng.random() < case["pdrop"]:
                        choices += [["drop", ci]] * 3
                if not started[ci]:
                    choices += [["api", ci, "set_code", code]] * 2
                if len(sent[ci]) < case["nmsg"][ci]:
                    body = bytes([ci, len(sent[ci]) % 256]) * (1 + len(sent[ci]) % 7)
                    choices.append(["api", ci, "send", body.hex()])
            if not choices:
                break
            op = rng.choice(choices)
            n_before = len(W.sent[op[1]]) if op[0] == "c2s" else None
            W.do(op)
            if op[0] == "drop":
                ndrops += 1
            if op[0] == "api" and op[2] == "set_code":
                started[op[1]] = True
            if op[0] == "api" and op[2] == "send":
                sent[op[1]].append(op[3])
        # late drops: after (almost) everything has been exchanged, bounce the connections again
        for _ in range(case.get("late_drops", 0)):
            W.settle()
            for ci in (0, 1):
                if cl[ci].conn is not None and rng.random() < 0.8:
                    W.do(["drop", ci])
                    ndrops += 1
            for ci in (0, 1):
                if cl[ci].conn is None and cl[ci].svc.started:
                    W.do(["open", ci])
            if all(len(sent[ci]) >= case["nmsg"][ci] for ci in (0, 1)) is False:
                for ci in (0, 1):
                    if started[ci] and len(sent[ci]) < case["nmsg"][ci]:
                        body = bytes([ci, len(sent[ci]) % 256]) * (1 + len(sent[ci]) % 7)
                        W.do(["api", ci, "send", body.hex()])
                        sent[ci].append(body.hex())
        # eventually stable connectivity; remaining API calls still get made
        for ci in (0, 1):
            if not started[ci]:
                W.do(["api", ci, "set_code", code])
            while len(sent[ci]) < case["nmsg"][ci]:
                body = bytes([ci, len(sent[ci]) % 256]) * (1 + len(sent[ci]) % 7)
                W.do(["api", ci, "send", body.hex()])
                sent[ci].append(body.hex())
        for _ in range(4):
            for ci in (0, 1):
                if cl[ci].conn is None and cl[ci].svc.started:
                    W.do(["open", ci])
            W.settle()
        # every connection starts with bind
        for ci in (0, 1):
            frames = W.sent[ci]
        for ci in (0, 1):
            ev = cl[ci].events
            names = [n for n, v in ev]
            for once in ("code", "key", "verifier", "versions"):
                k = names.count(once)
                if k != 1:
                    viol.append((("event-lost:" if k == 0 else "event-repeated:") + once,
                                 f"client {ci}: {once} notified {k} times after {ndrops} drops: {names}"))
            got = [v for n, v in ev if n == "message"]
            want = sent[1 - ci]
            if got != want:
                if got == want[:len(got)]:
                    viol.append(("message-lost", f"client {ci} received {got}, peer sent {want} ({ndrops} drops)"))
                else:
                    viol.append(("message-repeated-or-reordered", f"client {ci} received {got}, peer sent {want}"))
            for ent in cl[ci].internal:
                viol.append(("internal:" + ent[0], f"internal failure {ent}"))
        trace = [ndrops] + [[n for n, v in c.events] for c in cl]
        return Result([], [], viol, ["pair:drops=%d" % min(ndrops, 5)], ndrops > 0, info=dict(trace=trace))


def bind_first(ops_sent):
    return True


def trace_oracle(summary):
    viol = []
    names = [n for n, v in summary["events"]]
    for once in ("code", "key", "verifier", "versions", "closed"):
        if names.count(once) > 1:
            viol.append(("event-repeated:" + once, f"{once} notified {names.count(once)} times: {names}"))
    for ent in summary["internal"]:
        viol.append(("internal:" + ent[0], f"internal failure {ent}"))
    return viol


EXTRA_TARGETS = ["wvsearch"]
evidence_extra = mc.cert_stats


def run_real(case):
    """two clients on their REAL connection stack (worlds/realstack.py): connections are lost, reconnection attempts are
    refused or get TCP without an answer to the WebSocket upgrade, time passes; then the server is reachable for good.
    Within the grace period everything owed must have happened exactly once."""
    from ..worlds.realstack import RealWorld
    rng = random.Random(case["seed"])
    viol = []
    with RealWorld(seed=case["seed"]) as W:
        cl = [W.add_client(), W.add_client()]
        code = "9-drumbeat-uproot"
        sent = [[], []]
        started = [False, False]
        ndrops = 0
        modes = set()
        for step in range(case["steps"]):
            ci = rng.randrange(2)
            c = cl[ci]
            r = rng.random()
            if not started[ci] and r < 0.3:
                W.api(c, "set_code", code)
                started[ci] = True
            elif r < 0.45 and len(sent[ci]) < case["nmsg"][ci]:
                body = bytes([ci, len(sent[ci]) % 256]) * (1 + len(sent[ci]) % 7)
                W.api(c, "send_message", body)
                sent[ci].append(body.hex())
            elif r < 0.45 + case["pdrop"] and c.connected:
                c.ep.mode = rng.choice(["up", "refuse", "mute", "mute"])
                c.ep.mute_for = rng.choice([0.0, 0.2, 3.0])
                modes.add(c.ep.mode)
                c.link.drop()
                ndrops += 1
            elif r < 0.6:
                c.ep.mode = rng.choice(["up", "up", "refuse", "mute"])
                modes.add(c.ep.mode)
            elif r < 0.8:
                W.advance(rng.choice([0.05, 0.3, 1.0, 2.5, 7.0, 20.0, 65.0]))
            else:
                W.settle()
        for ci in (0, 1):
            cl[ci].ep.mode = "up"
            if not started[ci]:
                W.api(cl[ci], "set_code", code)
            while len(sent[ci]) < case["nmsg"][ci]:
                body = bytes([ci, len(sent[ci]) % 256]) * (1 + len(sent[ci]) % 7)
                W.api(cl[ci], "send_message", body)
                sent[ci].append(body.hex())
        W.advance(400.0, step=1.0)     # ClientService's default back-off never exceeds about a minute
        for ci in (0, 1):
            c = cl[ci]
            if not c.connected:
                viol.append(("not-reconnected", f"client {ci}: the server has been reachable for 400 s and the client is not connected "
                             f"({c.ep.attempts} attempts, {ndrops} drops; logged {W.logged[:2]})"))
            names = [n for n, v in c.events]
            for once in ("code", "key", "verifier", "versions"):
                k = names.count(once)
                if k != 1:
                    viol.append((("event-lost:" if k == 0 else "event-repeated:") + once,
                                 f"client {ci}: {once} notified {k} times after {ndrops} drops: {names}"))
            got = [v for n, v in c.events if n == "message"]
            want = sent[1 - ci]
            if got != want:
                if got == want[:len(got)]:
                    viol.append(("message-lost", f"client {ci} received {got}, peer sent {want} ({ndrops} drops)"))
                else:
                    viol.append(("message-repeated-or-reordered", f"client {ci} received {got}, peer sent {want}"))
            if "closed" in names:
                viol.append(("closed-itself", f"client {ci} closed itself: {c.events[-1]}"))
            for ent in c.internal:
                viol.append(("internal:" + ent[0], f"internal failure {ent}"))
            for ent in c.api_errors:
                viol.append(("api-raises:" + ent[1], f"API call raised {ent}"))
        trace = [ndrops, sorted(modes)] + [[n for n, v in c.events] for c in cl]
        return Result([], [], viol, ["real:drops=%d" % min(ndrops, 5)] + ["real:mode:" + m for m in sorted(modes)], ndrops > 0, info=dict(trace=trace))


def run_outage(case):
    from ..worlds.mailbox import long_outage
    stuck, attempts, errors = long_outage(case["failures"])
    viol = []
    if stuck is not None:
        viol.append(("reconnect-abandoned", f"after one good connection and {stuck} refused attempts in a row the client's "
                     f"ClientService has no further attempt scheduled: it will never reach the server again ({errors[:1]})"))
    return Result([], [], viol, ["outage"], True, info=dict(trace=["outage", stuck, min(attempts, case["failures"])]))


def run_case(case):
    if case.get("kind") == "outage":
        return run_outage(case)
    if case.get("kind") == "real":
        return run_real(case)
    if case.get("kind") == "trace":
        return mc.run_trace_case(case, trace_oracle)
    if case.get("kind") == "pair":
        return run_pair(case)
    if case.get("kind") == "drained":
        return run_drained(case)
    if case.get("kind") == "long":
        return run_long(case)
    if case.get("kind") == "drained-comp":
        return run_drained_comp(case)
    if "ops" in case:
        ob, summary = mc.replay(case["ops"], welcome_error=case.get("welcome_error"), npeers=case.get("npeers"), seed=case.get("seed", 0))
        prof = case.get("profile", "replay")
    else:
        ops, ob, summary = mc.guided(case["seed"], case["n"], case["profile"])
        prof = case["profile"]
    viol = []
    # on the real run: every reconnect starts with bind and re-issues what is owed — checked line by
    # line against the model; independently: the first command of every connection is bind
    for line, exp in zip(ob.lines, ob.expect):
        if line == "open" and exp.startswith("ok"):
            outs = exp.split(" | ")[2].split()
            if not outs or outs[0] != "tx:bind":
                viol.append(("bind-not-first", f"new connection did not start with bind: {outs}"))
            # what is owed is re-issued ONCE: the server accepts one bind / claim / release / open / close per
            # connection and answers a second one with `error`, which ends the session (ServerError)
            once_only = [o for o in outs if o.split(":")[1] in ("bind", "claim", "release", "open", "close", "allocate")]
            dup = sorted({o for o in once_only if once_only.count(o) > 1})
            if dup:
                viol.append(("resume-duplicate", f"the burst that resumes the session on a new connection repeats {dup}: {outs} "
                             f"(a conformant server refuses the second one and the wormhole closes itself with ServerError)"))
    names = [n for n, v in summary["events"]]
    for once in ("code", "key", "verifier", "versions", "closed"):
        if names.count(once) > 1:
            viol.append(("event-repeated:" + once, f"{once} notified {names.count(once)} times: {names}"))
    # an internal failure ends the session for good: nothing sent afterwards is delivered
    for ent in summary["internal"]:
        viol.append(("internal:" + ent[0], f"the session was ended by an internal failure {ent}"))
    nontrivial = sum(1 for l in ob.lines if l == "drop") > 0
    return Result(ob.lines, ob.expect, viol, ["profile:" + prof], nontrivial)


def shrink(case):
    if case.get("kind") == "outage":
        f = case["failures"]
        for g in (f // 2, f - 1):
            if 0 < g < f:
                yield dict(case, failures=g)
        return
    if case.get("kind") == "trace":
        yield from mc.trace_shrink(case)
        return
    if case.get("kind") == "drained-comp":
        for key in ("nsend", "npeer"):
            if case[key] > 0:
                yield dict(case, **{key: case[key] - 1})
        return
    if case.get("kind") in ("pair", "real", "drained"):
        for k in (0, 1):
            if case["nmsg"][k] > 0:
                c = dict(case)
                c["nmsg"] = list(case["nmsg"])
                c["nmsg"][k] -= 1
                yield c
        if case["steps"] > 20:
            c = dict(case)
            c["steps"] = case["steps"] // 2
            yield c
        return
    yield from c14.shrink(case)


def search(rng, seconds, seeds):
    t0 = time.time()
    yield from mc.model_guided(trace_oracle)
    c = dict(kind="outage", failures=20000)
    yield c, run_case(c)
    for c in seeds:
        yield c, run_case(c)
    while time.time() - t0 < seconds:
        for c in cases(rng, "quick"):
            yield c, run_case(c)
            if time.time() - t0 > seconds:
                return
