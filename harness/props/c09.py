"""C09 — the mailbox session survives connection loss: nothing lost, nothing repeated."""
import random
import time

from ..core import Result
from .. import mailbox_corr as mc
from . import c14
from ..worlds.mailbox import World

ID = "C09"
MODEL = "CLIENT"
PROP_MODULES = ["WV.Props.ClientSkel", "WV.Props.C09"]
NATIVE_DECIDE_MODULES = ["WV.Proofs.ClientCert", "WV.Props.C09"]
TRUSTED = c14.TRUSTED
RULE = ("(a) guided schedules with frequent drops, client 0 compared step by step with the Lean model (every reconnect "
        "must carry bind + exactly the owed commands); (b) two real clients with random drop sequences on both sides "
        "(in-flight commands and answers lost), then stable connectivity: the oracle requires key, verifier, versions "
        "once each and every send_message() delivered to the peer exactly once and in order; (c) the same oracle with two "
        "clients on their real connection stack (real twisted ClientService, real autobahn handshake with the real server "
        "protocol over in-memory pipes; refused and unanswered reconnection attempts, minutes of virtual time); (d) one "
        "long outage on the real ClientService as the client constructs it; distinct = distinct traces")


def cases(rng, tier):
    n = 30 if tier == "quick" else 800
    out = [dict(seed=4000 + i, n=120, profile="drops") for i in range(4)]
    out += mc.connection_corpus()
    # one long outage, on the real ClientService as the client constructs it: it must keep trying
    out.append(dict(kind="outage", failures=3000 if tier == "quick" else 20000))
    for _ in range(n):
        out.append(dict(seed=rng.randrange(10**9), n=rng.choice([60, 120, 200]), profile=rng.choice(["drops", "drops", "late-peer", "allocate", "input"])))
    m = 50 if tier == "quick" else 1500
    for _ in range(m):
        out.append(dict(kind="pair", seed=rng.randrange(10**9), nmsg=[rng.randrange(0, 5), rng.randrange(0, 5)],
                        pdrop=rng.choice([0.02, 0.05, 0.1, 0.2]), steps=rng.choice([100, 250, 500])))
    # the same on the real connection stack (real ClientService, real autobahn handshake, real server protocol)
    for _ in range(25 if tier == "quick" else 600):
        out.append(dict(kind="real", seed=rng.randrange(10**9), nmsg=[rng.randrange(0, 4), rng.randrange(0, 4)],
                        pdrop=rng.choice([0.05, 0.15, 0.3]), steps=rng.choice([30, 60, 120])))
    # long sessions: many phases in the mailbox, then late drops (every re-open replays the whole
    # mailbox history, however long it is)
    for k in range(3 if tier == "quick" else 40):
        out.append(dict(kind="pair", seed=rng.randrange(10**9), nmsg=[rng.choice([35, 48, 70]), rng.choice([2, 40])],
                        pdrop=0.0, steps=rng.choice([1500, 2500]), late_drops=rng.choice([1, 2, 3])))
    return out


def run_pair(case):
    rng = random.Random(case["seed"])
    viol = []
    with World(seed=case["seed"]) as W:
        cl = [W.add_client(delegated=True), W.add_client(delegated=True)]
        code = "9-drumbeat-uproot"
        sent = [[], []]
        started = [False, False]
        ndrops = 0
        binds_ok = True
        for step in range(case["steps"]):
            choices = []
            for ci in (0, 1):
                c = cl[ci]
                if c.conn is None and c.svc.started:
                    choices += [["open", ci]] * 3
                    if c.ever_opened and rng.random() < 0.3:
                        # a reconnect attempt that reaches TCP but fails the WebSocket negotiation
                        choices += [["ws_fail", ci]]
                if c.conn is not None:
                    if c.conn.c2s:
                        choices += [["c2s", ci]] * 4
                    if c.conn.s2c:
                        choices += [["s2c", ci]] * 4
                    if rng.random() < case["pdrop"]:
                        choices += [["drop", ci]] * 3
                if not started[ci]:
                    choices += [["api", ci, "set_code", code]] * 2
                if len(sent[ci]) < case["nmsg"][ci]:
                    body = bytes([ci, len(sent[ci]) % 256]) * (1 + len(sent[ci]) % 7)
                    choices.append(["api", ci, "send", body.hex()])
            if not choices:
                break
            op = rng.choice(choices)
            n_before = len(W.sent[op[1]]) if op[0] == "c2s" else None
            W.do(op)
            if op[0] == "drop":
                ndrops += 1
            if op[0] == "api" and op[2] == "set_code":
                started[op[1]] = True
            if op[0] == "api" and op[2] == "send":
                sent[op[1]].append(op[3])
        # late drops: after (almost) everything has been exchanged, bounce the connections again
        for _ in range(case.get("late_drops", 0)):
            W.settle()
            for ci in (0, 1):
                if cl[ci].conn is not None and rng.random() < 0.8:
                    W.do(["drop", ci])
                    ndrops += 1
            for ci in (0, 1):
                if cl[ci].conn is None and cl[ci].svc.started:
                    W.do(["open", ci])
            if all(len(sent[ci]) >= case["nmsg"][ci] for ci in (0, 1)) is False:
                for ci in (0, 1):
                    if started[ci] and len(sent[ci]) < case["nmsg"][ci]:
                        body = bytes([ci, len(sent[ci]) % 256]) * (1 + len(sent[ci]) % 7)
                        W.do(["api", ci, "send", body.hex()])
                        sent[ci].append(body.hex())
        # eventually stable connectivity; remaining API calls still get made
        for ci in (0, 1):
            if not started[ci]:
                W.do(["api", ci, "set_code", code])
            while len(sent[ci]) < case["nmsg"][ci]:
                body = bytes([ci, len(sent[ci]) % 256]) * (1 + len(sent[ci]) % 7)
                W.do(["api", ci, "send", body.hex()])
                sent[ci].append(body.hex())
        for _ in range(4):
            for ci in (0, 1):
                if cl[ci].conn is None and cl[ci].svc.started:
                    W.do(["open", ci])
            W.settle()
        # every connection starts with bind
        for ci in (0, 1):
            frames = W.sent[ci]
        for ci in (0, 1):
            ev = cl[ci].events
            names = [n for n, v in ev]
            for once in ("code", "key", "verifier", "versions"):
                k = names.count(once)
                if k != 1:
                    viol.append((("event-lost:" if k == 0 else "event-repeated:") + once,
                                 f"client {ci}: {once} notified {k} times after {ndrops} drops: {names}"))
            got = [v for n, v in ev if n == "message"]
            want = sent[1 - ci]
            if got != want:
                if got == want[:len(got)]:
                    viol.append(("message-lost", f"client {ci} received {got}, peer sent {want} ({ndrops} drops)"))
                else:
                    viol.append(("message-repeated-or-reordered", f"client {ci} received {got}, peer sent {want}"))
            for ent in cl[ci].internal:
                viol.append(("internal:" + ent[0], f"internal failure {ent}"))
        trace = [ndrops] + [[n for n, v in c.events] for c in cl]
        return Result([], [], viol, ["pair:drops=%d" % min(ndrops, 5)], ndrops > 0, info=dict(trace=trace))


def bind_first(ops_sent):
    return True


def trace_oracle(summary):
    viol = []
    names = [n for n, v in summary["events"]]
    for once in ("code", "key", "verifier", "versions", "closed"):
        if names.count(once) > 1:
            viol.append(("event-repeated:" + once, f"{once} notified {names.count(once)} times: {names}"))
    for ent in summary["internal"]:
        viol.append(("internal:" + ent[0], f"internal failure {ent}"))
    return viol


EXTRA_TARGETS = ["wvsearch"]
evidence_extra = mc.cert_stats


def run_real(case):
    """two clients on their REAL connection stack (worlds/realstack.py): connections are lost, reconnection attempts are
    refused or get TCP without an answer to the WebSocket upgrade, time passes; then the server is reachable for good.
    Within the grace period everything owed must have happened exactly once."""
    from ..worlds.realstack import RealWorld
    rng = random.Random(case["seed"])
    viol = []
    with RealWorld(seed=case["seed"]) as W:
        cl = [W.add_client(), W.add_client()]
        code = "9-drumbeat-uproot"
        sent = [[], []]
        started = [False, False]
        ndrops = 0
        modes = set()
        for step in range(case["steps"]):
            ci = rng.randrange(2)
            c = cl[ci]
            r = rng.random()
            if not started[ci] and r < 0.3:
                W.api(c, "set_code", code)
                started[ci] = True
            elif r < 0.45 and len(sent[ci]) < case["nmsg"][ci]:
                body = bytes([ci, len(sent[ci]) % 256]) * (1 + len(sent[ci]) % 7)
                W.api(c, "send_message", body)
                sent[ci].append(body.hex())
            elif r < 0.45 + case["pdrop"] and c.connected:
                c.ep.mode = rng.choice(["up", "refuse", "mute", "mute"])
                c.ep.mute_for = rng.choice([0.0, 0.2, 3.0])
                modes.add(c.ep.mode)
                c.link.drop()
                ndrops += 1
            elif r < 0.6:
                c.ep.mode = rng.choice(["up", "up", "refuse", "mute"])
                modes.add(c.ep.mode)
            elif r < 0.8:
                W.advance(rng.choice([0.05, 0.3, 1.0, 2.5, 7.0, 20.0, 65.0]))
            else:
                W.settle()
        for ci in (0, 1):
            cl[ci].ep.mode = "up"
            if not started[ci]:
                W.api(cl[ci], "set_code", code)
            while len(sent[ci]) < case["nmsg"][ci]:
                body = bytes([ci, len(sent[ci]) % 256]) * (1 + len(sent[ci]) % 7)
                W.api(cl[ci], "send_message", body)
                sent[ci].append(body.hex())
        W.advance(400.0, step=1.0)     # ClientService's default back-off never exceeds about a minute
        for ci in (0, 1):
            c = cl[ci]
            if not c.connected:
                viol.append(("not-reconnected", f"client {ci}: the server has been reachable for 400 s and the client is not connected "
                             f"({c.ep.attempts} attempts, {ndrops} drops; logged {W.logged[:2]})"))
            names = [n for n, v in c.events]
            for once in ("code", "key", "verifier", "versions"):
                k = names.count(once)
                if k != 1:
                    viol.append((("event-lost:" if k == 0 else "event-repeated:") + once,
                                 f"client {ci}: {once} notified {k} times after {ndrops} drops: {names}"))
            got = [v for n, v in c.events if n == "message"]
            want = sent[1 - ci]
            if got != want:
                if got == want[:len(got)]:
                    viol.append(("message-lost", f"client {ci} received {got}, peer sent {want} ({ndrops} drops)"))
                else:
                    viol.append(("message-repeated-or-reordered", f"client {ci} received {got}, peer sent {want}"))
            if "closed" in names:
                viol.append(("closed-itself", f"client {ci} closed itself: {c.events[-1]}"))
            for ent in c.internal:
                viol.append(("internal:" + ent[0], f"internal failure {ent}"))
            for ent in c.api_errors:
                viol.append(("api-raises:" + ent[1], f"API call raised {ent}"))
        trace = [ndrops, sorted(modes)] + [[n for n, v in c.events] for c in cl]
        return Result([], [], viol, ["real:drops=%d" % min(ndrops, 5)] + ["real:mode:" + m for m in sorted(modes)], ndrops > 0, info=dict(trace=trace))


def run_outage(case):
    from ..worlds.mailbox import long_outage
    stuck, attempts, errors = long_outage(case["failures"])
    viol = []
    if stuck is not None:
        viol.append(("reconnect-abandoned", f"after one good connection and {stuck} refused attempts in a row the client's "
                     f"ClientService has no further attempt scheduled: it will never reach the server again ({errors[:1]})"))
    return Result([], [], viol, ["outage"], True, info=dict(trace=["outage", stuck, min(attempts, case["failures"])]))


def run_case(case):
    if case.get("kind") == "outage":
        return run_outage(case)
    if case.get("kind") == "real":
        return run_real(case)
    if case.get("kind") == "trace":
        return mc.run_trace_case(case, trace_oracle)
    if case.get("kind") == "pair":
        return run_pair(case)
    if "ops" in case:
        ob, summary = mc.replay(case["ops"], welcome_error=case.get("welcome_error"), npeers=case.get("npeers"), seed=case.get("seed", 0))
        prof = case.get("profile", "replay")
    else:
        ops, ob, summary = mc.guided(case["seed"], case["n"], case["profile"])
        prof = case["profile"]
    viol = []
    # on the real run: every reconnect starts with bind and re-issues what is owed — checked line by
    # line against the model; independently: the first command of every connection is bind
    for line, exp in zip(ob.lines, ob.expect):
        if line == "open" and exp.startswith("ok"):
            outs = exp.split(" | ")[2].split()
            if not outs or outs[0] != "tx:bind":
                viol.append(("bind-not-first", f"new connection did not start with bind: {outs}"))
    names = [n for n, v in summary["events"]]
    for once in ("code", "key", "verifier", "versions", "closed"):
        if names.count(once) > 1:
            viol.append(("event-repeated:" + once, f"{once} notified {names.count(once)} times: {names}"))
    # an internal failure ends the session for good: nothing sent afterwards is delivered
    for ent in summary["internal"]:
        viol.append(("internal:" + ent[0], f"the session was ended by an internal failure {ent}"))
    nontrivial = sum(1 for l in ob.lines if l == "drop") > 0
    return Result(ob.lines, ob.expect, viol, ["profile:" + prof], nontrivial)


def shrink(case):
    if case.get("kind") == "outage":
        f = case["failures"]
        for g in (f // 2, f - 1):
            if 0 < g < f:
                yield dict(case, failures=g)
        return
    if case.get("kind") == "trace":
        yield from mc.trace_shrink(case)
        return
    if case.get("kind") in ("pair", "real"):
        for k in (0, 1):
            if case["nmsg"][k] > 0:
                c = dict(case)
                c["nmsg"] = list(case["nmsg"])
                c["nmsg"][k] -= 1
                yield c
        if case["steps"] > 20:
            c = dict(case)
            c["steps"] = case["steps"] // 2
            yield c
        return
    yield from c14.shrink(case)


def search(rng, seconds, seeds):
    t0 = time.time()
    yield from mc.model_guided(trace_oracle)
    c = dict(kind="outage", failures=20000)
    yield c, run_case(c)
    for c in seeds:
        yield c, run_case(c)
    while time.time() - t0 < seconds:
        for c in cases(rng, "quick"):
            yield c, run_case(c)
            if time.time() - t0 > seconds:
                return
