"""C18, component OBSERVER — the Deferred façade's observers.

Drives a REAL `wormhole.wormhole._DeferredWormhole` (constructed directly on a `task.Clock`, a real
`EventualQueue` and a stub boss) with interleavings of get_*()/close() calls, got_*/received/closed
callbacks and eventual-queue turns, and records every Deferred firing.

  obs_cases(rng, tier) -> cases  {"kind": "obs", "ops": [[...], ...]}
  run_obs_case(case)   -> core.Result(..., info={"model": "OBSERVER"})

Operation lines (= what the Lean driver `WV.Observer.driver` executes):
  call <kind> [<kind> ...]    get_welcome/get_code/get_unverified_key/get_verifier/get_versions/
                              get_message/close; further kinds = API calls made by the application
                              from inside the new Deferred's callback (re-entrancy during a turn)
  got <ev> <n> | received <n> | closed ok <n> | closed exc <n> | turn
One reactor iteration (`turn`) runs the delayed calls that are due when it starts — i.e. what a real
reactor does with `callLater(0, …)`; `task.Clock.advance(0)` itself loops until nothing is due, which
would hide the turn boundaries the eventual queue promises.
"""
import itertools

from twisted.internet import task
from twisted.python.failure import Failure

from wormhole.errors import WormholeClosed
from wormhole.eventual import EventualQueue
from wormhole.wormhole import _DeferredWormhole

from ..core import Result
from .. import LOGGED

MODEL = "OBSERVER"
ONESHOT = ["welcome", "code", "key", "verifier", "versions"]
KINDS = ONESHOT + ["message", "close"]
GETTER = {"welcome": "get_welcome", "code": "get_code", "key": "get_unverified_key", "verifier": "get_verifier",
          "versions": "get_versions", "message": "get_message", "close": "close"}
GOT = {"welcome": "got_welcome", "code": "got_code", "key": "got_key", "verifier": "got_verifier",
       "versions": "got_versions"}


class StepClock(task.Clock):
    """task.Clock whose `turn()` is one reactor iteration at the current time: the calls that are due
    when the iteration starts run; calls they add (even with delay 0) wait for the next iteration."""

    def turn(self):
        due = [c for c in self.calls if c.getTime() <= self.seconds()]
        for c in due:
            if c in self.calls:
                self.calls.remove(c)
                c.called = 1
                c.func(*c.args, **c.kw)
        return bool(due)


class StubBoss:
    def __init__(self):
        self.closes = 0

    def close(self):
        self.closes += 1


def val_of(n, ok_result=False):
    if ok_result:
        return "happy" if n == 0 else "r%d" % n
    return "v%d" % n


def tok(x):
    """canonical token of what a Deferred fired with"""
    if isinstance(x, Failure):
        if isinstance(x.value, WormholeClosed):
            a = x.value.args[0] if x.value.args else None
            return "eb:WC" + (str(num(a)) if isinstance(a, str) else "?")
        m = str(x.value)
        if m.startswith("e") and m[1:].isdigit():
            return "eb:E" + m[1:]
        return "eb:" + type(x.value).__name__
    if isinstance(x, str):
        n = num(x)
        if n is not None:
            return "cb:v%d" % n
    return "cb:?" + repr(x)[:30]


def num(s):
    if s == "happy":
        return 0
    if isinstance(s, str) and s[:1] in "vr" and s[1:].isdigit():
        return int(s[1:])
    return None


def line_of(op):
    return " ".join(str(x) for x in op)


class Run:
    """the real object plus the record of everything observed"""

    def __init__(self):
        self.clock = StepClock()
        self.eq = EventualQueue(self.clock)
        self.boss = StubBoss()
        self.w = _DeferredWormhole(self.clock, self.eq)
        self.w._set_boss(self.boss)
        self.defs = []       # per Deferred: dict(kind, made=(op index, sub index), fires=[(op index, sub, token)])
        self.opi = -1
        self.sub = 0         # number of firings seen so far in the current op (position inside a turn)
        self.now = []        # tokens fired during the current op

    def api(self, kind, react):
        i = len(self.defs)
        rec = dict(kind=kind, made=(self.opi, self.sub), fires=[])
        self.defs.append(rec)
        d = getattr(self.w, GETTER[kind])()

        def fired(res):
            self.sub += 1
            rec["fires"].append((self.opi, self.sub, tok(res)))
            self.now.append("d%d:%s" % (i, tok(res)))
            for k in react:
                self.api(k, [])
            return None
        d.addBoth(fired)
        return i

    def do(self, op):
        self.opi += 1
        self.sub = 0
        self.now = []
        q = lambda: "q%d" % len(self.eq._calls)
        k = op[0]
        if k == "call":
            c0 = self.boss.closes
            i = self.api(op[1], list(op[2:]))
            return "d%d %s" % (i, q()) + (" boss_close" if self.boss.closes != c0 else "")
        if k == "got":
            getattr(self.w, GOT[op[1]])(val_of(op[2]))
            return q()
        if k == "received":
            self.w.received(val_of(op[1]))
            return q()
        if k == "closed":
            if op[1] == "ok":
                self.w.closed(val_of(op[2], ok_result=True))
            else:
                self.w.closed(RuntimeError("e%d" % op[2]))
            return q()
        if k == "turn":
            n0 = len(LOGGED)
            ran = self.clock.turn()
            if not ran:
                return "idle"
            out = list(self.now)
            # an exception inside a scheduled call is swallowed by _turn (log.err): a Deferred fired a
            # second time shows up only there
            for ev in LOGGED[n0:]:
                f = ev.get("log_failure") or ev.get("failure")
                out.append("logged:" + (type(f.value).__name__ if f is not None else "error"))
            return " ".join(out + [q()])
        raise ValueError(op)



# ---------------------------------------------------------------------------
# the oracle: the five statements, computed from the operation list alone and compared with what the
# real object did

def oracle(ops, run, logged_dups):
    viol = []
    defs = run.defs
    first_closed = next((i for i, op in enumerate(ops) if op[0] == "closed"), None)
    turns = [i for i, op in enumerate(ops) if op[0] == "turn"]

    def before_closed(pos):
        return first_closed is None or pos[0] < first_closed

    # (2) each Deferred fires at most once
    for i, r in enumerate(defs):
        if len(r["fires"]) > 1:
            viol.append(("fired-twice:" + r["kind"], f"Deferred d{i} ({GETTER[r['kind']]}) fired {len(r['fires'])} times: {r['fires']}"))
    if logged_dups:
        viol.append(("fired-twice:AlreadyCalledError", f"a Deferred was fired a second time (AlreadyCalledError logged by the eventual queue) x{logged_dups}"))

    # expected outcome of every Deferred: (cause position, token) or None (stays outstanding)
    expect = {}
    got_first = {}
    for i, op in enumerate(ops):
        if op[0] == "got" and op[1] not in got_first:
            got_first[op[1]] = (i, op[2])
    closed_tok = None
    if first_closed is not None:
        c = ops[first_closed]
        closed_tok = ("eb:WC%d" % c[2]) if c[1] == "ok" else ("eb:E%d" % c[2])
    for k in ONESHOT:
        g = got_first.get(k)
        for i, r in enumerate(defs):
            if r["kind"] != k:
                continue
            if g is not None and before_closed((g[0], 0)) and before_closed(r["made"]):
                expect[i] = (max((g[0], 0), r["made"]), "cb:v%d" % g[1], "oneshot")
            elif first_closed is not None:
                expect[i] = (max((first_closed, 0), r["made"]), "eb", "closed")
            else:
                expect[i] = None
    # (4) the j-th get_message() before closed gets the j-th value received before closed
    gets = [i for i, r in enumerate(defs) if r["kind"] == "message"]
    gets_pre = [i for i in gets if before_closed(defs[i]["made"])]
    recv_pre = [(i, op[1]) for i, op in enumerate(ops) if op[0] == "received" and before_closed((i, 0))]
    for j, i in enumerate(gets_pre):
        if j < len(recv_pre):
            expect[i] = (max((recv_pre[j][0], 0), defs[i]["made"]), "cb:v%d" % recv_pre[j][1], "fifo")
        elif first_closed is not None:
            expect[i] = ((first_closed, 0), "eb", "closed")
        else:
            expect[i] = None
    for i in gets:
        if i not in gets_pre:
            expect[i] = (defs[i]["made"], "eb", "closed")
    # close(): fires once closed happened (with the result or the error), never before
    for i, r in enumerate(defs):
        if r["kind"] == "close":
            expect[i] = None if first_closed is None else (max((first_closed, 0), r["made"]), "any", "close")

    order = []   # (cause position, fire position) of everything that fired
    for i, r in enumerate(defs):
        e = expect[i]
        name = GETTER[r["kind"]]
        if e is None:
            if r["fires"]:
                viol.append(("fired-without-cause:" + r["kind"], f"d{i} {name}() fired {r['fires'][0][2]} although neither its event nor closed happened"))
            continue
        cause, want, why = e
        due = next((t for t in turns if t > cause[0]), None)   # the first turn after the cause
        if not r["fires"]:
            if due is not None:
                if why == "closed":
                    viol.append(("after-closed-hangs:" + r["kind"], f"d{i} {name}() never fired although closed was processed at op {first_closed} and a turn ran at op {due}"))
                elif why == "oneshot":
                    viol.append(("oneshot-missing:" + r["kind"], f"d{i} {name}() did not fire in the turn at op {due} after its event"))
                elif why == "fifo":
                    viol.append(("fifo-missing", f"d{i} get_message() did not receive {want} in the turn at op {due}"))
                else:
                    viol.append(("close-hangs", f"d{i} close() did not fire in the turn at op {due} after closed"))
            continue
        at, sub, token = r["fires"][0]
        if why == "closed" and not token.startswith("eb:"):
            viol.append(("after-closed-value:" + r["kind"], f"d{i} {name}() outstanding at / issued after closed (op {first_closed}) got a value {token} instead of an error"))
        elif why == "closed" and first_closed is not None and cause[0] == first_closed and token != closed_tok:
            viol.append(("after-closed-wrong-error:" + r["kind"], f"d{i} {name}() failed with {token}, closed gave {closed_tok}"))
        elif why == "oneshot" and token != want:
            viol.append(("oneshot-wrong-value:" + r["kind"], f"d{i} {name}() got {token}, the event's first value was {want}"))
        elif why == "fifo" and token != want:
            viol.append(("fifo-wrong-value", f"d{i} get_message() got {token}, expected {want} (received values in order, each once)"))
        # (5) runs in a later turn than the one it was scheduled in, and in the first such turn
        if at <= cause[0]:
            viol.append(("eventual-same-turn", f"d{i} {name}() fired at op {at}, in the same operation/turn that scheduled it (op {cause[0]})"))
        elif due is not None and at != due:
            viol.append(("eventual-late", f"d{i} {name}() scheduled at op {cause[0]} fired at op {at}, not in the next turn (op {due})"))
        order.append((cause, (at, sub), i))
    # (5) callbacks run in the order scheduled
    byfire = sorted(order, key=lambda x: x[1])
    for a, b in zip(byfire, byfire[1:]):
        if a[1][0] == b[1][0] and a[0] > b[0]:
            viol.append(("eventual-order", f"d{b[2]} (scheduled at {b[0]}) ran after d{a[2]} (scheduled at {a[0]}) in the turn at op {a[1][0]}"))
            break
    return viol


def run_obs_case(case):
    ops = case["ops"]
    n0 = len(LOGGED)
    run = Run()
    lines, expect = [], []
    for op in ops:
        lines.append(line_of(op))
        expect.append(run.do(op))
    dups = 0
    for ev in LOGGED[n0:]:
        f = ev.get("log_failure") or ev.get("failure")
        if f is not None and type(f.value).__name__ == "AlreadyCalledError":
            dups += 1
    viol = oracle(ops, run, dups)
    for ev in LOGGED[n0:]:
        f = ev.get("log_failure") or ev.get("failure")
        name = type(f.value).__name__ if f is not None else "error"
        if name != "AlreadyCalledError":
            viol.append(("internal:" + name, f"exception inside an eventual-queue turn: {name}"))
    tags = ["obs:" + case.get("stream", "replay")]
    closed = any(op[0] == "closed" for op in ops)
    if closed:
        tags.append("obs:closed-" + next(op[1] for op in ops if op[0] == "closed"))
    if any(len(op) > 2 and op[0] == "call" for op in ops):
        tags.append("obs:reentrant")
    nontrivial = any(r["fires"] for r in run.defs)
    return Result(lines, expect, viol, tags, nontrivial, info=dict(model=MODEL))


# ---------------------------------------------------------------------------
# cases

T = ["turn"]
CORPUS = [
    # get_message() after closed while results are still queued: `_error` is looked at first
    [["received", 1], ["received", 2], ["closed", "ok", 0], ["call", "message"], T, T],
    # a one-shot that already delivered a value is overwritten by closed
    [["got", "code", 1], ["call", "code"], T, ["closed", "ok", 0], ["call", "code"], T],
    # fire_if_not_fired keeps the first value
    [["got", "code", 1], ["got", "code", 2], ["call", "code"], T, ["call", "code"], T],
    [["call", "verifier"], ["got", "verifier", 5], ["got", "verifier", 6], T, ["call", "verifier"], T],
    # every observer outstanding, then closed (happy / with an exception)
    [["call", k] for k in KINDS] + [["closed", "ok", 0], T, T],
    [["call", k] for k in KINDS] + [["closed", "exc", 3], T, T],
    # every event delivered, closed, then every get again
    [["got", k, i + 1] for i, k in enumerate(ONESHOT)] + [["received", 9]] + [["call", k] for k in KINDS]
    + [T, ["closed", "ok", 0]] + [["call", k] for k in KINDS] + [T, T],
    # message FIFO: gets first, values first, alternating
    [["call", "message"], ["call", "message"], ["received", 1], ["received", 2], ["received", 3], ["call", "message"],
     ["call", "message"], T, ["received", 4], T],
    # re-entrancy: the callback asks for the next message / for the code again -> next turn
    [["call", "message", "message", "code"], ["got", "code", 4], ["received", 1], ["received", 2], T, T, T],
    [["call", "code", "code", "code"], ["got", "code", 4], T, T, T],
    # close() before and after closed; closed twice; events after closed
    [["call", "close"], ["closed", "ok", 0], ["call", "close"], T, ["closed", "exc", 2], ["call", "close"], T],
    [["closed", "exc", 1], ["closed", "ok", 0], ["got", "code", 1], ["received", 1], ["call", "code"], ["call", "message"],
     ["call", "close"], T, T],
    # scheduled but not yet run when closed arrives: keeps its value
    [["call", "code"], ["got", "code", 1], ["call", "message"], ["received", 2], ["closed", "ok", 0], T, T],
    [T, ["call", "welcome"], T, ["got", "welcome", 1], T, T],
]


def lifecycle(rng):
    """mostly-valid stream: events in the order the Boss produces them, get_*() at random moments"""
    ev = [["got", "welcome", 1], ["got", "code", 2], ["got", "key", 3], ["got", "verifier", 4], ["got", "versions", 5]]
    nmsg = rng.randrange(0, 5)
    ev += [["received", 10 + i] for i in range(nmsg)]
    cut = rng.randrange(0, len(ev) + 1) if rng.random() < 0.4 else len(ev)
    ev = ev[:cut]
    if rng.random() < 0.85:
        ev.append(["closed", "ok", 0] if rng.random() < 0.6 else ["closed", "exc", rng.randrange(1, 4)])
    ops = []
    for e in ev:
        for _ in range(rng.choice([0, 0, 1, 1, 2, 3])):
            ops.append(rand_call(rng))
        if rng.random() < 0.5:
            ops.append(T)
        ops.append(e)
    for _ in range(rng.randrange(0, 6)):
        ops.append(rand_call(rng) if rng.random() < 0.7 else T)
    return ops + [T, T, T]


def rand_call(rng):
    k = rng.choice(KINDS + ["message", "message", "code"])
    react = []
    if rng.random() < 0.25:
        react = [rng.choice(KINDS + ["message"]) for _ in range(rng.choice([1, 1, 2]))]
    return ["call", k] + react


def adversarial(rng, n):
    ops = []
    for _ in range(n):
        x = rng.random()
        if x < 0.35:
            ops.append(rand_call(rng))
        elif x < 0.55:
            ops.append(["got", rng.choice(ONESHOT), rng.randrange(1, 6)])
        elif x < 0.72:
            ops.append(["received", rng.randrange(1, 9)])
        elif x < 0.78:
            ops.append(["closed", "ok", rng.choice([0, 0, 7])] if rng.random() < 0.5 else ["closed", "exc", rng.randrange(1, 4)])
        else:
            ops.append(T)
    return ops + [T, T, T]


def exhaustive(maxlen):
    """small-scope enumeration over a 9-letter alphabet"""
    alpha = [["call", "code"], ["call", "message"], ["call", "message", "message"], ["call", "close"], ["got", "code", 1],
             ["got", "code", 2], ["received", 3], ["closed", "ok", 0], T]
    for n in range(1, maxlen + 1):
        for seq in itertools.product(alpha, repeat=n):
            if not any(op[0] == "call" for op in seq):
                continue
            yield list(seq) + [T, T]


def obs_cases(rng, tier):
    out = [dict(kind="obs", stream="corpus", ops=[list(o) for o in ops] + [T, T]) for ops in CORPUS]
    n = 150 if tier == "quick" else 4000
    for _ in range(n):
        out.append(dict(kind="obs", stream="lifecycle", ops=lifecycle(rng)))
    for _ in range(n):
        out.append(dict(kind="obs", stream="adversarial", ops=adversarial(rng, rng.choice([4, 8, 16, 30]))))
    for ops in exhaustive(3 if tier == "quick" else 5):
        out.append(dict(kind="obs", stream="exhaustive", ops=ops))
    return out


def shrink_obs(case):
    ops = case["ops"]
    for i in range(len(ops)):
        c = dict(case)
        c["ops"] = ops[:i] + ops[i + 1:]
        yield c
    for i, op in enumerate(ops):
        if op[0] == "call" and len(op) > 2:
            c = dict(case)
            c["ops"] = ops[:i] + [op[:2]] + ops[i + 1:]
            yield c
