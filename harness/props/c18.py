"""C18 — application events arrive once each and in causal order.
Same closed-system model as C14 (CLIENT); the oracle looks at what BOTH API styles hand to the
application: the delegated client's callbacks and the Deferred client's get_*() results."""
import json
import random
import time

from ..core import Result
from .. import core
from .. import mailbox_corr as mc
from . import c14
from . import c18_observer
from ..worlds.mailbox import World

ID = "C18"
MODEL = "CLIENT"
PROP_MODULES = ["WV.Props.ClientSkel", "WV.Props.C18", "WV.Props.C18obs"]
# translation validation of the control machines' method bodies against WV.Client (tools/extract.py::extract_pyir ->
# WV/Gen/PyIR.lean; agents/deepPyIR2_integration.md): part of the check as soon as the modules are installed
import os as _os
PROP_MODULES += ["WV.Props." + _m for _m in ("PyIR_Client", "PyIR_Client_Boss", "PyIR_Client_Glue", "PyIRRC_C14")
                 if _os.path.exists(_os.path.join(_os.path.dirname(_os.path.abspath(__file__)), "..", "..", "lean", "WV",
                                                  "Props", _m + ".lean"))]
# translation validation of the observer layer (observer.py, eventual.py, the wormhole façades) against WV.Observer
# (tools/extract.py::extract_pyir_obs -> WV/Gen/PyIRObs.lean; agents/deepObs_integration.md): part of the check as soon
# as the module is installed
if _os.path.exists(_os.path.join(_os.path.dirname(_os.path.abspath(__file__)), "..", "..", "lean", "WV", "Props",
                                 "PyIRObs_C18.lean")):
    PROP_MODULES.append("WV.Props.PyIRObs_C18")
NATIVE_DECIDE_MODULES = ["WV.Proofs.ClientCert"]
TRUSTED = c14.TRUSTED + ["Deferred chaining of Twisted (observers' callbacks run through the real EventualQueue)"]
RULE = ("(a) guided random schedules as for C14 with per-step comparison against the Lean model; (b) two-client runs "
        "(client 0 delegated, client 1 Deferred) with get_*() issued before/after each event and after closed; the "
        "oracle checks once-each, the causal order code<key<verifier<{versions,messages}<closed on both API styles, "
        "versions-before-messages when the server delivered in submission order, and that every get_* after closed "
        "fails; (c) the error path: server frames the client cannot process (handler raises -> Boss.error; frames that fail "
        "before the try; unknown types) injected at every moment of a session - before the code, lonely, established, "
        "while closing (application close and self-close), after closed, repeatedly - scripted and in random walks, on the "
        "real client in both API styles, the delegated one compared step by step with the Lean model `C18E`, both judged by "
        "the same oracle; distinct = distinct canonical traces")

ORDER = {"code": 0, "key": 1, "verifier": 2, "versions": 3, "message": 3, "closed": 5}


def check_events(events, label, fifo, unique_msgs=False):
    """events: [(name, value)] in the order the application saw them; `unique_msgs`: the peer's application never sent
    the same bytes twice in this run, so a message value notified twice is ONE event occurring twice"""
    viol = []
    seen = {}
    if unique_msgs:
        vals = [v for n, v in events if n == "message"]
        twice = sorted({str(v) for v in vals if vals.count(v) > 1})
        if twice:
            viol.append(("event-twice:message", f"{label}: the peer sent every message once; notified more than once: {twice[:4]} in {vals}"))
    names = [n for n, v in events if n != "welcome" and not n.endswith("!")]
    for i, n in enumerate(names):
        if n in ("code", "key", "verifier", "versions", "closed") and n in seen:
            viol.append(("event-twice:" + n, f"{label}: {n} notified twice: {names}"))
        seen.setdefault(n, i)
    need = {"key": ["code"], "verifier": ["key"], "versions": ["verifier"], "message": ["verifier"]}
    for n, pre in need.items():
        if n in seen:
            for p in pre:
                if p not in seen or seen[p] > seen[n]:
                    viol.append(("causal-order:" + n, f"{label}: {n} before {p}: {names}"))
    if "closed" in seen and seen["closed"] != len(names) - 1:
        viol.append(("event-after-closed", f"{label}: events after closed: {names}"))
    if fifo and "message" in seen and ("versions" not in seen or seen["versions"] > seen["message"]):
        viol.append(("message-before-versions", f"{label}: order-preserving delivery but a message came before versions: {names}"))
    return viol


def cases(rng, tier):
    n = 40 if tier == "quick" else 1000
    out = [dict(seed=3000 + i, n=70, profile=p) for i, p in enumerate(mc.PROFILES)]
    out += mc.connection_corpus() + mc.hostile_corpus()
    for _ in range(n):
        out.append(dict(seed=rng.randrange(10**9), n=rng.choice([30, 60, 120]), profile=rng.choice(mc.PROFILES)))
    m = 60 if tier == "quick" else 1500
    for _ in range(m):
        out.append(dict(kind="pair", seed=rng.randrange(10**9), fifo=rng.random() < 0.5,
                        match=rng.random() < 0.75, nmsg=rng.randrange(0, 4), drops=rng.random() < 0.4))
    # slow applications that read from inside their callbacks (the clock moves during a callback)
    for k in range(40 if tier == "quick" else 800):
        out.append(dict(kind="pair", seed=rng.randrange(10**9), fifo=True, match=True, nmsg=rng.randrange(1, 4),
                        drops=rng.random() < 0.2, slow=rng.choice([0.005, 0.03, 0.2]), eager=True))
    out += c18_observer.obs_cases(rng, tier)
    out += err_cases(rng, tier)
    # long Deferred-mode sessions: many get_message() calls on one wormhole, waiting and served from a backlog
    for nlong, pre, lag in ([(5, True, 0), (40, True, 0), (40, False, 5), (130, True, 9)] if tier == "quick" else
                            [(5, True, 0), (20, False, 0), (40, True, 0), (40, False, 5), (130, True, 9), (300, False, 40), (700, True, 3)]):
        out.append(dict(kind="longread", n=nlong, pre=pre, lag=lag, burst=3 + nlong % 3))
    return out


def run_pair(case):
    """two real clients; client 0 delegated, client 1 Deferred with get_*() at random moments"""
    import random
    rng = random.Random(case["seed"])
    viol = []
    with World(seed=case["seed"]) as W:
        a = W.add_client(delegated=True)
        b = W.add_client(delegated=False)
        # some Deferred-mode applications are slow (each callback takes `slow` seconds of clock time) and ask for
        # the next message from inside their verifier/message callbacks
        b.slow = case.get("slow", 0.0)
        b.read_in_callback = bool(case.get("eager"))
        code = "7-crossover-clockwork"
        fifo = case["fifo"]
        W.do(["open", 0]); W.do(["open", 1])
        W.do(["api", 0, "set_code", code])
        W.do(["api", 1, "set_code", code if case["match"] else "7-wrong-words"])
        sent = [0, 0]
        got_msgs = 0
        steps = 0
        closed = [False, False]
        while steps < 400:
            steps += 1
            choices = []
            for ci in (0, 1):
                c = W.clients[ci]
                if c.conn is None and c.svc.started:
                    choices.append(["open", ci])
                if c.conn is not None:
                    if c.conn.c2s:
                        choices += [["c2s", ci]] * 3
                    if c.conn.s2c:
                        choices += [["s2c", ci]] * 3
                    if case["drops"] and (rng.random() < 0.03 or (len(c.conn.c2s) >= 2 and rng.random() < 0.4)):
                        choices += [["drop", ci]] * 3
                    if not fifo and len(W.msg_frames(ci)) >= 2:
                        choices.append(["swapmsg", ci, rng.randrange(5), rng.randrange(5)])
                    if not fifo and W.msg_frames(ci) and rng.random() < 0.2:
                        choices.append(["dupmsg", ci, rng.randrange(5)])
                if W.pending_turn(ci):
                    choices += [["turn", ci]] * 2
                if c.svc.stopping is not None and not c.svc.stopping.called:
                    choices.append(["svc_stopped", ci])
                if sent[ci] < case["nmsg"] and not closed[ci]:
                    choices.append(["api", ci, "send", "%02x%02x" % (ci, sent[ci])])
            if rng.random() < 0.1 and not closed[1]:
                choices.append(["api", 1, "get_message"])
            if steps > 60 and rng.random() < 0.05:
                for ci in (0, 1):
                    if not closed[ci]:
                        choices.append(["api", ci, "close"])
            if not choices:
                break
            op = rng.choice(choices)
            W.do(op)
            if op[0] == "api" and op[2] == "send":
                sent[op[1]] += 1
            if op[0] == "api" and op[2] == "close":
                closed[op[1]] = True
        for ci in (0, 1):
            if not closed[ci]:
                W.do(["api", ci, "close"])
        for _ in range(5):
            for ci in (0, 1):
                c = W.clients[ci]
                if c.conn is None and c.svc.started:
                    W.do(["open", ci])
            W.settle()
        # close() again after everything has settled: the Deferred API must report the same verdict once more
        # ('happy' or the same documented WormholeError), the delegated API must stay silent
        DOC = ("LonelyError", "WrongPasswordError", "ServerError", "WelcomeError", "ServerConnectionError")
        first = [(n, v) for n, v in b.events if n in ("closed", "closed!")]
        try:
            b.w.close().addBoth(b._fired, "close2")
        except Exception as e:
            viol.append(("second-close-raises:" + type(e).__name__, f"Deferred-mode close() after closed raised {e!r}"))
        W.do(["api", 0, "close"])
        W.settle()
        second = [(n, v) for n, v in b.events if n in ("close2", "close2!")]
        if first:
            if not second:
                viol.append(("second-close-hangs", "a second close() after closed never fired"))
            elif (second[0][0].endswith("!"), second[0][1]) != (first[0][0].endswith("!"), first[0][1]):
                viol.append(("second-close-verdict:" + str(second[0][1]),
                             f"first close() reported {first[0]}, a second close() reported {second[0]}"))
            for n, v in first + second:
                if (n.endswith("!") and v not in DOC) or (not n.endswith("!") and v != "happy"):
                    viol.append(("verdict:" + str(v), f"close() reported {n}={v}: neither 'happy' nor a documented WormholeError"))
        # after closed: every outstanding and future get_* fails
        n0 = len(b.events)
        for name, meth in [("welcome", b.w.get_welcome), ("code", b.w.get_code), ("key", b.w.get_unverified_key),
                           ("verifier", b.w.get_verifier), ("versions", b.w.get_versions), ("message", b.w.get_message)]:
            meth().addBoth(b._fired, "late-" + name)
        W.settle()
        late = b.events[n0:]
        b_closed = any(n == "closed" or n == "closed!" for n, v in b.events[:n0])
        if b_closed:
            pending = {"late-" + x for x in ("welcome", "code", "key", "verifier", "versions", "message")}
            for n, v in late:
                if n.startswith("late-") and not n.endswith("!"):
                    # the property: after closed EVERY outstanding and future get_* fails
                    viol.append(("get-after-closed-succeeds:" + n[5:], f"get_{n[5:]}() after closed returned {str(v)[:40]}"))
                pending.discard(n.rstrip("!"))
            if pending:
                viol.append(("get-after-closed-hangs", f"get_* after closed never fired: {sorted(pending)}"))
        # with an order-preserving server the clause holds across reconnects too: un-echoed messages
        # are re-submitted in submission order, and the server replays a mailbox in arrival order
        viol += check_events(a.events, "delegated", fifo, unique_msgs=True)
        viol += check_events([(n, v) for n, v in b.events[:n0] if not n.startswith(("late-", "close2"))], "deferred", fifo,
                             unique_msgs=True)
        for c in (a, b):
            for ent in c.internal:
                viol.append(("internal:" + ent[0], f"internal failure {ent}"))
        tags = ["pair:" + ("fifo" if fifo else "reorder"), "pair:" + ("match" if case["match"] else "mismatch")]
        trace = [f"{n}" for n, v in a.events] + ["|"] + [f"{n}" for n, v in b.events]
        return Result([], [], viol, tags, True, info=dict(trace=trace))


# ---------------------------------------------------------------------------
# the error path: server frames the client cannot process
#
# RendezvousConnector.ws_message parses the frame and looks up `_response_handle_<type>` BEFORE its try; only the
# handler call is inside, and its `except Exception as e` tells the Boss (`Boss.error(e)`) and re-raises.  C18's
# statement is about every server ("at most once each ... closed last"), so such a frame may arrive at any moment of a
# session: before the code, lonely, established, while the wormhole is closing (release/close on the wire), after it has
# closed, and repeatedly.  What each frame is (`fault`) follows from the wire protocol alone:
#   handler  a known type whose required field is missing / has the wrong JSON type / is not hex
#   raw      not UTF-8, not JSON, not an object, no string `type`
#   unknown  a type the client has no handler for (logged and ignored)

def _j(d):
    return json.dumps(d).encode("utf-8")


FRAMES = {
    "message-bare": (_j({"type": "message"}), "handler"),
    "message-no-body": (_j({"type": "message", "side": "0123456789", "phase": "0"}), "handler"),
    "message-no-side": (_j({"type": "message", "phase": "0", "body": "00"}), "handler"),
    "message-phase-int": (_j({"type": "message", "side": "0123456789", "phase": 0, "body": "00"}), "ignored"),
    "message-body-nonhex": (_j({"type": "message", "side": "0123456789", "phase": "0", "body": "zz"}), "ignored"),
    "message-body-odd": (_j({"type": "message", "side": "0123456789", "phase": "0", "body": "abc"}), "ignored"),
    "message-body-int": (_j({"type": "message", "side": "0123456789", "phase": "0", "body": 7}), "ignored"),
    "message-body-nonascii": (_j({"type": "message", "side": "0123456789", "phase": "0", "body": "éé"}), "ignored"),
    "claimed-bare": (_j({"type": "claimed"}), "handler"),
    "claimed-mailbox-int": (_j({"type": "claimed", "mailbox": 5}), "handler"),
    "claimed-mailbox-null": (_j({"type": "claimed", "mailbox": None}), "handler"),
    "allocated-bare": (_j({"type": "allocated"}), "handler"),
    "allocated-nameplate-int": (_j({"type": "allocated", "nameplate": 4}), "handler"),
    "nameplates-bare": (_j({"type": "nameplates"}), "handler"),
    "nameplates-not-list": (_j({"type": "nameplates", "nameplates": {"id": "4"}}), "handler"),
    "nameplates-item-not-dict": (_j({"type": "nameplates", "nameplates": ["4"]}), "handler"),
    "nameplates-item-no-id": (_j({"type": "nameplates", "nameplates": [{"id": "4"}, {}]}), "handler"),
    "nameplates-id-int": (_j({"type": "nameplates", "nameplates": [{"id": 4}]}), "handler"),
    "error-bare": (_j({"type": "error"}), "handler"),
    "error-no-orig": (_j({"type": "error", "error": "refused"}), "handler"),
    "welcome-bare": (_j({"type": "welcome"}), "handler"),
    "welcome-int": (_j({"type": "welcome", "welcome": 5}), "handler"),
    "raw-not-utf8": (b"\xff\xfe\x00", "raw"),
    "raw-not-json": (b"hello", "raw"),
    "raw-empty": (b"", "raw"),
    "raw-list": (b"[]", "raw"),
    "raw-string": (b'"message"', "raw"),
    "raw-no-type": (_j({"side": "0123456789", "phase": "0", "body": "00"}), "raw"),
    "raw-type-int": (_j({"type": 5}), "raw"),
    "raw-type-null": (_j({"type": None}), "raw"),
    "unknown-type": (_j({"type": "pong", "pong": 1}), "unknown"),
    "unknown-empty-type": (_j({"type": ""}), "unknown"),
    "unknown-near-miss": (_j({"type": "Message", "side": "x", "phase": "0", "body": "00"}), "unknown"),
}
FAULT_OF = {payload: fault for payload, fault in FRAMES.values()}
# "ignored": a `message` frame whose side/phase are not ASCII strings or whose body is not hex — since the repair of
# RendezvousConnector._response_handle_message such a frame is dropped without telling anybody: the model's no-op frame
LINE_OF = {"handler": "badframe", "raw": "rawframe", "unknown": "unkframe", "ignored": "unkframe"}
HANDLER_FRAMES = sorted(n for n, (_, f) in FRAMES.items() if f == "handler")
OTHER_FRAMES = sorted(n for n, (_, f) in FRAMES.items() if f != "handler")

_HAVE_MODEL = None


def have_model():
    """the driver model `C18E` (lean/WV/Model/C18.lean; one dispatch line in the shared lean/Driver.lean).  Without that
    line the family still runs on the real code with its oracle, only the step-by-step comparison is skipped (and tagged)."""
    global _HAVE_MODEL
    if _HAVE_MODEL is None:
        try:
            _HAVE_MODEL = core.run_driver("C18E", ["reset"]) == ["ok"]
        except Exception:
            _HAVE_MODEL = False
    return _HAVE_MODEL


class ErrObserver(mc.Observer):
    """the mailbox-world observer plus the three kinds of unusable frame; for a Deferred-mode subject the API calls go
    through the World (which hangs the recording callbacks on the Deferreds)"""

    def classify_frame(self, payload):
        f = FAULT_OF.get(bytes(payload))
        if f is not None:
            self.faults.append((f, self.c.states()["B"]))
            return LINE_OF[f]
        return super().classify_frame(payload)

    def record(self, line, outcome):
        if line in ("badframe", "rawframe") and outcome.startswith("internal:"):
            outcome = "internal:frame"        # the frame's own KeyError / AssertionError / TypeError / binascii.Error …
        super().record(line, outcome)

    get_asked = 0
    closes = 0

    def _api(self, op):
        if not self.c.delegated and op[2] in ("close", "get_message"):
            if op[2] == "get_message":
                self.get_asked += 1
            elif self.closes:
                # a further close(): its own Deferred, recorded apart from the first one
                self.closes += 1
                try:
                    self.c.w.close().addBoth(self.c._fired, "close2")
                    return "ok"
                except Exception as e:
                    self.c.api_errors.append(("close", type(e).__name__))
                    return type(e).__name__
            else:
                self.closes = 1
            return self.W.api(self.ci, op[2], *op[3:])
        return super()._api(op)


def err_do(W, ob, op):
    """one op of an error-path case (replayable): the World's ops plus
       ["frame", c, name, at_head]   the server says FRAMES[name] to client c (next, or after what is already queued)"""
    if op[0] == "frame":
        cl = W.clients[op[1]]
        if cl.conn is None:
            return "noop"
        payload = FRAMES[op[2]][0]
        if op[3]:
            cl.conn.s2c.appendleft(payload)
        else:
            cl.conn.s2c.append(payload)
        return "ok"
    return ob.do(op)


CODE = "7-crossover-clockwork"


def _stranger_pake():
    from spake2 import SPAKE2_Symmetric
    el = SPAKE2_Symmetric(b"9-some-stranger", idSymmetric=b"x", entropy_f=lambda n: b"\x07" * n).start()
    return json.dumps({"pake_v1": el.hex()}).encode("utf-8").hex()


STRANGER_PAKE = _stranger_pake()


def err_scripts():
    """moments of a session at which the frame arrives: (name, ops before, ops after); `F` marks the frame"""
    F = "F"
    both = [["api", 0, "set_code", CODE], ["api", 1, "set_code", CODE], ["open", 0], ["open", 1], ["pump"]]
    talk = [["api", 0, "send", "00"], ["api", 1, "send", "1111"], ["pump"]]
    # close() has written release/close; the server has not seen them yet, its answers come after the frame
    out = {
        "before-code": [["open", 0], ["pump"], F, ["pump"], ["api", 0, "set_code", CODE], ["pump"]],
        "lonely": [["api", 0, "set_code", CODE], ["open", 0], ["pump"], F, ["pump"]],
        "lonely-then-peer": [["api", 0, "set_code", CODE], ["open", 0], ["pump"], F, ["pump"], ["api", 1, "set_code", CODE], ["open", 1],
                             ["pump"], ["api", 1, "send", "1111"], ["pump"]],
        "established": both + talk + [F, ["pump"], ["api", 1, "send", "2222"], ["pump"]],
        "closing": both + talk + [["api", 0, "close"], F, ["pump"], ["svc_stopped", 0], ["pump"]],
        "closing-answer-first": both + talk + [["api", 0, "close"], ["c2s", 0], ["frame", 0, None, False], ["pump"],
                                               ["svc_stopped", 0], ["pump"]],
        "closing-lonely": [["api", 0, "set_code", CODE], ["open", 0], ["pump"], ["api", 0, "close"], F, ["pump"], ["svc_stopped", 0], ["pump"]],
        "closing-before-code": [["open", 0], ["pump"], ["api", 0, "close"], F, ["pump"], ["svc_stopped", 0], ["pump"]],
        "self-closing-scared": [["api", 0, "set_code", CODE], ["open", 0], ["pump"], ["inject", 0, "7h1rd51de", "pake", STRANGER_PAKE], ["s2c", 0],
                                ["inject", 0, "7h1rd51de", "version", "00" * 60], ["s2c", 0], F, ["pump"], ["svc_stopped", 0], ["pump"]],
        "self-closing-server-error": [["api", 0, "set_code", CODE], ["open", 0], ["pump"],
                                      ["inject_frame", 0, {"type": "error", "error": "refused", "orig": {"type": "claim"}}, True], ["s2c", 0],
                                      F, ["pump"], ["svc_stopped", 0], ["pump"]],
        "closing-across-reconnect": both + talk + [["api", 0, "close"], ["drop", 0], ["open", 0], ["s2c", 0], F, ["pump"], ["svc_stopped", 0], ["pump"]],
        "twice": both + talk + [F, F, ["pump"], F, ["pump"]],
        "twice-while-closing": both + talk + [["api", 0, "close"], F, F, ["pump"], ["svc_stopped", 0], ["pump"]],
        "after-error-close()": both + talk + [F, ["pump"], ["api", 0, "close"], ["pump"], F, ["pump"], ["api", 0, "close"], ["pump"]],
        "after-error-server-error": both + [F, ["pump"], ["inject_frame", 0, {"type": "error", "error": "refused", "orig": {"type": "add"}}, False],
                                            ["pump"], F, ["pump"]],
        "after-error-reconnect": both + talk + [F, ["pump"], ["drop", 0], ["open", 0], ["pump"], F, ["pump"], ["api", 1, "send", "3333"], ["pump"]],
    }
    return out


def expand_script(ops, frame):
    out = []
    for op in ops:
        if op == "F":
            out.append(["frame", 0, frame, True])
            out.append(["s2c", 0])
        elif op[0] == "frame" and op[2] is None:
            out.append(["frame", 0, frame, op[3]])
        else:
            out.append(op)
    return out


def err_cases(rng, tier):
    out = []
    scripts = err_scripts()
    names = sorted(scripts)
    k = 0
    for mi, moment in enumerate(names):
        if tier == "quick":
            # every moment with three handler frames and one frame of the other kinds, in both API styles (rotating
            # through the corpus: every frame of the corpus is used by some moment)
            frames = [HANDLER_FRAMES[(3 * mi + j) % len(HANDLER_FRAMES)] for j in range(3)] + [OTHER_FRAMES[mi % len(OTHER_FRAMES)]]
        else:
            frames = HANDLER_FRAMES + OTHER_FRAMES
        plan = [(fr, style) for fr in frames for style in ("delegate", "deferred")]
        for fr, style in plan:
            out.append(dict(kind="err", style=style, moment=moment, frame=fr, ops=expand_script(scripts[moment], fr), seed=4000 + k))
            k += 1
    for _ in range(80 if tier == "quick" else 1200):
        out.append(dict(kind="err", style=rng.choice(["delegate", "deferred"]), seed=rng.randrange(10**9),
                        walk=dict(n=rng.choice([40, 80, 140]), when=rng.choice(["anytime", "closing", "closing", "after-error"]),
                                  match=rng.random() < 0.8, drops=rng.random() < 0.3, nbad=rng.choice([1, 1, 2, 3]))))
    return out


def err_walk(rng, W, ob, emit, walk):
    """random schedule of two clients in which the server says something unusable to client 0 at pre-drawn moments"""
    c0, c1 = W.clients
    n = walk["n"]
    emit(["open", 0]); emit(["open", 1])
    emit(["api", 0, "set_code", CODE])
    emit(["api", 1, "set_code", CODE if walk["match"] else "7-wrong-words"])
    t_close = rng.randrange(n // 4, n)
    closed = [False, False]
    sent = [0, 0]
    nbad = walk["nbad"]
    when = walk["when"]
    t_bad = (sorted(rng.randrange(2, n) for _ in range(nbad)) if when == "anytime" else
             [rng.randrange(2, n)] if when == "after-error" else [])
    armed = 0            # bad frames to deliver in the next steps (relative moments)
    did_bad = 0
    for step in range(n):
        choices = []
        for ci in (0, 1):
            c = W.clients[ci]
            if c.conn is None and c.svc.started:
                choices += [["open", ci]] * 3
            if c.conn is not None:
                if c.conn.c2s:
                    choices += [["c2s", ci]] * 3
                if mc.readable(c):
                    choices += [["s2c", ci]] * 3
                if walk["drops"] and rng.random() < 0.04:
                    choices += [["drop", ci]]
            if W.pending_turn(ci):
                choices += [["turn", ci]] * 2
            if c.svc.stopping is not None and not c.svc.stopping.called:
                choices.append(["svc_stopped", ci])
            if sent[ci] < 3 and not closed[ci]:
                choices.append(["api", ci, "send", "%02x%02x" % (ci, sent[ci])])
        if not c0.delegated and rng.random() < 0.15:
            choices.append(["api", 0, "get_message"])
        if step >= t_close and not closed[0]:
            choices += [["api", 0, "close"]] * 4
        if step > n * 0.7 and not closed[1] and rng.random() < 0.1:
            choices.append(["api", 1, "close"])
        # the unusable frame: at its drawn moment (`anytime`, and the first one of `after-error`), in the steps right after
        # close() (`closing`), in the steps after the first one (`after-error`)
        can = (c0.conn is not None and not (c0.svc.stopping is not None and not c0.svc.stopping.called)
               and not getattr(c0.conn, "closing", False))
        due = bool(t_bad and step >= t_bad[0]) or (armed > 0 and rng.random() < 0.4)
        if due and can:
            name = rng.choice(HANDLER_FRAMES) if rng.random() < 0.8 else rng.choice(OTHER_FRAMES)
            at_head = rng.random() < 0.6
            emit(["frame", 0, name, at_head])
            if at_head:
                emit(["s2c", 0])
            did_bad += 1
            if t_bad and step >= t_bad[0]:
                t_bad.pop(0)
                if when == "after-error":
                    armed += nbad
            else:
                armed -= 1
            continue
        if not choices:
            break
        op = rng.choice(choices)
        emit(op)
        if op[0] == "api" and op[2] == "send":
            sent[op[1]] += 1
        if op[0] == "api" and op[2] == "close":
            closed[op[1]] = True
            if op[1] == 0 and when == "closing":
                armed += nbad
    emit(["finish"])


def run_err(case):
    """the error path on the real client; style `delegate`: compared step by step with the Lean model C18E"""
    rng = random.Random(case["seed"])
    deleg = case["style"] == "delegate"
    ops = []
    with World(seed=case["seed"]) as W:
        mc.patch_world_internal_names(W)
        a = W.add_client(delegated=deleg)
        W.add_client(delegated=True)
        ob = ErrObserver(W, 0)
        ob.faults = []

        def emit(op):
            ops.append(op)
            return err_do(W, ob, op)

        if "ops" in case:
            for op in case["ops"]:
                emit(op)
        else:
            err_walk(rng, W, ob, emit, case["walk"])
        viol = []
        if deleg:
            viol += check_events(a.events, "delegated", False)
        else:
            viol += deferred_epilogue(W, ob, a)
        # the honest peer (delegated) next to a client whose session broke off
        viol += check_events(W.clients[1].events, "peer", False)
        tags = ["err:" + case["style"], "err:moment:" + case.get("moment", "walk:" + case.get("walk", {}).get("when", "?"))]
        for f, bstate in ob.faults:
            tags.append("err:frame:%s@%s" % (f, bstate))
        # observation, not a clause of C18 (outside C14's conformant-server quantifier): at HEAD the Terminator's late
        # `closed` is refused by a Boss that an error has already moved to S4_closed
        if any("NoTransition(Boss.S4_closed.closed)" in str(ent) for ent in a.internal):
            tags.append("err:late-closed-refused")
        trace = ["%s" % n for n, v in a.events]
        info = dict(trace=[case["style"]] + trace, ops=ops)
        if deleg and have_model():
            info["model"] = "C18E"
            return Result(ob.lines, ob.expect, viol, tags, bool(ob.faults), info=info)
        if deleg:
            tags.append("err:model-driver-missing")
        return Result([], [], viol, tags, bool(ob.faults), info=info)


def shrink_err(case):
    """a random walk becomes its recorded op list (same World seed, so it replays exactly); op lists lose one op at a time"""
    if "walk" in case:
        ops = run_err(case).info["ops"]
        yield dict(kind="err", style=case["style"], seed=case["seed"], moment="walk:" + case["walk"]["when"], ops=ops)
        return
    ops = case["ops"]
    for i in range(len(ops) - 1, -1, -1):
        c = dict(case)
        c["ops"] = ops[:i] + ops[i + 1:]
        yield c


def deferred_epilogue(W, ob, b):
    """Deferred-mode subject: what the get_*() / close() Deferreds did.  Clauses (all from C18's statement):
    the successful notifications come once each and in causal order; after the close() Deferred has fired nothing
    succeeds any more; once the wormhole has closed, every outstanding and future get_*() fails instead of hanging."""
    viol = []
    if not ob.closes:
        ob.do(["api", 0, "close"])
    ob.do(["finish"])
    W.settle()
    n0 = len(b.events)
    idx = [i for i, (n, v) in enumerate(b.events) if n in ("closed", "closed!")]
    if idx:
        for n, v in b.events[idx[0] + 1:]:
            if not n.endswith("!") and n not in ("closed", "close2"):
                viol.append(("get-after-closed-succeeds:" + n, f"{n} was delivered after the close() Deferred had fired: {[x for x, _ in b.events]}"))
        if len(idx) > 1:
            viol.append(("event-twice:closed", f"the one close() Deferred fired {len(idx)} times"))
        # every further close() reports what the first one reported
        later = [(n, v) for n, v in b.events if n in ("close2", "close2!")]
        if len(later) < ob.closes - 1:
            viol.append(("second-close-hangs", f"{ob.closes - 1} further close() after the first, {len(later)} fired"))
        for n, v in later:
            if (n.endswith("!"), v) != (b.events[idx[0]][0].endswith("!"), b.events[idx[0]][1]):
                viol.append(("second-close-verdict:" + str(v), f"first close() reported {b.events[idx[0]]}, a later close() reported {(n, v)}"))
        for name, meth in [("welcome", b.w.get_welcome), ("code", b.w.get_code), ("key", b.w.get_unverified_key),
                           ("verifier", b.w.get_verifier), ("versions", b.w.get_versions), ("message", b.w.get_message)]:
            meth().addBoth(b._fired, "late-" + name)
        W.settle()
        pending = {"late-" + x for x in ("welcome", "code", "key", "verifier", "versions", "message")}
        for n, v in b.events[n0:]:
            if n.startswith("late-") and not n.endswith("!"):
                viol.append(("get-after-closed-succeeds:" + n[5:], f"get_{n[5:]}() after closed returned {str(v)[:40]}"))
            pending.discard(n.rstrip("!"))
        if pending:
            viol.append(("get-after-closed-hangs", f"get_* after closed never fired: {sorted(pending)}"))
        # the five get_*() taken at creation and every get_message() asked for during the run have fired by now
        fired = {n.rstrip("!") for n, v in b.events[:n0]}
        for name in ("welcome", "code", "key", "verifier", "versions"):
            if name not in fired:
                viol.append(("get-outstanding-hangs:" + name, f"get_{name}() taken before closed never fired: {[x for x, _ in b.events]}"))
        got = sum(1 for n, v in b.events[:n0] if n.rstrip("!") == "message")
        if got < ob.get_asked:
            viol.append(("get-outstanding-hangs:message", f"{ob.get_asked} get_message() were asked for before closed, {got} fired"))
    viol += check_events([(n, v) for n, v in b.events[:n0] if not n.startswith("close2")], "deferred", False)
    return viol


def trace_oracle(summary):
    viol = check_events(summary["events"], "client0", False)
    for ent in summary["internal"]:
        viol.append(("internal:" + ent[0], f"internal failure {ent}"))
    return viol


def trace_oracle_fifo(summary):
    return check_events(summary["events"], "client0", True)


EXTRA_TARGETS = ["wvsearch"]
evidence_extra = mc.cert_stats


def run_longread(case):
    """A LONG Deferred-mode session, scripted: the peer sends `n` distinct messages; the application reads them with
    get_message() in a fixed pattern of reads issued BEFORE the data is there (waiting Deferreds) and reads issued AFTER
    (served from the backlog), `n` + 3 reads in all; then both close.  Every message is one event: handed to the
    application at most once, in both API styles, however long the backlog of get_message() has been running."""
    n, k = case["n"], max(1, case.get("burst", 3))
    viol = []
    with World(seed=case.get("seed", 0)) as W:
        a = W.add_client(delegated=True)
        b = W.add_client(delegated=False)
        code = "7-crossover-clockwork"
        W.do(["open", 0]); W.do(["open", 1])
        W.do(["api", 0, "set_code", code]); W.do(["api", 1, "set_code", code])
        W.settle()
        reads = 0
        for i in range(n):
            if case.get("pre") and i % (2 * k) == 0:
                for _ in range(k):              # reads that wait
                    W.do(["api", 1, "get_message"]); reads += 1
            W.do(["api", 0, "send", "%04x" % i])
            W.do(["api", 1, "send", "ee%04x" % i])
            if i % k == k - 1:
                W.settle()
                while reads < i + 1 and (not case.get("lag") or reads + case["lag"] < i + 1):
                    W.do(["api", 1, "get_message"]); reads += 1     # reads served from the backlog
                W.settle()
        W.settle()
        while reads < n + 3:
            W.do(["api", 1, "get_message"]); reads += 1
        W.settle()
        W.do(["api", 0, "close"]); W.do(["api", 1, "close"])
        W.settle()
        viol += check_events(a.events, "delegated", True, unique_msgs=True)
        viol += check_events([(nm, v) for nm, v in b.events if not nm.endswith("!")], "deferred", True, unique_msgs=True)
        got = [v for nm, v in b.events if nm == "message"]
        if len(got) > n:
            viol.append(("event-twice:message", f"deferred: the peer sent {n} messages, get_message() handed over {len(got)}"))
        for c in (a, b):
            for ent in c.internal:
                viol.append(("internal:" + ent[0], f"internal failure {ent}"))
    return Result([], [], viol, ["longread:n=%d" % n, "longread:" + ("pre" if case.get("pre") else "post")], True)


def run_case(case):
    if case.get("kind") == "longread":
        return run_longread(case)
    if case.get("kind") == "trace":
        return mc.run_trace_case(case, trace_oracle_fifo if case.get("fifo") else trace_oracle)
    if case.get("kind") == "obs":
        return c18_observer.run_obs_case(case)
    if case.get("kind") == "err":
        return run_err(case)
    if case.get("kind") == "pair":
        r = run_pair(case)
        r.expect = []
        r.lines = []
        # make the canonical trace count towards distinct_nontrivial
        r.expect = []
        return r
    if "ops" in case:
        ob, summary = mc.replay(case["ops"], welcome_error=case.get("welcome_error"), npeers=case.get("npeers"), seed=case.get("seed", 0))
        prof = case.get("profile", "replay")
    else:
        ops, ob, summary = mc.guided(case["seed"], case["n"], case["profile"])
        prof = case["profile"]
    viol = check_events(summary["events"], "client0", False)
    nontrivial = any(n in ("key", "verifier", "closed") for n, v in summary["events"])
    return Result(ob.lines, ob.expect, viol, ["profile:" + prof], nontrivial)


def shrink(case):
    if case.get("kind") == "trace":
        yield from mc.trace_shrink(case)
        return
    if case.get("kind") == "obs":
        yield from c18_observer.shrink_obs(case)
        return
    if case.get("kind") == "err":
        yield from shrink_err(case)
        return
    if case.get("kind") == "pair":
        if case["nmsg"] > 0:
            c = dict(case)
            c["nmsg"] -= 1
            yield c
        if case["drops"]:
            c = dict(case)
            c["drops"] = False
            yield c
        return
    yield from c14.shrink(case)


def search(rng, seconds, seeds):
    t0 = time.time()
    yield from mc.model_guided(trace_oracle)
    for c, r in mc.model_guided(trace_oracle_fifo, modes=("fifo",)):
        c["fifo"] = True
        yield c, r
    for c in seeds:
        yield c, run_case(c)
    while time.time() - t0 < seconds:
        for c in cases(rng, "quick"):
            yield c, run_case(c)
            if time.time() - t0 > seconds:
                return
