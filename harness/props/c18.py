"""C18 — application events arrive once each and in causal order.
Same closed-system model as C14 (CLIENT); the oracle looks at what BOTH API styles hand to the
application: the delegated client's callbacks and the Deferred client's get_*() results."""
import time

from ..core import Result
from .. import mailbox_corr as mc
from . import c14
from . import c18_observer
from ..worlds.mailbox import World

ID = "C18"
MODEL = "CLIENT"
PROP_MODULES = ["WV.Props.ClientSkel", "WV.Props.C18", "WV.Props.C18obs"]
NATIVE_DECIDE_MODULES = ["WV.Proofs.ClientCert"]
TRUSTED = c14.TRUSTED + ["Deferred chaining of Twisted (observers' callbacks run through the real EventualQueue)"]
RULE = ("(a) guided random schedules as for C14 with per-step comparison against the Lean model; (b) two-client runs "
        "(client 0 delegated, client 1 Deferred) with get_*() issued before/after each event and after closed; the "
        "oracle checks once-each, the causal order code<key<verifier<{versions,messages}<closed on both API styles, "
        "versions-before-messages when the server delivered in submission order, and that every get_* after closed "
        "fails; distinct = distinct canonical traces")

ORDER = {"code": 0, "key": 1, "verifier": 2, "versions": 3, "message": 3, "closed": 5}


def check_events(events, label, fifo):
    """events: [(name, value)] in the order the application saw them"""
    viol = []
    seen = {}
    names = [n for n, v in events if n != "welcome" and not n.endswith("!")]
    for i, n in enumerate(names):
        if n in ("code", "key", "verifier", "versions", "closed") and n in seen:
            viol.append(("event-twice:" + n, f"{label}: {n} notified twice: {names}"))
        seen.setdefault(n, i)
    need = {"key": ["code"], "verifier": ["key"], "versions": ["verifier"], "message": ["verifier"]}
    for n, pre in need.items():
        if n in seen:
            for p in pre:
                if p not in seen or seen[p] > seen[n]:
                    viol.append(("causal-order:" + n, f"{label}: {n} before {p}: {names}"))
    if "closed" in seen and seen["closed"] != len(names) - 1:
        viol.append(("event-after-closed", f"{label}: events after closed: {names}"))
    if fifo and "message" in seen and ("versions" not in seen or seen["versions"] > seen["message"]):
        viol.append(("message-before-versions", f"{label}: order-preserving delivery but a message came before versions: {names}"))
    return viol


def cases(rng, tier):
    n = 40 if tier == "quick" else 1000
    out = [dict(seed=3000 + i, n=70, profile=p) for i, p in enumerate(mc.PROFILES)]
    out += mc.connection_corpus() + mc.hostile_corpus()
    for _ in range(n):
        out.append(dict(seed=rng.randrange(10**9), n=rng.choice([30, 60, 120]), profile=rng.choice(mc.PROFILES)))
    m = 60 if tier == "quick" else 1500
    for _ in range(m):
        out.append(dict(kind="pair", seed=rng.randrange(10**9), fifo=rng.random() < 0.5,
                        match=rng.random() < 0.75, nmsg=rng.randrange(0, 4), drops=rng.random() < 0.4))
    # slow applications that read from inside their callbacks (the clock moves during a callback)
    for k in range(40 if tier == "quick" else 800):
        out.append(dict(kind="pair", seed=rng.randrange(10**9), fifo=True, match=True, nmsg=rng.randrange(1, 4),
                        drops=rng.random() < 0.2, slow=rng.choice([0.005, 0.03, 0.2]), eager=True))
    out += c18_observer.obs_cases(rng, tier)
    return out


def run_pair(case):
    """two real clients; client 0 delegated, client 1 Deferred with get_*() at random moments"""
    import random
    rng = random.Random(case["seed"])
    viol = []
    with World(seed=case["seed"]) as W:
        a = W.add_client(delegated=True)
        b = W.add_client(delegated=False)
        # some Deferred-mode applications are slow (each callback takes `slow` seconds of clock time) and ask for
        # the next message from inside their verifier/message callbacks
        b.slow = case.get("slow", 0.0)
        b.read_in_callback = bool(case.get("eager"))
        code = "7-crossover-clockwork"
        fifo = case["fifo"]
        W.do(["open", 0]); W.do(["open", 1])
        W.do(["api", 0, "set_code", code])
        W.do(["api", 1, "set_code", code if case["match"] else "7-wrong-words"])
        sent = [0, 0]
        got_msgs = 0
        steps = 0
        closed = [False, False]
        while steps < 400:
            steps += 1
            choices = []
            for ci in (0, 1):
                c = W.clients[ci]
                if c.conn is None and c.svc.started:
                    choices.append(["open", ci])
                if c.conn is not None:
                    if c.conn.c2s:
                        choices += [["c2s", ci]] * 3
                    if c.conn.s2c:
                        choices += [["s2c", ci]] * 3
                    if case["drops"] and (rng.random() < 0.03 or (len(c.conn.c2s) >= 2 and rng.random() < 0.4)):
                        choices += [["drop", ci]] * 3
                    if not fifo and len(W.msg_frames(ci)) >= 2:
                        choices.append(["swapmsg", ci, rng.randrange(5), rng.randrange(5)])
                    if not fifo and W.msg_frames(ci) and rng.random() < 0.2:
                        choices.append(["dupmsg", ci, rng.randrange(5)])
                if W.pending_turn(ci):
                    choices += [["turn", ci]] * 2
                if c.svc.stopping is not None and not c.svc.stopping.called:
                    choices.append(["svc_stopped", ci])
                if sent[ci] < case["nmsg"] and not closed[ci]:
                    choices.append(["api", ci, "send", "%02x%02x" % (ci, sent[ci])])
            if rng.random() < 0.1 and not closed[1]:
                choices.append(["api", 1, "get_message"])
            if steps > 60 and rng.random() < 0.05:
                for ci in (0, 1):
                    if not closed[ci]:
                        choices.append(["api", ci, "close"])
            if not choices:
                break
            op = rng.choice(choices)
            W.do(op)
            if op[0] == "api" and op[2] == "send":
                sent[op[1]] += 1
            if op[0] == "api" and op[2] == "close":
                closed[op[1]] = True
        for ci in (0, 1):
            if not closed[ci]:
                W.do(["api", ci, "close"])
        for _ in range(5):
            for ci in (0, 1):
                c = W.clients[ci]
                if c.conn is None and c.svc.started:
                    W.do(["open", ci])
            W.settle()
        # close() again after everything has settled: the Deferred API must report the same verdict once more
        # ('happy' or the same documented WormholeError), the delegated API must stay silent
        DOC = ("LonelyError", "WrongPasswordError", "ServerError", "WelcomeError", "ServerConnectionError")
        first = [(n, v) for n, v in b.events if n in ("closed", "closed!")]
        try:
            b.w.close().addBoth(b._fired, "close2")
        except Exception as e:
            viol.append(("second-close-raises:" + type(e).__name__, f"Deferred-mode close() after closed raised {e!r}"))
        W.do(["api", 0, "close"])
        W.settle()
        second = [(n, v) for n, v in b.events if n in ("close2", "close2!")]
        if first:
            if not second:
                viol.append(("second-close-hangs", "a second close() after closed never fired"))
            elif (second[0][0].endswith("!"), second[0][1]) != (first[0][0].endswith("!"), first[0][1]):
                viol.append(("second-close-verdict:" + str(second[0][1]),
                             f"first close() reported {first[0]}, a second close() reported {second[0]}"))
            for n, v in first + second:
                if (n.endswith("!") and v not in DOC) or (not n.endswith("!") and v != "happy"):
                    viol.append(("verdict:" + str(v), f"close() reported {n}={v}: neither 'happy' nor a documented WormholeError"))
        # after closed: every outstanding and future get_* fails
        n0 = len(b.events)
        for name, meth in [("welcome", b.w.get_welcome), ("code", b.w.get_code), ("key", b.w.get_unverified_key),
                           ("verifier", b.w.get_verifier), ("versions", b.w.get_versions), ("message", b.w.get_message)]:
            meth().addBoth(b._fired, "late-" + name)
        W.settle()
        late = b.events[n0:]
        b_closed = any(n == "closed" or n == "closed!" for n, v in b.events[:n0])
        if b_closed:
            pending = {"late-" + x for x in ("welcome", "code", "key", "verifier", "versions", "message")}
            for n, v in late:
                if n.startswith("late-") and not n.endswith("!"):
                    # the property: after closed EVERY outstanding and future get_* fails
                    viol.append(("get-after-closed-succeeds:" + n[5:], f"get_{n[5:]}() after closed returned {str(v)[:40]}"))
                pending.discard(n.rstrip("!"))
            if pending:
                viol.append(("get-after-closed-hangs", f"get_* after closed never fired: {sorted(pending)}"))
        # with an order-preserving server the clause holds across reconnects too: un-echoed messages
        # are re-submitted in submission order, and the server replays a mailbox in arrival order
        viol += check_events(a.events, "delegated", fifo)
        viol += check_events([(n, v) for n, v in b.events[:n0] if not n.startswith(("late-", "close2"))], "deferred", fifo)
        for c in (a, b):
            for ent in c.internal:
                viol.append(("internal:" + ent[0], f"internal failure {ent}"))
        tags = ["pair:" + ("fifo" if fifo else "reorder"), "pair:" + ("match" if case["match"] else "mismatch")]
        trace = [f"{n}" for n, v in a.events] + ["|"] + [f"{n}" for n, v in b.events]
        return Result([], [], viol, tags, True, info=dict(trace=trace))


def trace_oracle(summary):
    viol = check_events(summary["events"], "client0", False)
    for ent in summary["internal"]:
        viol.append(("internal:" + ent[0], f"internal failure {ent}"))
    return viol


def trace_oracle_fifo(summary):
    return check_events(summary["events"], "client0", True)


EXTRA_TARGETS = ["wvsearch"]
evidence_extra = mc.cert_stats


def run_case(case):
    if case.get("kind") == "trace":
        return mc.run_trace_case(case, trace_oracle_fifo if case.get("fifo") else trace_oracle)
    if case.get("kind") == "obs":
        return c18_observer.run_obs_case(case)
    if case.get("kind") == "pair":
        r = run_pair(case)
        r.expect = []
        r.lines = []
        # make the canonical trace count towards distinct_nontrivial
        r.expect = []
        return r
    if "ops" in case:
        ob, summary = mc.replay(case["ops"], welcome_error=case.get("welcome_error"), npeers=case.get("npeers"), seed=case.get("seed", 0))
        prof = case.get("profile", "replay")
    else:
        ops, ob, summary = mc.guided(case["seed"], case["n"], case["profile"])
        prof = case["profile"]
    viol = check_events(summary["events"], "client0", False)
    nontrivial = any(n in ("key", "verifier", "closed") for n, v in summary["events"])
    return Result(ob.lines, ob.expect, viol, ["profile:" + prof], nontrivial)


def shrink(case):
    if case.get("kind") == "trace":
        yield from mc.trace_shrink(case)
        return
    if case.get("kind") == "obs":
        yield from c18_observer.shrink_obs(case)
        return
    if case.get("kind") == "pair":
        if case["nmsg"] > 0:
            c = dict(case)
            c["nmsg"] -= 1
            yield c
        if case["drops"]:
            c = dict(case)
            c["drops"] = False
            yield c
        return
    yield from c14.shrink(case)


def search(rng, seconds, seeds):
    t0 = time.time()
    yield from mc.model_guided(trace_oracle)
    for c, r in mc.model_guided(trace_oracle_fifo, modes=("fifo",)):
        c["fifo"] = True
        yield c, r
    for c in seeds:
        yield c, run_case(c)
    while time.time() - t0 < seconds:
        for c in cases(rng, "quick"):
            yield c, run_case(c)
            if time.time() - t0 > seconds:
                return
