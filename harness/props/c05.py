"""C05 — `wormhole receive` writes only where it said it would, and never clobbers.

Pure world + sandbox file system: the real `cmd_receive.Receiver` methods (`_handle_file`,
`_handle_directory`, `_decide_destname`, `_write_file`, `_write_directory`, `_extract_file`) are
driven in a scratch tree, the same operations go through the Lean model (`WV.C05.driver`), and the
property's oracle compares a snapshot of the whole scratch tree (the working directory *and five
levels of ancestors*) before and after.

`multi` cases: sequences of 1-3 `cmd_receive.receive(cfg)` calls with ONE Config object (library embedding, GUI, retry
loop) — refused -> retry, success -> another name, file -> directory — each receive judged exactly like a single one
against the options the USER gave and the file system as it is when it starts, plus: a receive leaves the user's options
(cwd, output_file, accept_file) as the user gave them.  The model threads the args record through the same `recv_*` lines.

Every world calls an entry point (or, in the step-by-step world, a helper) and then WAITS for whatever it returned: the code
under test gets a reactor stand-in (`StepReactor`: `task.Clock` time, "threads" that run at the next turn, FIFO
`callFromThread`, fire-and-forget exceptions dropped as the real reactor drops them) and a user at the terminal (`Prompt`:
`input()` / `sys.stdin`), and the harness turns the reactor until the returned value / Deferred has settled.  So the oracle
observes the implementation whether the prompt is asked synchronously, from a thread, or a turn later; when the step-by-step
helpers are gone or reshaped, the same case goes through `Receiver.go()` instead.  `prompt_corpus`: the interactive receiver
(prompt answered y / Y / Enter / n) x what is at the destination x the output option x names that resolve to a directory the
user already has, end to end through `receive()` / the click Config / `go()`.
"""
import builtins
import contextlib
import errno
import hashlib
import io
import itertools
import os
import shutil
import socket
import stat
import sys
import tempfile
import warnings
import zipfile
from unittest import mock

from twisted.internet import defer, task
from twisted.python.failure import Failure

from wormhole.cli import cmd_receive
from wormhole.timing import DebugTiming

from ..core import Result

ID = "C05"
PROP_MODULES = ["WV.Props.C05"]
TRUSTED = [
    "CPython posixpath (basename/dirname/join/normpath/abspath): modelled line by line in Lean and compared with the "
    "real functions on every generated name, not verified",
    "zipfile.ZipFile._extract_member's own name sanitisation (zipArcname/zipTarget in the model): library code, "
    "compared on every extracted member, not verified",
    "POSIX file system semantics as seen through os.path.exists/isfile/isdir (follow symbolic links), lexists/islink, "
    "os.remove, open(…, 'wb') (follows a link), os.rename (replaces a link); symbolic links are modelled by what they "
    "finally resolve to; no concurrent modification of the tree (symlink races are outside the property)",
    "estimate_free_space: only its statvfs(dirname(dest)) failure is modelled; offered sizes are tiny",
    "WV.Gen.Recv.outlives_receive (state of the receive path that survives one receive(): writes into args, globals, class "
    "attributes, mutable defaults, module-level containers) is a syntactic scan of cli/cmd_receive.py, not an escape analysis; "
    "what it cannot see is covered by observation only (the multi-receive cases)",
    "the reactor the code under test sees is a stand-in (StepReactor): work given to a thread runs, in the harness thread, at the "
    "next turn; callFromThread calls run FIFO in that turn; an exception of a fire-and-forget call (callFromThread, callInThread, "
    "callLater) is dropped as the real reactor only logs it; real thread interleavings and a real terminal are not explored",
]
RULE = ("configuration matrix {output-file unset / new / existing file / existing dir / fifo / missing parent} x "
        "{accept-file on/off, answers y/Y/''/n} x {pre-existing destination none/file/dir, pre-existing <dest>.tmp} x "
        "{file, directory offers} x names from a grammar (components '', '.', '..', 'a', 'a b', non-ASCII, '-x', "
        "'.hidden', NUL, 300 chars; joined by '/', '//', '\\\\'; leading/trailing separators; absolute names into the "
        "sandbox) plus zip archives with hostile member names; sequences of 1-3 receive(cfg) calls with ONE Config object "
        "(refused->retry, success->other name, file->directory, failed->retry; per-receive answers; via the click entry point "
        "or a plain args object) x every output option; the interactive receiver end to end through receive()/click Config/go(): "
        "{answer y/Y/Enter/n} x {destination none/file/dir} x {-o unset/existing dir in 4 spellings/existing file/new} x {same-named "
        "sub-directory, '..', '.', 'x/.', trailing slash, empty name}, the entry point's result awaited on a thread-free reactor "
        "stand-in (sync / deferToThread / callFromThread / a later turn); thorough adds every name of <= 3 components; "
        "non-trivial = reaches a decision branch of _decide_destname/_extract_file; distinct = distinct canonical traces")

SYS_TMP = tempfile.gettempdir()          # captured before any case redirects tempfile.tempdir


def _other_filesystem():
    """a writable directory on a different file system than SYS_TMP (for "the spool is on another file system")"""
    for d in ("/dev/shm", "/run/shm", "/var/tmp"):
        try:
            if os.path.isdir(d) and os.access(d, os.W_OK) and os.stat(d).st_dev != os.stat(SYS_TMP).st_dev:
                return d
        except OSError:
            pass
    return None


OTHER_FS = _other_filesystem()

DEPTH = ["L1", "L2", "L3", "L4", "par"]
LONG = "L" * 300
COMPONENTS = ["", ".", "..", "a", "a b", "\u00e4\u540d", "-x", ".hidden", "inner.txt", "out_dir", "a.tmp", LONG, "n\x00l",
              "cafe\u0301", "caf\u00e9", "\ufb01le", "File.TXT"]
SMALL_COMPONENTS = ["", ".", "..", "a", "a b", "\u00e4", "inner.txt"]
SEPS = ["/", "/", "//", "\\"]
EDGE = ["", "", "/", "//", "\\"]
ABS_NAMES = ["{OUTER}/evil/x", "{OUTER}/L1/up", "/c05-no-such-dir/x", "{CWD}/../zz", "{CWD}/keepdir/inner.txt", "{CWD}//a"]
OUTPUTS = {
    # tag -> (relative spelling of --output-file, what the harness creates there beforehand)
    "unset": (None, None),
    "new": ("out_new", None),
    "new_abs": ("{CWD}/out_new", None),
    "new_up": ("../out_new", None),
    "new_in_dir": ("keepdir/out_new", None),
    "new_dotty": ("./keepdir/../out_new/", None),
    "new_missing_parent": ("nodir/out_new", None),
    "new_under_file": ("keep.txt/out_new", None),
    "file": ("out_file", "file"),
    "file_abs": ("{CWD}/out_file", "file"),
    "dir": ("out_dir", "dir"),
    "dir_slash": ("out_dir/", "dir"),
    "dir_abs": ("{CWD}/./out_dir", "dir"),
    "dir_up": ("../pardir", "dir"),
    "fifo": ("out_fifo", "fifo"),
}
MATRIX_OUTPUTS = ["unset", "new", "file", "dir"]
PERMS = [0o644, 0o600, 0o777, 0o000, 0o4755, 0o120777, 0o040755]


def hx(s):
    b = s.encode("utf8")
    return b.hex() if b else "-"


# ---------------------------------------------------------------------------
# generators

def gen_name(rng, comps=COMPONENTS, maxlen=4):
    if rng.random() < 0.08:
        return rng.choice(ABS_NAMES)
    n = rng.choice([1, 1, 2, 2, 3, maxlen])
    parts = [rng.choice(comps) for _ in range(n)]
    if sum(1 for p in parts if p == "..") > 5:
        parts = parts[:5]
    s = parts[0]
    for p in parts[1:]:
        s += rng.choice(SEPS) + p
    return rng.choice(EDGE) + s + rng.choice(EDGE)


def gen_members(rng):
    k = rng.choice([0, 1, 1, 2, 3, 5])
    out = []
    for _ in range(k):
        nm = gen_name(rng, [c for c in COMPONENTS if "\x00" not in c])
        if rng.random() < 0.3:
            nm = rng.choice(["inner.txt", "sub/inner.txt", "sub/", "inner.lnk", "sub.lnk/inner.txt", "inner.sock", "../{DESTBASE}-plus/haha", "../keep.txt", "../../sibling.txt",
                             "{DEST}/x", "{DEST}", "{DEST}-plus/haha", "a/../../keep.txt", "./a", "a//b", "C:\\x", "C:/x"])
        out.append([nm, rng.choice(PERMS)])
    return out


def recv_case(rng, name=None, output=None, accept=None, pre=None, mode=None, level=None):
    mode = mode or rng.choice(["file", "dir"])
    c = dict(kind="recv", mode=mode,
             name=gen_name(rng) if name is None else name,
             output=output or rng.choice(list(OUTPUTS) + ["unset"] * 6 + ["dir"] * 3 + ["file"] * 2),
             accept=rng.random() < 0.6 if accept is None else accept,
             answer=rng.choice(["y", "Y", "", "yes", "n", "no", "x", " y"]),
             pre=pre or rng.choice(["none", "none", "none", "file", "file", "dir", "dir", "fifo", "socket", "chardev"]),
             pretmp="none",
             zipmode=rng.choice(["zipfile/deflated"] * 8 + ["zipfile", "tarball", ""]),
             level=level or rng.choice(["full", "full", "full", "decide"]))
    if mode == "dir":
        c["members"] = gen_members(rng)
        if rng.random() < 0.35:
            c["zipdecl"] = rng.choice([9_999_999, 10_000_000, 10_000_001, 50_000_000, 2**31, 2**40])
    if rng.random() < 0.3:
        c["presib"] = rng.sample([".zip", ".part", ".download", ".tar", "~", ".bak"], rng.choice([1, 2, 3]))
    if name is None and rng.random() < 0.15:
        c["link"] = rand_link(rng)
    if name is None and rng.random() < 0.05:
        c["pretmp"] = "socket"
    elif name is None and rng.random() < 0.08:
        c["pretmp"] = "file"
    c["fs"] = "cross" if rng.random() < 0.25 else "same"
    return c


LINK_TO = ["dangling", "dangling", "file", "dir", "inside_file", "inside_dangling", "chain_dangling", "chain_file", "chain_dir"]


def rand_link(rng):
    return dict(where=rng.choice(["dest", "dest", "tmp", "tmp", "dest+tmp"]), to=rng.choice(LINK_TO), abs=rng.random() < 0.3)


def link_corpus(rng):
    """symbolic links at the destination name / the staging name, with and without --output-file (existing directory)"""
    out = []
    # the witnesses of existing_entry_refused_fails_on_current / staging_is_own_file_fails_on_current
    for where, to in (("dest", "dangling"), ("tmp", "file"), ("tmp", "dangling")):
        c = recv_case(rng, name="latest.log", output="unset", accept=True, pre="none", mode="file", level="full")
        c["link"] = dict(where=where, to=to, abs=False)
        out.append(c)
    for where, to, o, md, acc, ab in itertools.product(["dest", "tmp", "dest+tmp"], ["dangling", "file", "dir", "inside_file", "chain_dangling", "chain_file"],
                                                       ["unset", "dir", "dir_slash"], ["file", "dir"], [True, False], [False, True]):
        if ab and to not in ("dangling", "file"):
            continue
        mk = go_case if (acc and md == "dir") or (not acc and md == "file") else recv_case
        c = mk(rng, name="latest.log", output=o, accept=acc, pre="none", mode=md) if mk is go_case else \
            recv_case(rng, name="latest.log", output=o, accept=acc, pre="none", mode=md, level="full")
        c.update(answer="y", zipmode="zipfile/deflated", link=dict(where=where, to=to, abs=ab))
        if "fault" in c:
            c["fault"] = "none"
        if md == "dir":
            c["members"] = [["inner.txt", 0o600], ["inner.lnk", 0o644], ["sub.lnk/inner.txt", 0o600], ["sub/x", 0o644]]
        out.append(c)
    return out


def refusal_corpus(rng):
    """offers that are REFUSED (at the prompt, by _decide_destname, by the directory check behind the prompt) while the
    user has files at every name a staging file could get"""
    out = []
    worlds = itertools.cycle(["recv", "go", "go", "recv", "recv"])
    for nm, o, ans, pretmp, md in itertools.product(["a", "a/", "x/..", "keepdir", "sub/a"], ["unset", "dir", "file"],
                                                    ["n", "y", ""], ["file", "none"], ["file", "dir"]):
        world = next(worlds)
        if md == "dir" and pretmp == "none":
            continue
        pre = "dir" if nm in ("a", "sub/a") and ans != "n" else "none"
        c = recv_case(rng, name=nm, output=o, accept=False, pre=pre, mode=md, level="full") if world == "recv" else \
            go_case(rng, name=nm, output=o, accept=False, pre=pre, mode=md)
        c.update(answer=ans, pretmp=pretmp, zipmode="zipfile/deflated", fs="same")
        if "fault" in c:
            c["fault"] = "none"
        if md == "dir":
            c["members"] = [["inner.txt", 0o600], ["sub/x", 0o644]]
        out.append(c)
    return out


def special_corpus(rng):
    """special nodes (named pipe, unix socket, device) at the destination name / the staging name, and the spool
    directory on another file system than the working directory"""
    out = []
    for pre, o, md, acc, world in itertools.product(["fifo", "socket", "chardev"], ["unset", "dir", "dir_slash"], ["file", "dir"],
                                                    [True, False], ["recv", "go"]):
        c = recv_case(rng, name="a", output=o, accept=acc, pre=pre, mode=md, level="full") if world == "recv" else \
            go_case(rng, name="a", output=o, accept=acc, pre=pre, mode=md)
        c.update(answer="y", zipmode="zipfile/deflated", fs="same")
        if "fault" in c:
            c["fault"] = "none"
        if md == "dir":
            c["members"] = [["inner.txt", 0o600], ["inner.sock", 0o644], ["sub/x", 0o644]]
        out.append(c)
    for o, acc in itertools.product(["unset", "dir"], [True, False]):
        c = recv_case(rng, name="a", output=o, accept=acc, pre="none", mode="file", level="full")
        c.update(answer="y", pretmp="socket", fs="same")
        out.append(c)
    # $TMPDIR on another file system, crossed with what may sit at the destination name
    for link, pre, o, acc, world in itertools.product([None, "dangling", "file", "chain_dangling"], ["none", "file"], ["unset", "dir", "file", "new"],
                                                      [True, False], ["recv", "go"]):
        if link and pre != "none":
            continue
        c = recv_case(rng, name="latest.log", output=o, accept=acc, pre=pre, mode="file", level="full") if world == "recv" else \
            go_case(rng, name="latest.log", output=o, accept=acc, pre=pre, mode="file")
        c.update(answer="y", fs="cross")
        if "fault" in c:
            c["fault"] = "none"
        if link:
            c["link"] = dict(where="dest", to=link, abs=False)
        out.append(c)
    return out


def go_case(rng, **kw):
    """a whole `Receiver.go()` run (welcome, code, key, transit message, offer, transfer, write) against a scripted
    sender; `fault`: what goes wrong after the offer was accepted"""
    c = recv_case(rng, **kw)
    c["kind"] = "go"
    c["level"] = "go"
    c["fault"] = rng.choice(["none", "none", "none", "dropped", "dropped", "badzip"])
    return c


def entry_case(rng, **kw):
    """`wormhole receive` through the real click entry point, in a process whose $PWD is not its working directory"""
    pwd = kw.pop("pwd", None)
    c = go_case(rng, **kw)
    c["kind"] = "entry"
    c["pwd"] = pwd or rng.choice(PWD_MODES)
    c["elsewhere"] = rng.choice(["file", "file", "dir", "none"])
    c["output"] = kw.get("output") or rng.choice(["unset", "unset", "unset", "new", "file", "dir", "dir_slash", "new_up", "new_abs", "dir_abs"])
    return c


def entry_corpus(rng):
    out = []
    for pwd in ["other", "other_slash", "unset", "relative", "nonexistent", "same", "file", "empty"]:
        for nm, o, acc, pre, md in [("a", "unset", True, "none", "file"), ("a", "unset", True, "none", "dir"),
                                    ("a", "unset", False, "file", "file"), ("../a", "unset", True, "dir", "dir"),
                                    ("a", "new", True, "none", "file"), ("a", "dir", True, "file", "file"),
                                    ("a", "file", False, "none", "dir"), ("x/..", "unset", True, "none", "file")]:
            c = entry_case(rng, name=nm, output=o, accept=acc, pre=pre, mode=md, pwd=pwd)
            c.update(answer="y", fault="none", zipmode="zipfile/deflated", elsewhere="file")
            if md == "dir":
                c["members"] = [["inner.txt", 0o600], ["sub/x", 0o644]]
            out.append(c)
    return out


def go_corpus(rng):
    out = []
    # refusal at the prompt / by _decide_destname / failure mid-way, on destinations that are existing directories
    for nm, o, md, ans, fault in itertools.product(["a", "a/", "x/..", "x/.", "sub/a"], ["dir", "dir_slash", "dir_up", "unset"],
                                                   ["file", "dir"], ["n", "", "y"], ["none", "dropped"]):
        c = go_case(rng, name=nm, output=o, accept=False, pre="dir", mode=md)
        c.update(answer=ans, fault=fault, zipmode="zipfile/deflated")
        if md == "dir":
            c["members"] = [["inner.txt", 0o600], ["sub/x", 0o644]]
        out.append(c)
    # the configuration matrix, every failure kind
    answers = itertools.cycle(["y", "n", "", "Y", "no"])
    faults = itertools.cycle(["none", "dropped", "none", "badzip", "dropped"])
    for nm, o, acc, pre, md in itertools.product(["a", "../a", "..", "x/"], MATRIX_OUTPUTS, [True, False],
                                                 ["none", "file", "dir"], ["file", "dir"]):
        c = go_case(rng, name=nm, output=o, accept=acc, pre=pre, mode=md)
        c.update(answer=next(answers), fault=next(faults), zipmode="zipfile/deflated")
        if md == "dir":
            c["members"] = [["inner.txt", 0o600], ["../keep.txt", 0o600], ["sub/x", 0o644]] if c["fault"] == "none" and nm == "a" \
                else [["inner.txt", 0o600], ["sub/x", 0o644]]
        out.append(c)
    return out


# ---------------------------------------------------------------------------
# sequences of receives with one Config object

MULTI_MEMBERS = [["inner.txt", 0o600], ["sub/x", 0o644]]


def mstep(mode, name, answer="y", pre="none", pretmp="none", fault="none", members=None, **kw):
    st = dict(mode=mode, name=name, answer=answer, pre=pre, pretmp=pretmp, fault=fault, zipmode="zipfile/deflated")
    if mode == "dir":
        st["members"] = MULTI_MEMBERS if members is None else members
    st.update(kw)
    return st


def multi_corpus():
    """hand-picked histories (no random choice): refused -> retry, success -> another name, file -> directory,
    with and without something already sitting at the later offer's name; every output option; both ways to get a Config"""
    F, D = "file", "dir"
    seqs = [
        # refused (the user's own notes.txt is there), then a retry / another offer with the same Config
        [mstep(F, "notes.txt", pre="file"), mstep(F, "../../somewhere/else.txt")],
        [mstep(F, "notes.txt", pre="file"), mstep(F, "notes.txt")],
        [mstep(F, "notes.txt", pre="file"), mstep(D, "x/photos")],
        [mstep(D, "photos", pre="dir"), mstep(F, "else.txt"), mstep(D, "photos/")],
        # success, then a second offer under another name; with and without something at that name
        [mstep(F, "first.txt"), mstep(F, "second.txt")],
        [mstep(F, "first.txt"), mstep(F, "second.txt", pre="file")],
        [mstep(F, "first.txt"), mstep(F, "sub/second.txt", pre="dir")],
        [mstep(F, "first.txt"), mstep(F, "first.txt")],
        # file -> directory, directory -> file, directory -> directory
        [mstep(F, "first.txt"), mstep(D, "photos")],
        [mstep(D, "photos"), mstep(F, "x/notes.txt")],
        [mstep(D, "photos"), mstep(F, "notes.txt", pre="file"), mstep(D, "../more")],
        [mstep(D, "photos"), mstep(D, "photos")],
        [mstep(D, "photos"), mstep(F, "inner.txt"), mstep(F, "photos")],
        # a failed transfer, then the retry
        [mstep(F, "a", fault="dropped"), mstep(F, "b")],
        [mstep(D, "a", fault="dropped"), mstep(D, "a")],
        [mstep(D, "a", fault="badzip"), mstep(F, "b", pre="file")],
        # the prompt is answered per receive
        [mstep(F, "first.txt", answer="y"), mstep(F, "second.txt", answer="n"), mstep(F, "third.txt", answer="")],
        [mstep(F, "first.txt", answer="n"), mstep(F, "second.txt", answer="y")],
        [mstep(F, "first.txt", answer="n"), mstep(D, "second", answer="y", pre="dir")],
        # degenerate names in the history
        [mstep(F, ".."), mstep(F, "a")],
        [mstep(D, "x/."), mstep(F, ""), mstep(F, "a", pre="file")],
    ]
    out = []
    vias = itertools.cycle([("entry", "other"), ("args", None), ("entry", "same"), ("args", None), ("entry", "unset")])
    for i, sq in enumerate(seqs):
        for o in MATRIX_OUTPUTS:
            for acc in ([True, False] if i % 2 == 0 or o == "unset" else [True]):
                via, pwd = next(vias)
                c = dict(kind="multi", via=via, output=o, accept=acc, fs="same", steps=[dict(x) for x in sq])
                if pwd:
                    c["pwd"] = pwd
                out.append(c)
    return out


PROMPT_MEMBERS = [["inner.txt", 0o600], ["keep.txt", 0o600], ["extra.txt", 0o644], ["sub/x", 0o644], ["out_dir/inner.txt", 0o600],
                  ["photos/inner.txt", 0o600]]


def prompt_corpus():
    """the interactive receiver (--accept-file OFF, the prompt really answered: y / Y / just Enter / n) x what is at the
    destination when the offer arrives (nothing / a file / a directory) x the output option (unset, an existing directory in
    four spellings, an existing file, a new name) x names that resolve, inside an existing -o directory, to a directory the
    user already has: a same-named sub-directory, `..` (the working directory), `.` / `x/.` / a trailing slash / the empty
    name (the -o directory itself).  Every case goes end to end through a real entry point — `cmd_receive.receive(cfg)`
    with a plain args object or with the Config the click group builds, or `Receiver.go()` — with archives whose members
    are named like what those directories already hold.  No random choice."""
    out = []
    legal = [("photos", p) for p in ("none", "file", "dir")] + [("sub/photos", p) for p in ("dir", "file")]
    odd = [(n, "none") for n in ("photos/", "..", ".", "x/.", "x/..", "", "/", "photos/..")]
    answers = itertools.cycle(["y", "", "Y", "y", "", "n"])
    vias = itertools.cycle([("args", None), ("entry", "other"), ("go", None), ("args", None), ("entry", "same")])
    for o in ["dir", "dir_slash", "dir_abs", "dir_up", "unset", "file", "new"]:
        for nm, pre in legal + odd:
            for md in ("file", "dir"):
                for k in range(2):
                    ans = next(answers)
                    via, pwd = next(vias)
                    if via == "go":
                        c = dict(kind="go", level="go", mode=md, name=nm, output=o, accept=False, answer=ans, pre=pre, pretmp="none",
                                 zipmode="zipfile/deflated", fault="none", fs="same")
                        if md == "dir":
                            c["members"] = [list(m) for m in PROMPT_MEMBERS]
                    else:
                        st = mstep(md, nm, answer=ans, pre=pre, members=[list(m) for m in PROMPT_MEMBERS] if md == "dir" else None)
                        c = dict(kind="multi", via=via, output=o, accept=False, fs="same", steps=[st])
                        if pwd:
                            c["pwd"] = pwd
                    out.append(c)
    return out


MULTI_NAMES = ["a", "b", "a", "notes.txt", "x/a", "../b", "a/", "..", "", ".", "sub/inner.txt", "out_dir", "out_new", "out_file",
               "keepdir", "keep.txt", "a.tmp", "{CWD}/keepdir/inner.txt", "{OUTER}/evil/x", "a b", "ä名", "File.TXT", "-x"]


def multi_case(rng):
    n = rng.choice([2, 2, 2, 3, 3, 1])
    steps = []
    for _ in range(n):
        nm = rng.choice(MULTI_NAMES) if rng.random() < 0.7 else gen_name(rng, [c for c in COMPONENTS if os_clean(c)])
        if not os_clean(nm):
            nm = "a"
        st = mstep(rng.choice(["file", "file", "dir"]), nm, answer=rng.choice(["y", "y", "", "Y", "n", "no"]),
                   pre=rng.choice(["none", "none", "none", "file", "file", "dir", "socket"]),
                   pretmp=rng.choice(["none"] * 9 + ["file"]),
                   fault=rng.choice(["none", "none", "none", "none", "dropped", "badzip"]))
        if st["mode"] == "dir":
            st["members"] = [m for m in gen_members(rng) if os_clean(m[0])][:3]
        if rng.random() < 0.06:
            st["link"] = rand_link(rng)
        steps.append(st)
    via = rng.choice(["entry", "args"])
    c = dict(kind="multi", via=via, output=rng.choice(["unset"] * 6 + ["dir"] * 3 + ["file"] * 2 + ["new"] * 2 + list(OUTPUTS)),
             accept=rng.random() < 0.6, fs="cross" if rng.random() < 0.1 else "same", steps=steps)
    if via == "entry":
        c["pwd"] = rng.choice(["other", "other", "same", "unset", "relative"])
    return c


def cases(rng, tier):
    out = []
    # --- corpus -------------------------------------------------------------------------------
    # the witness of the Lean theorem `staging_never_clobbers_fails_on_current`
    out.append(dict(kind="recv", mode="file", name="x/../foo", output="unset", accept=True, answer="y", pre="none",
                    pretmp="file", zipmode="zipfile/deflated", level="full"))
    out.append(dict(kind="recv", mode="file", name="foo", output="unset", accept=True, answer="y", pre="none",
                    pretmp="dir", zipmode="zipfile/deflated", level="full"))
    # the two historical regressions (NEWS 0.23 / 0.24) and the zip-slip family
    for nm in ["../../evil.txt", "/{OUTER}/evil/x", "..", "", ".", "a/", "a/..", "~/.ssh/authorized_keys", "..\\a", "inner.txt"]:
        for o in ["unset", "dir", "dir_slash"]:
            for md in ["file", "dir"]:
                c = recv_case(rng, name=nm, output=o, accept=True, pre="none", mode=md, level="full")
                out.append(c)
    # the full configuration matrix on a few names
    for nm, o, acc, pre, md in itertools.product(["a", "../a", "sub/inner.txt", "..", "x/"], MATRIX_OUTPUTS,
                                                 [True, False], ["none", "file", "dir"], ["file", "dir"]):
        c = recv_case(rng, name=nm, output=o, accept=acc, pre=pre, mode=md, level="full")
        c["answer"] = "y"
        if md == "dir":
            c["members"] = [["inner.txt", 0o600], ["sub/x", 0o644]]
        out.append(c)
    for o in OUTPUTS:
        for md in ["file", "dir"]:
            out.append(recv_case(rng, name="a", output=o, accept=True, pre="none", mode=md, level="full"))
            out.append(recv_case(rng, name="a", output=o, accept=False, pre="file", mode=md, level="full"))
    out.append(dict(kind="zip", members=[["ok", 0o644], ["../{DESTBASE}-plus/haha", 0o600], ["/etc/passwd", 0o644], ["../haha", 0o600],
                                         ["haha//root", 0o5], ["../keep.txt", 0o600], ["{DEST}/x", 0o600], ["a/../b", 0o600],
                                         ["sub/", 0o700], ["sub/f", 0], ["", 0o600], [".", 0o600], ["..", 0o600]]))
    # symlink-mode members (body = link text): a chain of links each of which is lexically inside the destination
    out.append(dict(kind="zip", members=[["x/y/l1", 0o120777, ".."], ["x/y/l1/l2", 0o120777, ".."], ["x/y/l1/l2/l3", 0o120777, ".."], ["x/y/l1/l2/l3/keep.txt", 0o644], ["x/y/l1/l2/l3/l4", 0o120777, ".."], ["x/y/l1/l2/l3/l4/sibling.txt", 0o600], ["lnk", 0o120777, "../keep.txt"], ["lnk2", 0o120777, "/etc/hostname"]]))
    for acc in (True, False):
        c = recv_case(rng, name="a", output="unset", accept=acc, pre="none", mode="dir", level="full")
        c.update(answer="y", zipmode="zipfile/deflated", members=[["x/y/l1", 0o120777, ".."], ["x/y/l1/l2", 0o120777, ".."], ["x/y/l1/l2/l3", 0o120777, ".."], ["x/y/l1/l2/l3/keep.txt", 0o644], ["x/y/l1/l2/l3/l4", 0o120777, ".."], ["x/y/l1/l2/l3/l4/sibling.txt", 0o600], ["lnk", 0o120777, "../keep.txt"], ["lnk2", 0o120777, "/etc/hostname"]])
        out.append(c)
    out.append(dict(kind="path", names=["", "/", "//", "///", "//a", "///a", "a//b/", "../..", "/..", "//..", "a/./../..",
                                        "a/b/../../..", ".", "./", "a\\b/c", "\u00e4/../x", "/a/", "//a/..", "a/" + LONG]))
    out.extend(go_corpus(rng))
    out.extend(entry_corpus(rng))
    out.extend(link_corpus(rng))
    out.extend(special_corpus(rng))
    out.extend(refusal_corpus(rng))
    out.extend(multi_corpus())
    out.extend(prompt_corpus())
    # --- generated ----------------------------------------------------------------------------
    n = 1 if tier == "quick" else 25
    for _ in range(450 * n):
        out.append(recv_case(rng))
    for _ in range(250 * n):
        out.append(go_case(rng))
    for _ in range(120 * n):
        out.append(entry_case(rng))
    for _ in range(60 * n):
        out.append(dict(kind="zip", members=gen_members(rng) + gen_members(rng)))
    for _ in range(40 * n):
        out.append(dict(kind="path", names=[gen_name(rng, maxlen=6) for _ in range(6)]))
    multi = [multi_case(rng) for _ in range(200 * (1 if tier == "quick" else 12))]   # (drawn last: the streams above are unchanged)
    if tier == "thorough":
        # every name of <= 3 components, one random configuration each
        for k in (1, 2, 3):
            for parts in itertools.product(SMALL_COMPONENTS, repeat=k):
                for sep in ("/", "//", "\\"):
                    if k == 1 and sep != "/":
                        continue
                    for lead, trail in (("", ""), ("/", ""), ("", "/")):
                        nm = lead + sep.join(parts) + trail
                        out.append(recv_case(rng, name=nm, output=rng.choice(["unset", "unset", "dir", "dir_slash", "file", "new"])))
    out.extend(multi)
    return out


# ---------------------------------------------------------------------------
# sandbox

class Sandbox:
    def __init__(self, cross=False):
        """`cross`: the working directory tree lives on another file system than the spool directory ($TMPDIR); where the
        machine has no second file system, os.rename between the two roots is made to fail with EXDEV instead"""
        self.cross = cross
        self.real_cross = bool(cross and OTHER_FS)
        self.outer = os.path.realpath(tempfile.mkdtemp(prefix="c05-", dir=OTHER_FS if self.real_cross else SYS_TMP))
        # second top-level root: what tempfile.gettempdir() / $TMPDIR is while the code under test runs
        self.spool = os.path.realpath(tempfile.mkdtemp(prefix="c05-spool-", dir=SYS_TMP))
        try:
            self._populate()
        except BaseException:
            self.cleanup()      # never leave a half-built sandbox behind
            raise

    def _populate(self):
        p = self.outer
        for d in DEPTH:
            p = os.path.join(p, d)
            os.mkdir(p)
            self.put_file(os.path.join(p, "sibling.txt"), b"sibling of " + d.encode())
        self.par = p
        self.cwd = os.path.join(p, "cwd")
        os.mkdir(self.cwd)
        os.mkdir(os.path.join(self.outer, "evil"))
        self.put_file(os.path.join(self.cwd, "keep.txt"), b"keep me")
        os.mkdir(os.path.join(self.cwd, "keepdir"))
        self.put_file(os.path.join(self.cwd, "keepdir", "inner.txt"), b"keep me too")
        # unrelated files of the user named like a directory plus ".tmp" (a staging name computed from a destination
        # that resolved to a directory — the cwd, its parent, an existing sub-directory — lands on these)
        for d in (self.cwd, self.par, os.path.join(self.cwd, "keepdir")):
            self.put_file(d + ".tmp", b"unrelated: " + os.path.basename(d).encode() + b".tmp")
        # what the user's symbolic links point to: a directory OUTSIDE the working directory (inside the snapshot)
        self.vault = os.path.join(self.outer, "vault")
        os.mkdir(self.vault)
        self.put_file(os.path.join(self.vault, "victim.txt"), b"victim outside the working directory")
        os.mkdir(os.path.join(self.vault, "vdir"))
        self.put_file(os.path.join(self.vault, "vdir", "inner.txt"), b"victim in a directory outside")

    @staticmethod
    def put_file(path, data, mode=0o644):
        with open(path, "wb") as f:
            f.write(data)
        os.chmod(path, mode)

    @staticmethod
    def put_special(path, what):
        """a special node: exists, neither regular file nor directory.  Returns what was made."""
        if what == "socket":
            try:
                sk = socket.socket(socket.AF_UNIX, socket.SOCK_STREAM)
                try:
                    sk.bind(path)
                finally:
                    sk.close()
                return "socket"
            except (OSError, ValueError):   # path too long for sun_path, …
                if os.path.lexists(path):
                    return "socket"
                what = "fifo" if not path.endswith(".tmp") else "none"
        if what == "chardev":
            try:
                os.mknod(path, stat.S_IFCHR | 0o600, os.makedev(1, 3))
                return "chardev"
            except OSError:
                what = "fifo"
        if what == "fifo":
            os.mkfifo(path)
            return "fifo"
        return "none"

    def put_dir(self, path):
        os.mkdir(path)
        self.put_file(os.path.join(path, "inner.txt"), b"precious inner")
        self.put_special(os.path.join(path, "inner.fifo"), "fifo")
        self.put_special(os.path.join(path, "inner.sock"), "socket")
        os.symlink(os.path.join(self.vault, "victim.txt"), os.path.join(path, "inner.lnk"))
        os.symlink(os.path.join(self.vault, "vdir"), os.path.join(path, "sub.lnk"))

    def subst(self, s, dest=None):
        s = s.replace("{OUTER}", self.outer).replace("{CWD}", self.cwd)
        if dest is not None:
            s = s.replace("{DESTBASE}", os.path.basename(dest)).replace("{DEST}", dest)
        return s

    def snapshot(self):
        snap = {}
        for root, dirs, files in itertools.chain(os.walk(self.outer), os.walk(self.spool)):
            for nm in dirs + files:
                p = os.path.join(root, nm)
                st = os.lstat(p)
                if stat.S_ISLNK(st.st_mode):
                    snap[p] = ("l", os.readlink(p), None)
                elif stat.S_ISDIR(st.st_mode):
                    snap[p] = ("d", stat.S_IMODE(st.st_mode), None)
                elif stat.S_ISREG(st.st_mode):
                    try:
                        with open(p, "rb") as f:
                            h = hashlib.sha256(f.read()).hexdigest()[:16]
                    except OSError:
                        h = "unreadable"
                    snap[p] = ("f", stat.S_IMODE(st.st_mode), h)
                else:
                    snap[p] = ("o", stat.S_IMODE(st.st_mode), None)
        snap[self.outer] = ("d", None, None)
        snap[self.spool] = ("d", None, None)
        return snap

    @contextlib.contextmanager
    def spooling(self):
        """while the code under test runs: $TMPDIR / tempfile.gettempdir() is the spool root"""
        old_td, had, old_env = tempfile.tempdir, "TMPDIR" in os.environ, os.environ.get("TMPDIR")
        tempfile.tempdir = self.spool
        os.environ["TMPDIR"] = self.spool
        patches = []
        if self.cross and not self.real_cross:
            real_rename, a, b = os.rename, self.outer + os.sep, self.spool + os.sep

            def rename(src, dst, *args, **kw):
                s_, d_ = os.path.abspath(os.fspath(src)), os.path.abspath(os.fspath(dst))
                if (s_.startswith(a) and d_.startswith(b)) or (s_.startswith(b) and d_.startswith(a)):
                    raise OSError(errno.EXDEV, "Invalid cross-device link", os.fspath(src), None, os.fspath(dst))
                return real_rename(src, dst, *args, **kw)
            patches.append(mock.patch.object(os, "rename", rename))
        try:
            with contextlib.ExitStack() as st:
                for p_ in patches:
                    st.enter_context(p_)
                yield
        finally:
            tempfile.tempdir = old_td
            if had:
                os.environ["TMPDIR"] = old_env
            else:
                os.environ.pop("TMPDIR", None)

    def cleanup(self):
        for root, dirs, files in os.walk(self.outer):
            for d in dirs:
                if os.path.islink(os.path.join(root, d)):
                    continue
                try:
                    os.chmod(os.path.join(root, d), 0o700)
                except OSError:
                    pass
        shutil.rmtree(self.outer, ignore_errors=True)
        shutil.rmtree(self.spool, ignore_errors=True)


def kind_of(p):
    """the entry as os.lstat sees it: - f d o, or l? for a symbolic link that finally resolves to ? (l- = dangling)"""
    try:
        st = os.lstat(p)
    except (OSError, ValueError):
        return "-"
    if stat.S_ISLNK(st.st_mode):
        try:
            t = os.stat(p)
        except (OSError, ValueError):
            return "l-"
        return "l" + ("d" if stat.S_ISDIR(t.st_mode) else "f" if stat.S_ISREG(t.st_mode) else "o")
    if stat.S_ISDIR(st.st_mode):
        return "d"
    if stat.S_ISREG(st.st_mode):
        return "f"
    return "o"


def canon_exc(e):
    if isinstance(e, cmd_receive.TransferRejectedError):
        return "TransferRejectedError"
    if isinstance(e, cmd_receive.RespondError):
        return "RespondError"
    if isinstance(e, OSError):
        return "OSError"
    return type(e).__name__


def os_clean(path):
    """can the operating system store this name at all? (no NUL, no over-long component)"""
    return "\x00" not in path and all(len(c.encode("utf8")) <= 250 for c in path.split("/"))


class Args:
    pass


def make_args(sb, output_file, accept):
    a = Args()
    a.relay_url = ""
    a.cwd = sb.cwd
    a.output_file = output_file
    a.accept_file = accept
    a.stdout = io.StringIO()
    a.stderr = io.StringIO()
    a.timing = DebugTiming()
    a.hide_progress = True
    a.tor = False
    a.verify = False
    return a


def build_zip(members):
    buf = io.BytesIO()
    with warnings.catch_warnings():
        warnings.simplefilter("ignore")
        with zipfile.ZipFile(buf, "w", zipfile.ZIP_DEFLATED) as zf:
            for i, mem in enumerate(members):
                nm, perm = mem[0], mem[1]
                zi = zipfile.ZipInfo(filename=nm)
                zi.create_system = 3
                zi.external_attr = (perm & 0xFFFF) << 16
                body = mem[2].encode("utf8") if len(mem) > 2 else (b"" if nm.endswith("/") else b"member %d" % i)
                zf.writestr(zi, body)
    return buf.getvalue()


# ---------------------------------------------------------------------------
# the environment the code under test runs in, whatever its internal call structure: a reactor without threads, and a
# user at the terminal.  The harness calls an entry point, then lets this reactor turn until whatever the entry point
# returned (a value, a fired Deferred, a Deferred that needs further turns) has settled.

class StepReactor(task.Clock):
    """Deterministic, thread-free stand-in for the reactor.  Time is `task.Clock`'s.  Work handed to "a thread"
    (`deferToThread`, `callInThread`, the thread pool) is queued and run — in this thread — at the next turn; what that
    work hands back with `callFromThread` is queued FIFO and run by "the reactor thread" in the same turn, the result of
    `deferToThread` behind it (as with the real pool).  As in the real reactor, an exception raised by a `callFromThread`
    / `callInThread` call is only logged: it reaches no caller and no Deferred (kept in `dropped`)."""
    running = True

    def __init__(self):
        super().__init__()
        self.thread_jobs = []
        self.from_thread = []
        self.dropped = []
        self.used = set()
        self._pool = _StepPool(self)

    # IReactorFromThreads
    def callFromThread(self, f, *a, **kw):
        self.used.add("callFromThread")
        self.from_thread.append((f, a, kw))

    # IReactorInThreads / IReactorThreads
    def callInThread(self, f, *a, **kw):
        self._pool.callInThread(f, *a, **kw)

    def getThreadPool(self):
        return self._pool

    def suggestThreadPoolSize(self, size):
        pass

    # the bits of IReactorCore a command may touch
    def callWhenRunning(self, f, *a, **kw):
        self.from_thread.append((f, a, kw))

    def addSystemEventTrigger(self, *a, **kw):
        return object()

    def removeSystemEventTrigger(self, trigger):
        pass

    def stop(self):
        pass

    def blockingCallFromThread(self, _reactor, f, *a, **kw):
        """threads.blockingCallFromThread: the "thread" waits for the reactor to run f (and for its Deferred)"""
        self.used.add("blockingCallFromThread")
        out = []
        defer.maybeDeferred(f, *a, **kw).addBoth(out.append)
        self.pump(lambda: bool(out))
        if not out:
            raise RuntimeError("blockingCallFromThread: the call never finished")
        if isinstance(out[0], Failure):
            out[0].raiseException()
        return out[0]

    def turn(self):
        """one turn of the loop; returns whether anything ran"""
        ran = False
        jobs, self.thread_jobs = self.thread_jobs, []
        for on_result, f, a, kw in jobs:
            ran = True
            try:
                ok, res = True, f(*a, **kw)
            except Exception:
                ok, res = False, Failure()
            if on_result is not None:
                on_result(ok, res)
            elif not ok:
                self.dropped.append(res.value)
        calls, self.from_thread = self.from_thread, []
        for f, a, kw in calls:
            ran = True
            try:
                f(*a, **kw)
            except Exception as e:          # the real reactor: log.err(), go on
                self.dropped.append(e)
        now = self.seconds()
        if any(c.getTime() <= now for c in self.getDelayedCalls()):
            self._advance(0)
            ran = True
        return ran

    def _advance(self, amount):
        """Clock.advance, but an exception raised by a timer is only logged, as in the real reactor (the timers behind it
        stay queued for the next turn)"""
        try:
            self.advance(amount)
        except Exception as e:
            self.dropped.append(e)

    def pump(self, done, turns=400):
        """turn until `done()`; when nothing is runnable, let time pass up to the next timer.  False: it never settled."""
        for _ in range(turns):
            if done():
                return True
            if not self.turn():
                pending = self.getDelayedCalls()
                if not pending:
                    return bool(done())
                self._advance(max(0.0, min(c.getTime() for c in pending) - self.seconds()))
        return bool(done())

    @contextlib.contextmanager
    def installed(self):
        """code that reaches for the global reactor (`from twisted.internet import reactor`, `deferToThread`) instead of the
        one it was given gets this one's threads / timers too.  Nothing of the global reactor is started or left changed."""
        from twisted.internet import reactor as global_reactor
        from twisted.internet import threads
        with contextlib.ExitStack() as st:
            for nm in ("callFromThread", "callInThread", "getThreadPool", "suggestThreadPoolSize", "callLater", "seconds",
                       "callWhenRunning"):
                st.enter_context(mock.patch.object(global_reactor, nm, getattr(self, nm), create=True))
            st.enter_context(mock.patch.object(threads, "blockingCallFromThread", self.blockingCallFromThread))
            if hasattr(cmd_receive, "blockingCallFromThread"):
                st.enter_context(mock.patch.object(cmd_receive, "blockingCallFromThread", self.blockingCallFromThread))
            yield self

    def settle(self, x, what="the call"):
        """whatever the code under test returned — a plain value or a Deferred — as a value (or the exception, raised)"""
        if not isinstance(x, defer.Deferred):
            return x
        out = []
        x.addBoth(out.append)
        if not self.pump(lambda: bool(out)):
            raise RuntimeError(f"{what} did not finish (its Deferred never fired, nothing left to run)")
        if isinstance(out[0], Failure):
            out[0].raiseException()
        return out[0]

    def call(self, f, *a, **kw):
        """call into the code under test and wait for whatever it returns"""
        return self.settle(defer.maybeDeferred(f, *a, **kw), getattr(f, "__name__", "the call"))

    def tags(self):
        return ["reactor:" + u for u in sorted(self.used)] + \
               ["reactor:dropped-exception:" + canon_exc(e) for e in self.dropped[:1]]


class _StepPool:
    """twisted.python.threadpool.ThreadPool as far as deferToThread & co. use it"""

    def __init__(self, reactor):
        self._reactor = reactor

    def callInThread(self, f, *a, **kw):
        self.callInThreadWithCallback(None, f, *a, **kw)

    def callInThreadWithCallback(self, on_result, f, *a, **kw):
        self._reactor.used.add("thread")
        self._reactor.thread_jobs.append((on_result, f, a, kw))

    def start(self):
        pass

    def stop(self):
        pass

    def adjustPoolsize(self, *a, **kw):
        pass


class Prompt:
    """the user at the terminal: every line the code under test reads — `input()` from whichever module or thread,
    `sys.stdin.readline()` — is answered with the case's answer"""
    encoding = "utf-8"
    errors = "strict"
    closed = False

    def __init__(self, answer):
        self.answer = answer
        self.asked = 0

    def __call__(self, prompt=""):           # input(prompt)
        self.asked += 1
        return self.answer

    def readline(self, *a):                  # sys.stdin
        self.asked += 1
        return self.answer + "\n"

    def read(self, *a):
        return self.readline()

    def __iter__(self):
        return self

    def __next__(self):
        return self.readline()

    def isatty(self):
        return True

    def readable(self):
        return True

    def fileno(self):
        raise io.UnsupportedOperation("fileno")

    def flush(self):
        pass

    @contextlib.contextmanager
    def installed(self):
        with mock.patch.object(cmd_receive, "input", self, create=True), mock.patch.object(builtins, "input", self), \
                mock.patch.object(sys, "stdin", self):
            yield self

    def tags(self, before, announced, outcome):
        """which cell of {answer} x {what was at the destination when the receive started} this run was"""
        if not self.asked:
            return []
        a = self.answer
        yes = a.lower().startswith("y") or len(a) == 0
        was = (before.get(announced) or ("-",))[0] if announced is not None else "?"
        return ["prompt:asked", f"prompt:{'enter' if a == '' else ('yes' if yes else 'no')}:dest-{was}:{outcome}"]


def permission_sent(w):
    """did the receiver tell the sender to go ahead? (observed on the wire, whatever the helper is called)"""
    return any(isinstance(m, dict) and isinstance(m.get("answer"), dict) and m["answer"].get("file_ack") == "ok" for m in w.sent)


def hooked_send_permission(record):
    """context: `Receiver._send_permission` (if the class still has one) also appends to `record`"""
    real = getattr(cmd_receive.Receiver, "_send_permission", None)
    if real is None:
        return contextlib.nullcontext()

    def send_permission(self, w_):
        record.append(True)
        return real(self, w_)
    return mock.patch.object(cmd_receive.Receiver, "_send_permission", send_permission)


class Spy:
    """records zipfile.ZipFile.extract / os.chmod as called by the code under test (the originals run)"""

    def __init__(self):
        self.extracts = []   # [name, returned target | None, exception | None]
        self.chmods = []     # [path, exception | None]
        self.mutations = []  # (op, absolute path): open-for-writing in cmd_receive itself, os.remove/unlink, os.rename

    @contextlib.contextmanager
    def installed(self):
        spy = self
        real_extract = zipfile.ZipFile.extract
        real_chmod = os.chmod
        real_remove, real_unlink, real_rename, real_rmtree = os.remove, os.unlink, os.rename, shutil.rmtree
        import builtins
        real_open = builtins.open

        def ap(x):
            try:
                return os.path.abspath(os.fspath(x))
            except (TypeError, ValueError):
                return repr(x)

        def traced_open(file, mode="r", *a, **kw):
            if isinstance(file, (str, bytes, os.PathLike)) and any(c in mode for c in "wax+"):
                spy.mutations.append(("open:" + mode, ap(file)))
            return real_open(file, mode, *a, **kw)

        def remove(path, *a, **kw):
            spy.mutations.append(("remove", ap(path)))
            return real_remove(path, *a, **kw)

        def unlink(path, *a, **kw):
            spy.mutations.append(("remove", ap(path)))
            return real_unlink(path, *a, **kw)

        def rename(src, dst, *a, **kw):
            spy.mutations.append(("rename-from", ap(src)))
            spy.mutations.append(("rename-to", ap(dst)))
            return real_rename(src, dst, *a, **kw)

        def rmtree(path, *a, **kw):
            spy.mutations.append(("rmtree", ap(path)))
            return real_rmtree(path, *a, **kw)

        def extract(zf, member, path=None, pwd=None):
            rec = [member, None, None]
            spy.extracts.append(rec)
            try:
                rec[1] = real_extract(zf, member, path, pwd)
                return rec[1]
            except Exception as e:
                rec[2] = e
                raise

        def chmod(path, mode, *a, **kw):
            rec = [path, None]
            spy.chmods.append(rec)
            try:
                return real_chmod(path, mode, *a, **kw)
            except Exception as e:
                rec[1] = e
                raise

        with mock.patch.object(zipfile.ZipFile, "extract", extract), mock.patch.object(os, "chmod", chmod), \
                mock.patch.object(cmd_receive, "open", traced_open, create=True), \
                mock.patch.object(os, "remove", remove), mock.patch.object(os, "unlink", unlink), \
                mock.patch.object(os, "rename", rename), mock.patch.object(shutil, "rmtree", rmtree):
            yield


# ---------------------------------------------------------------------------
# the oracle: a direct statement of the property over the observed file-system change

def oracle(before, after, cwd, out_abs, out_was_dir, out_set, name, announced, succeeded, rejected, check_announced=True,
           trace=()):
    """`before`/`after`: snapshots; `out_abs`: where the harness put --output-file (normalised) or None;
    `announced`: Receiver.abs_destname if the code got as far as deciding it, else None."""
    viol = []
    seg = name.split("/")[-1]
    legal = seg not in ("", ".", "..")
    if not out_set:
        dest = cwd + "/" + seg if legal else None
    elif out_was_dir:
        dest = out_abs + "/" + seg if legal else None
    else:
        dest = out_abs
    overwrite_ok = out_set

    def below(p, d):
        return d is not None and p.startswith(d + "/")

    # where a symbolic link the user already had at the staging name finally points (for naming the finding only)
    def resolve(q):
        for _ in range(8):
            if before.get(q, ("",))[0] != "l":
                break
            q = os.path.normpath(os.path.join(os.path.dirname(q), before[q][1]))
        return q

    staged_through = None
    if dest is not None and before.get(dest + ".tmp", ("",))[0] == "l":
        staged_through = resolve(dest + ".tmp")
    dangling_dest = dest is not None and not overwrite_ok and before.get(dest, ("",))[0] == "l" and resolve(dest) not in before
    # the destination is a directory the user already has (directly, or through a symbolic link): the only thing the
    # receiver may do with the offer is refuse it — whatever the configuration, whatever the user answers at the prompt
    # (`never_removes_dir`; Lean: receive_never_onto_existing_directory, existing_directory_destination_fails_untouched)
    dest_was_dir = dest is not None and before.get(resolve(dest), ("",))[0] == "d"

    for p in sorted(set(before) | set(after)):
        b, a = before.get(p), after.get(p)
        if b == a:
            continue
        if dest_was_dir and ((b is None and (p == dest + ".tmp" or below(p, dest))) or (b is not None and p == dest + ".tmp")):
            what = "created" if b is None else ("removed" if a is None else f"changed {b} -> {a}")
            viol.append(("existing-directory-destination-not-refused",
                         f"{p!r} {what}: the destination {dest!r} of offer {name!r} is a directory the user already had, the offer "
                         f"had to be refused (and touch nothing); instead the transfer went ahead "
                         f"({'the offer was accepted' if succeeded else 'and failed only later'})"))
            continue
        if staged_through is not None and p == staged_through:
            what = "created" if b is None else ("removed" if a is None else f"changed {b} -> {a}")
            viol.append(("tmp-symlink-followed", f"{p!r} {what}: open({dest + '.tmp'!r}, 'wb') followed the symbolic link the user "
                         f"had at the staging name; the destination announced for offer {name!r} is {dest!r}"))
            continue
        if b is None:  # created
            if dest is not None and (p == dest or below(p, dest) or p == dest + ".tmp"):
                continue
            viol.append(("writes-outside-destination", f"created {p!r}; the only destination allowed for offer {name!r} is {dest!r}"))
        else:          # pre-existing path removed / replaced / modified / chmod-ed
            what = "removed" if a is None else f"changed {b} -> {a}"
            if b[0] == "d" and (a is None or a[0] != "d"):
                viol.append(("removes-directory", f"existing directory {p!r} {what}"))
            elif b[0] == "d" and a[0] == "d" and below(p, dest):
                viol.append(("clobbers-inside-existing-directory", f"existing directory {p!r} below the destination {what}"))
            elif dest is not None and p == dest + ".tmp":
                viol.append(("tmp-clobbers-existing-file", f"existing {p!r} {what}: the staging file of {dest!r} replaced a file the user already had"))
            elif dest is not None and p == dest and overwrite_ok and b[0] != "d":
                continue  # the allowed overwrite: --output-file names this file, or the existing directory containing it
            elif dangling_dest and p == dest:
                viol.append(("dangling-symlink-destination-replaced", f"existing symbolic link {p!r} -> {b[1]!r} (dangling) {what}: "
                             f"os.path.exists() is false for it, so the offer was not refused and the rename replaced the link"))
            elif dest is not None and p == dest:
                viol.append(("clobbers-existing-destination", f"existing {p!r} {what} without --output-file"))
            elif below(p, dest):
                viol.append(("clobbers-inside-existing-directory", f"existing {p!r} below the destination {what}"))
            else:
                viol.append(("modifies-outside-destination", f"existing {p!r} {what}; destination is {dest!r}"))
    if announced is not None and succeeded and check_announced:
        if announced != dest:
            viol.append(("announced-destination-not-child", f"offer {name!r}: receiver decided {announced!r}, allowed is {dest!r}"))
    if not out_set and dest is not None and dest in before and succeeded and not dangling_dest:
        viol.append(("existing-destination-not-rejected", f"{dest!r} existed and --output-file was not given, but the offer was accepted"))
    # the calls the receiver itself made (a file that is created and removed again within the run leaves no trace in the
    # snapshots): it writes, removes and renames only at the one destination it announces (and its staging name) …
    for op, p in trace:
        if not (dest is not None and (p == dest or p == dest + ".tmp" or below(p, dest))):
            viol.append(("writes-outside-destination", f"{op} {p!r}; the only destination allowed for offer {name!r} is {dest!r}"))
    # … and when it REFUSES the offer (TransferRejectedError / RespondError) it has not touched anything at all
    if rejected:
        changed = [p for p in sorted(set(before) | set(after)) if before.get(p) != after.get(p)]
        if changed or trace:
            what = (f"{changed[0]!r}: {before.get(changed[0])} -> {after.get(changed[0])}" if changed
                    else f"{trace[0][0]} {trace[0][1]!r}")
            viol.insert(0, ("refused-offer-touched-filesystem", f"offer {name!r} was refused, yet {what}"))
    return viol


# ---------------------------------------------------------------------------
# running a case on the real code

def run_path(case):
    lines, exp = [], []
    proc = os.getcwd()
    P = os.path
    for nm in case["names"]:
        for op, f in (("basename", P.basename), ("dirname", P.dirname), ("normpath", P.normpath)):
            lines.append(f"{op} {hx(nm)}")
            exp.append(hx(f(nm)))
        lines.append(f"abspath {hx(proc)} {hx(nm)}")
        exp.append(hx(P.abspath(nm)))
    for a, b in zip(case["names"], case["names"][1:] + case["names"][:1]):
        lines.append(f"join {hx(a)} {hx(b)}")
        exp.append(hx(P.join(a, b)))
    return Result(lines, exp, [], ["path"], nontrivial=True)


def register(sb, lines, exp):
    """tell the model about every path that exists in the sandbox; returns the registered list"""
    reg = []
    snap = sb.snapshot()
    for p in sorted(snap):
        if p.endswith(".hop"):
            continue   # middle link of a chain: the model knows links by what they finally resolve to, not their aliasing
        reg.append(p)
        lines.append(f"fs {hx(p)} {kind_of(p)}")
        exp.append("ok")
    return reg


def kinds(reg):
    return " ".join(kind_of(p) for p in reg)


def prepare(case, sb):
    """puts --output-file's target, the pre-existing destination, the decoys and a pre-existing <dest>.tmp into the
    sandbox as the case says; returns what the oracle needs to know about it"""
    name = sb.subst(case["name"])
    spelling, make = OUTPUTS[case["output"]]
    out_set = spelling is not None
    out_file = sb.subst(spelling) if out_set else None
    out_abs = os.path.normpath(os.path.join(sb.cwd, out_file)) if out_set else None
    if make == "file":
        sb.put_file(out_abs, b"old output file")
    elif make == "dir":
        sb.put_dir(out_abs)
    elif make == "fifo":
        os.mkfifo(out_abs)
    out_was_dir = make == "dir"
    would_be, placeable = place_pre(case, sb, name, out_set, out_abs, out_was_dir)
    return dict(name=name, out_set=out_set, out_file=out_file, out_abs=out_abs, out_was_dir=out_was_dir,
                would_be=would_be, placeable=placeable)


def place_pre(case, sb, name, out_set, out_abs, out_was_dir):
    """the pre-existing destination, the decoys, a pre-existing <dest>.tmp and the user's symbolic links for ONE offer
    named `name`, relative to where the output option points NOW; returns (would_be, placeable).  Never replaces
    anything that is already there."""
    # pre-existing destination (where an honest reading of the property puts it)
    seg = name.split("/")[-1]
    base = out_abs if out_was_dir else sb.cwd
    would_be = base + "/" + seg
    placeable = seg not in ("", ".", "..") and os_clean(seg) and (not out_set or out_was_dir)
    if placeable and not os.path.lexists(would_be) and "dest" not in (case.get("link") or {}).get("where", ""):
        if case["pre"] == "file":
            sb.put_file(would_be, b"old destination")
        elif case["pre"] == "dir":
            sb.put_dir(would_be)
        elif case["pre"] in ("fifo", "socket", "chardev"):
            sb.put_special(would_be, case["pre"])
    # decoys: unrelated files of the user whose names are *other spellings* of the offered basename
    # (Unicode normal forms, case, surrounding blanks).  The receiver said it writes to `seg`;
    # none of these may be touched.
    if placeable and case.get("decoys", True):
        import unicodedata
        for tname in {unicodedata.normalize("NFC", seg), unicodedata.normalize("NFD", seg),
                      unicodedata.normalize("NFKC", seg), seg.lower(), seg.upper(), seg.strip()}:
            if tname != seg and tname not in ("", ".", "..") and os_clean(tname) and "/" not in tname \
                    and not os.path.lexists(base + "/" + tname):
                sb.put_file(base + "/" + tname, b"decoy: another spelling of the offered name")
    if placeable and case.get("pretmp", "none") != "none" and not os.path.lexists(would_be + ".tmp"):
        if case["pretmp"] == "file":
            sb.put_file(would_be + ".tmp", b"precious, unrelated to the transfer")
        elif case["pretmp"] == "socket":
            # (never a FIFO or a device here: open(NAME.tmp, "wb") on a FIFO blocks for ever, which would hang the check)
            sb.put_special(would_be + ".tmp", "socket")
        else:
            sb.put_dir(would_be + ".tmp")

    # files of the user's own NEXT to where the destination will be, named like it plus a suffix a receiver might use for
    # something it spills onto the disk (an archive, a partial download): nobody announced them, nobody may touch them
    if placeable and case.get("presib"):
        for sfx in case["presib"]:
            if not os.path.lexists(would_be + sfx) and os_clean(would_be + sfx):
                sb.put_file(would_be + sfx, b"the user's own file next to the destination: " + sfx.encode())

    # symbolic links the user already has: at the destination name, at the staging name (both may sit inside an
    # existing --output-file directory), pointing out of the working directory into sb.vault
    link = case.get("link")
    if placeable and link:
        targets = {"dangling": sb.vault + "/2024.log", "file": sb.vault + "/victim.txt", "dir": sb.vault + "/vdir",
                   "inside_file": sb.cwd + "/keep.txt", "inside_dangling": sb.cwd + "/not-yet"}
        for where in link["where"].split("+"):
            at = would_be + (".tmp" if where == "tmp" else "")
            if os.path.lexists(at):
                continue
            to = link["to"]
            chain = to.startswith("chain_")
            tgt = targets[to[6:] if chain else to]
            if where == "tmp" and not os.path.lexists(tgt):
                tgt += ".staged"       # two dangling links never share a target (the model does not know about aliasing)
            if chain:        # at -> hop -> target
                hop = at + ".hop"
                if os.path.lexists(hop):
                    continue
                os.symlink(tgt if link.get("abs") else os.path.relpath(tgt, os.path.dirname(hop)), hop)
                os.symlink(os.path.basename(hop), at)
            else:
                os.symlink(tgt if link.get("abs") else os.path.relpath(tgt, os.path.dirname(at)), at)

    for d in ([out_abs] if out_was_dir else []) + ([would_be] if placeable else []):
        if os.path.isdir(d) and not os.path.islink(d) and not os.path.lexists(d + ".tmp") and os_clean(d + ".tmp"):
            sb.put_file(d + ".tmp", b"unrelated: named like the directory next to it")

    return would_be, placeable


RECV_HELPERS = {"decide": ["_decide_destname"], "file": ["_handle_file", "_write_file"],
                "dir": ["_handle_directory", "_write_directory", "_extract_file"]}


class HelperShape(BaseException):
    """a private helper of Receiver is gone, or no longer hands back what the step-by-step world reads from it
    (not an Exception: the code that plays the caller of the real code — `except Exception` — must not take it for an outcome)"""


def run_recv(case):
    """the step-by-step world (`_decide_destname` / `_handle_*` / `_write_*`, each waited for whatever it returns).  When the
    Receiver no longer has these helpers in a shape this world can read, the same offer goes through the real entry point
    instead (`Receiver.go()`), so that the oracle judges the implementation whatever its internal call structure is."""
    need = RECV_HELPERS["decide" if case["level"] == "decide" else case["mode"]]
    via_entry = [h for h in need if not callable(getattr(cmd_receive.Receiver, h, None))]
    if not via_entry:
        sb = Sandbox(cross=case.get("fs") == "cross")
        try:
            with sb.spooling():
                r = _run_recv(case, sb)
            r.tags.append("fs:" + ("cross" if sb.cross else "same") + (":emulated" if sb.cross and not sb.real_cross else ""))
            return r
        except HelperShape as e:
            via_entry = [str(e)]
        finally:
            sb.cleanup()
    c = dict(case, kind="go", level="go", fault="none")
    r = run_go(c)
    r.tags.append("recv:through-entry-point")
    return r


def _run_recv(case, sb):
    tags = [f"mode:{case['mode']}", f"output:{case['output']}", f"pre:{case['pre']}", f"accept:{case['accept']}",
            f"level:{case['level']}"]
    P = prepare(case, sb)
    name, out_set, out_file, out_abs, out_was_dir = P['name'], P['out_set'], P['out_file'], P['out_abs'], P['out_was_dir']
    would_be, placeable = P['would_be'], P['placeable']

    lines, exp = [], []
    reg = register(sb, lines, exp)
    proc = os.getcwd()
    lines.append(f"args {hx(sb.cwd)} {hx(out_file or '')} {1 if case['accept'] else 0} {hx(case['answer'])} {hx(proc)}")
    exp.append("ok")
    for op, f in (("basename", os.path.basename), ("normpath", os.path.normpath)):
        lines.append(f"{op} {hx(name)}")
        exp.append(hx(f(name)))

    before = sb.snapshot()
    args = make_args(sb, out_file, case["accept"])
    rx = StepReactor()
    r = cmd_receive.Receiver(args, rx)
    prompt = Prompt(case["answer"])
    announced = None
    succeeded = False
    rejected = False
    spy = Spy()
    clean = os_clean(name) and (out_file is None or os_clean(out_file))
    f = None
    members = [[sb.subst(m[0], would_be if placeable else sb.cwd + "/nodest")] + list(m[1:]) for m in case.get("members", [])]
    with prompt.installed(), rx.installed(), \
            contextlib.redirect_stderr(io.StringIO()), spy.installed():
        try:
            if case["level"] == "decide":
                try:
                    d = rx.call(r._decide_destname, case["mode"], name)
                    if not isinstance(d, str):
                        raise HelperShape("_decide_destname")
                    announced, succeeded = d, True
                    tags.append("decide:ok")
                    lines.append(f"decide {hx(name)}")
                    exp.append(f"ok {hx(d)} | {kinds(reg)}")
                except Exception as e:
                    rejected = isinstance(e, cmd_receive.RespondError)
                    tags.append("decide:" + canon_exc(e))
                    lines.append(f"decide {hx(name)}")
                    exp.append(f"{canon_exc(e)} | {kinds(reg)}")
            elif case["mode"] == "file":
                try:
                    f = rx.call(r._handle_file, {"file": {"filename": name, "filesize": 9}})
                    if not (hasattr(f, "write") and hasattr(f, "name") and hasattr(r, "abs_destname")):
                        raise HelperShape("_handle_file")
                    announced, succeeded = r.abs_destname, True
                    tags.append("handle_file:ok")
                    if clean:
                        lines.append(f"handle_file {hx(name)}")
                        exp.append(f"ok {hx(r.abs_destname)} {hx(f.name)} | {kinds(reg)}")
                        for p in (r.abs_destname, f.name):
                            reg.append(p)
                            lines.append(f"watch {hx(p)}")
                            exp.append("ok")
                except Exception as e:
                    rejected = isinstance(e, cmd_receive.RespondError)
                    announced = getattr(r, "abs_destname", None)
                    tags.append("handle_file:" + canon_exc(e))
                    if clean:
                        lines.append(f"handle_file {hx(name)}")
                        exp.append(f"{canon_exc(e)} | {kinds(reg)}")
                if f is not None:
                    f.write(b"new data!")
                    try:
                        rx.call(r._write_file, f)
                        res = "ok"
                    except Exception as e:
                        res = canon_exc(e)
                    tags.append("write_file:" + res)
                    if clean:
                        lines.append("write_file")
                        exp.append(f"{res} | {kinds(reg)}")
            else:
                zbytes = build_zip(members)
                # what the offer SAYS the archive weighs is just a number chosen by the sender: small, or beyond any
                # in-memory spooling limit a receiver might have (the bytes that follow are what they are)
                offer = {"directory": {"mode": case["zipmode"], "dirname": name, "zipsize": case.get("zipdecl") or len(zbytes),
                                       "numbytes": 9 * len(members), "numfiles": len(members)}}
                if case.get("zipdecl"):
                    tags.append("zipdecl:%d" % case["zipdecl"])
                try:
                    f = rx.call(r._handle_directory, offer)
                    if not (hasattr(f, "write") and hasattr(r, "abs_destname")):
                        raise HelperShape("_handle_directory")
                    announced, succeeded = r.abs_destname, True
                    tags.append("handle_dir:ok")
                    if clean:
                        lines.append(f"handle_dir {hx(case['zipmode'])} {hx(name)}")
                        exp.append(f"ok {hx(r.abs_destname)} | {kinds(reg)}")
                except Exception as e:
                    rejected = isinstance(e, cmd_receive.RespondError)
                    announced = getattr(r, "abs_destname", None)
                    tags.append("handle_dir:" + canon_exc(e))
                    if clean:
                        lines.append(f"handle_dir {hx(case['zipmode'])} {hx(name)}")
                        exp.append(f"{canon_exc(e)} | {kinds(reg)}")
                if f is not None:
                    f.write(zbytes)
                    final = None
                    try:
                        rx.call(r._write_directory, f)
                    except Exception as e:
                        final = e
                    tags.append("write_directory:" + (canon_exc(final) if final else "ok"))
                    if clean:
                        member_lines(r.abs_destname, zbytes, spy, final, lines, exp, tags)
        finally:
            if f is not None:
                try:
                    f.close()
                except Exception:
                    pass
    after = sb.snapshot()
    # `_decide_destname` alone is final only with --accept-file (otherwise `_ask_permission` still has to agree)
    viol = oracle(before, after, sb.cwd, out_abs, out_was_dir, out_set, name, announced, succeeded, rejected,
                  check_announced=(case['level'] != 'decide' or case['accept']),
                  trace=spy.mutations)
    tags.extend(rx.tags())
    tags.extend(prompt.tags(before, announced, "ok" if succeeded else ("refused" if rejected else "failed")))
    if viol:
        tags.append("oracle:" + viol[0][0])
    return Result(lines, exp, viol, tags, nontrivial=True)


def member_lines(dest, zbytes, spy, final, lines, exp, tags):
    """per processed archive member: what the guard said, where zipfile wrote, what was chmod-ed"""
    with zipfile.ZipFile(io.BytesIO(zbytes)) as zf:
        names = [i.filename for i in zf.infolist()]
    ci = 0
    for i, rec in enumerate(spy.extracts):
        nm, tgt, exc = rec
        if exc is None and ci < len(spy.chmods):
            out = spy.chmods[ci][0]
            ci += 1
            lines.append(f"extract {hx(dest)} {hx(nm)}")
            exp.append(f"ok {hx(tgt)} {hx(out)}")
            tags.append("member:extracted" + (":chmod-elsewhere" if out != tgt.rstrip("/") else ""))
        else:
            tags.append("member:zipfile-" + canon_exc(exc))
    k = len(spy.extracts)
    if isinstance(final, ValueError) and "malicious zipfile" in str(final) and k < len(names):
        lines.append(f"guard {hx(dest)} {hx(names[k])}")
        exp.append("ValueError")
        tags.append("member:guard-rejected")


def run_zip(case):
    """`_extract_file` on every member of a hostile archive (continuing after rejections), into an existing
    destination next to look-alike siblings"""
    if not callable(getattr(cmd_receive.Receiver, "_extract_file", None)):
        # no per-member helper any more: the same archive as a directory offer through the real entry point
        r = run_go(dict(kind="go", level="go", mode="dir", name="dest", output="unset", accept=True, answer="y", pre="none",
                        pretmp="none", zipmode="zipfile/deflated", fault="none", fs="same",
                        members=[m for m in case["members"] if os_clean(m[0].replace("{DEST}", "").replace("{DESTBASE}", ""))]))
        r.tags.append("zip:through-entry-point")
        return r
    sb = Sandbox()
    try:
        dest = os.path.join(sb.cwd, "dest")
        os.mkdir(dest)
        sb.put_dir(dest + "-plus")
        sb.put_file(os.path.join(dest + "-plus", "haha"), b"sibling whose name extends ours")
        members = [[sb.subst(m[0], dest)] + list(m[1:]) for m in case["members"]]
        members = [m for m in members if os_clean(m[0])]
        zbytes = build_zip(members)
        before = sb.snapshot()
        args = make_args(sb, None, True)
        rx = StepReactor()
        r = cmd_receive.Receiver(args, rx)
        lines, exp, tags = [f"args {hx(sb.cwd)} - 1 - {hx(os.getcwd())}"], ["ok"], ["zip"]
        outer_spy = Spy()
        with zipfile.ZipFile(io.BytesIO(zbytes)) as zf, rx.installed(), outer_spy.installed():
            for info in zf.infolist():
                spy = outer_spy
                del spy.extracts[:], spy.chmods[:]
                final = None
                try:
                    rx.call(r._extract_file, zf, info, dest)
                except Exception as e:
                    final = e
                if spy.extracts and spy.extracts[0][2] is None and spy.chmods:
                    lines.append(f"extract {hx(dest)} {hx(info.filename)}")
                    exp.append(f"ok {hx(spy.extracts[0][1])} {hx(spy.chmods[0][0])}")
                    tags.append("member:extracted")
                elif not spy.extracts and isinstance(final, ValueError) and "malicious zipfile" in str(final):
                    lines.append(f"guard {hx(dest)} {hx(info.filename)}")
                    exp.append("ValueError")
                    tags.append("member:guard-rejected")
                else:
                    tags.append("member:zipfile-" + canon_exc(final))
        after = sb.snapshot()
        viol = []
        for p in sorted(set(before) | set(after)):
            b, a = before.get(p), after.get(p)
            if b == a or p == dest:
                continue
            if p.startswith(dest + "/"):
                continue
            if b is None:
                viol.append(("writes-outside-destination", f"archive member created {p!r} outside {dest!r}"))
            else:
                viol.append(("modifies-outside-destination", f"archive extraction changed {p!r}: {b} -> {a}; destination is {dest!r}"))
        for op, p in outer_spy.mutations:
            if not p.startswith(dest + "/"):
                viol.append(("writes-outside-destination", f"archive extraction: {op} {p!r} outside {dest!r}"))
        if viol:
            tags.append("oracle:" + viol[0][0])
        return Result(lines, exp, viol, tags, nontrivial=True)
    finally:
        sb.cleanup()


# ---------------------------------------------------------------------------
# the whole command: Receiver.go() -> _go() -> _parse_offer() with its exception handling

class FakeWormhole:
    """what wormhole.create() returns, with the key exchange already done and the sender's messages scripted"""

    def __init__(self, inbound):
        self._inbound = [cmd_receive.dict_to_bytes(m) for m in inbound]
        self.sent = []
        self._code = None

    def get_welcome(self):
        return defer.succeed({})

    def set_code(self, code):
        self._code = code

    def get_code(self):
        return defer.succeed(self._code)

    def get_unverified_key(self):
        return defer.succeed(b"k" * 32)

    def get_verifier(self):
        return defer.succeed(b"v" * 32)

    def derive_key(self, purpose, length):
        return b"t" * length

    def get_message(self):
        if self._inbound:
            return defer.succeed(self._inbound.pop(0))
        return defer.Deferred()

    def send_message(self, data):
        self.sent.append(cmd_receive.bytes_to_dict(data))

    def close(self):
        return defer.succeed("happy")


class FakeRecordPipe:
    def __init__(self, payload):
        self.payload = payload

    def describe(self):
        return "in-memory"

    def writeToFile(self, f, expected, progress, hasher):
        data = self.payload[:expected]
        f.write(data)
        progress(len(data))
        hasher(data)
        return defer.succeed(len(data))

    def send_record(self, record):
        return defer.succeed(None)

    def close(self):
        return defer.succeed(None)


def fake_transit_receiver(payload):
    class FakeTransitReceiver:
        TRANSIT_KEY_LENGTH = 32

        def __init__(self, *a, **kw):
            pass

        def set_transit_key(self, key):
            pass

        def add_connection_hints(self, hints):
            pass

        def get_connection_abilities(self):
            return [{"type": "direct-tcp-v1"}]

        def get_connection_hints(self):
            return defer.succeed([])

        def connect(self):
            return defer.succeed(FakeRecordPipe(payload))

    return FakeTransitReceiver


PWD_MODES = ["other", "other", "other_slash", "unset", "relative", "nonexistent", "same", "file", "empty"]


def run_go(case):
    sb = Sandbox(cross=case.get("fs") == "cross")
    if case.get("kind") != "entry":
        try:
            with sb.spooling():
                r = _run_go(case, sb)
            r.tags.append("fs:" + ("cross" if sb.cross else "same") + (":emulated" if sb.cross and not sb.real_cross else ""))
            return r
        finally:
            sb.cleanup()
    # the real entry point: Config() is built by the click group itself, after a real chdir() into the sandbox's working
    # directory, with $PWD naming something else (launched by Popen(cwd=…), env -C, sudo -D, cron …)
    old_cwd = os.getcwd()
    had_pwd = "PWD" in os.environ
    old_pwd = os.environ.get("PWD")
    try:
        other = os.path.join(sb.par, "elsewhere")
        os.mkdir(other)
        sb.put_file(os.path.join(other, "keep.txt"), b"keep me (elsewhere)")
        os.mkdir(os.path.join(other, "keepdir"))
        sb.put_file(os.path.join(other, "keepdir", "inner.txt"), b"keep me too (elsewhere)")
        pwd = {"other": other, "other_slash": other + "/", "unset": None, "relative": "cwd", "same": sb.cwd,
               "nonexistent": os.path.join(sb.par, "no-such-dir"), "file": os.path.join(sb.par, "sibling.txt"),
               "empty": ""}[case["pwd"]]
        os.chdir(sb.cwd)
        if pwd is None:
            os.environ.pop("PWD", None)
        else:
            os.environ["PWD"] = pwd
        with sb.spooling():
            return _run_go(case, sb, entry=dict(pwd=pwd, other=other))
    finally:
        os.chdir(old_cwd)
        if had_pwd:
            os.environ["PWD"] = old_pwd
        else:
            os.environ.pop("PWD", None)
        sb.cleanup()


def entry_config(out_file, accept):
    """the Config object exactly as `wormhole receive …` gets it: built by the click group callback (Config()), filled by
    the `receive` command; only the final `go(cmd_receive.receive, cfg)` (which starts the reactor) is intercepted.
    Nothing is assigned to cfg.cwd."""
    from click.testing import CliRunner
    from wormhole.cli import cli
    argv = ["receive", "--hide-progress"] + (["--accept-file"] if accept else []) + (["-o", out_file] if out_file else []) + ["1-abc"]
    with mock.patch("wormhole.cli.cli.go") as go:
        res = CliRunner().invoke(cli.wormhole, argv, catch_exceptions=False)
    if res.exit_code != 0 or not go.call_args:
        raise RuntimeError("click did not reach the receive command: " + res.output[-300:])
    cfg = go.call_args[0][1]
    cfg.stdout = io.StringIO()
    cfg.stderr = io.StringIO()
    return cfg


def _run_go(case, sb, entry=None):
    fault = case.get("fault", "none")
    tags = ["go", f"mode:{case['mode']}", f"output:{case['output']}", f"pre:{case['pre']}", f"accept:{case['accept']}",
            f"fault:{fault}"]
    P = prepare(case, sb)
    name, out_set, out_file, out_abs, out_was_dir = P['name'], P['out_set'], P['out_file'], P['out_abs'], P['out_was_dir']
    would_be, placeable = P['would_be'], P['placeable']
    lines, exp = [], []
    reg = register(sb, lines, exp) if entry is None else None
    proc = os.getcwd()
    if entry is None:
        lines.append(f"args {hx(sb.cwd)} {hx(out_file or '')} {1 if case['accept'] else 0} {hx(case['answer'])} {hx(proc)}")
        exp.append("ok")
    members = [[sb.subst(m[0], would_be if placeable else sb.cwd + "/nodest")] + list(m[1:]) for m in case.get("members", [])]
    if case["mode"] == "file":
        body = b"new data!"
        offer = {"file": {"filename": name, "filesize": len(body)}}
        payload = body[:4] if fault == "dropped" else body
    else:
        body = build_zip(members)
        offer = {"directory": {"mode": case["zipmode"], "dirname": name, "zipsize": len(body),
                               "numbytes": 9 * len(members), "numfiles": len(members)}}
        payload = body[:-3] if fault == "dropped" else (b"\x00" * len(body) if fault == "badzip" else body)
    dropped = fault == "dropped"

    if entry is not None:
        # the same-named things in the directory $PWD points at (so that a collision check against the wrong
        # directory is visible too): what is pre-existing in the real working directory is absent there and vice versa
        tags.append("pwd:" + case["pwd"])
        seg = name.split("/")[-1]
        if seg not in ("", ".", "..") and os_clean(seg) and not out_set:
            there = entry["other"] + "/" + seg
            if case["pre"] == "none" and case.get("elsewhere", "file") == "file" and not os.path.lexists(there):
                sb.put_file(there, b"same name, other directory")
            elif case["pre"] == "none" and case.get("elsewhere") == "dir" and not os.path.lexists(there):
                sb.put_dir(there)
        reg = register(sb, lines, exp)
        cfg = entry_config(out_file, case["accept"])
        pw = entry["pwd"]
        lines.append(f"config_cwd {hx(proc)} {hx(pw or '')}")
        exp.append(hx(cfg.cwd))
        lines.append(f"entry_args {hx(proc)} {hx(pw or '')} {hx(out_file or '')} {1 if case['accept'] else 0} {hx(case['answer'])}")
        exp.append("ok")
    before = sb.snapshot()
    args = make_args(sb, out_file, case["accept"])
    args.code = "1-abc"
    args.zeromode = False
    args.allocate = False
    args.code_length = 2
    args.appid = None
    args.debug_state = None
    args.listen = False
    args.transit_helper = ""
    args.launch_tor = False
    args.tor_control_port = None
    if entry is not None:
        args = cfg
    w = FakeWormhole([{"transit": {"abilities-v1": [{"type": "direct-tcp-v1"}], "hints-v1": []}}, {"offer": offer}])
    rx = StepReactor()
    r = cmd_receive.Receiver(args, rx)
    prompt = Prompt(case["answer"])
    permission = []

    spy = Spy()
    result = []
    with warnings.catch_warnings():
        warnings.simplefilter("ignore")
        with mock.patch.object(cmd_receive, "create", return_value=w), \
                mock.patch.object(cmd_receive, "TransitReceiver", fake_transit_receiver(payload)), \
                prompt.installed(), rx.installed(), hooked_send_permission(permission), \
                contextlib.redirect_stderr(io.StringIO()), spy.installed():
            # the entry point, and then as many turns of the reactor as whatever it returned needs (the prompt may be asked
            # from a thread, the answer may come back with callFromThread, a step may be put off to a later turn)
            d = defer.maybeDeferred(r.go)
            d.addCallbacks(lambda _: result.append(None), lambda f: result.append(f.value))
            rx.pump(lambda: bool(result))
    if not result:
        raise RuntimeError("Receiver.go() did not finish (its Deferred never fired and the reactor has nothing left to run)")
    if permission_sent(w) and not permission:
        permission.append(True)
    final = result[0]
    outcome = "ok" if final is None else canon_exc(final)
    tags.append("go:" + outcome + (":after-permission" if permission and final is not None else ""))
    announced = getattr(r, "abs_destname", None)
    succeeded = final is None
    clean = os_clean(name) and (out_file is None or os_clean(out_file))
    if clean:
        if announced is not None:
            for p in (announced, announced + ".tmp"):
                if p not in reg and os_clean(p):
                    reg.append(p)
                    lines.append(f"watch {hx(p)}")
                    exp.append("ok")
        if case["mode"] == "file":
            lines.append(f"offer_file {hx(name)} {1 if dropped else 0}")
            exp.append((f"ok {hx(announced)}" if succeeded else outcome) + f" | {kinds(reg)}")
        else:
            # did the unpacking create the destination directory? (zipfile makes it before it writes a member)
            extracted = bool(permission) and not dropped and bool(spy.extracts) and kind_of(announced) == "d"
            lines.append(f"offer_dir {hx(case['zipmode'])} {hx(name)} {1 if dropped else 0} {1 if extracted else 0}")
            if not permission:
                res = outcome
            elif dropped:
                res = "TransferError"
            else:
                res = f"ok {hx(announced)}"      # what happened below the destination is the archive cases' business
            exp.append(res + f" | {kinds(reg)}")
    after = sb.snapshot()
    from wormhole.errors import TransferError
    refused = final is not None and not permission and isinstance(final, TransferError)
    viol = oracle(before, after, sb.cwd, out_abs, out_was_dir, out_set, name, announced, succeeded, refused,
                  trace=spy.mutations)
    tags.extend(rx.tags())
    tags.extend(prompt.tags(before, announced, "ok" if succeeded else ("refused" if refused else "failed")))
    if viol:
        tags.append("oracle:" + viol[0][0])
    return Result(lines, exp, viol, tags, nontrivial=True)


# ---------------------------------------------------------------------------
# more than one receive per process: cmd_receive.receive(cfg) again and again with the SAME Config object
# (library embedding, GUI, retry loop).  Every receive is judged exactly like a single one — against the options the
# USER gave and the file system as it is when that receive starts — and must leave the user's options alone.

def user_options(args):
    """what the user said on the command line, as far as the destination rules read it"""
    return (getattr(args, "cwd", None), getattr(args, "output_file", None) or None, bool(getattr(args, "accept_file", False)))


def hx_any(x):
    return hx(x if isinstance(x, str) else ("" if x is None else repr(x)))


def run_multi(case):
    sb = Sandbox(cross=case.get("fs") == "cross")
    old_cwd = os.getcwd()
    had_pwd = "PWD" in os.environ
    old_pwd = os.environ.get("PWD")
    try:
        entry = None
        if case.get("via") == "entry":
            other = os.path.join(sb.par, "elsewhere")
            os.mkdir(other)
            sb.put_file(os.path.join(other, "keep.txt"), b"keep me (elsewhere)")
            pwd = {"other": other, "unset": None, "same": sb.cwd, "relative": "cwd"}[case.get("pwd", "other")]
            os.chdir(sb.cwd)
            if pwd is None:
                os.environ.pop("PWD", None)
            else:
                os.environ["PWD"] = pwd
            entry = dict(pwd=pwd, other=other)
        with sb.spooling():
            r = _run_multi(case, sb, entry)
        r.tags.append("fs:" + ("cross" if sb.cross else "same") + (":emulated" if sb.cross and not sb.real_cross else ""))
        return r
    finally:
        os.chdir(old_cwd)
        if had_pwd:
            os.environ["PWD"] = old_pwd
        else:
            os.environ.pop("PWD", None)
        sb.cleanup()


def _run_multi(case, sb, entry):
    from wormhole.errors import TransferError
    steps = case["steps"]
    tags = ["multi", f"multi:steps:{len(steps)}", f"multi:via:{case.get('via', 'args')}", f"output:{case['output']}",
            f"accept:{case['accept']}"]
    spelling, make = OUTPUTS[case["output"]]
    out_set = spelling is not None
    out_file = sb.subst(spelling) if out_set else None
    out_abs = os.path.normpath(os.path.join(sb.cwd, out_file)) if out_set else None
    if make == "file":
        sb.put_file(out_abs, b"old output file")
    elif make == "dir":
        sb.put_dir(out_abs)
    elif make == "fifo":
        os.mkfifo(out_abs)

    lines, exp, reg, believed = [], [], [], {}
    proc = os.getcwd()

    def sync(snap):
        """tell the model about every entry of the sandbox it does not know (yet) as it is now: what the harness just
        placed for the coming offer, what an archive of an earlier receive unpacked below its destination"""
        for p in sorted(snap):
            if p.endswith(".hop"):
                continue
            k = kind_of(p)
            if believed.get(p) != k:
                reg.append(p)
                believed[p] = k
                lines.append(f"fs {hx(p)} {k}")
                exp.append("ok")

    # ONE Config object for the whole sequence
    if entry is not None:
        args = entry_config(out_file, case["accept"])
        lines.append(f"config_cwd {hx(proc)} {hx(entry['pwd'] or '')}")
        exp.append(hx_any(args.cwd))
        lines.append(f"entry_args {hx(proc)} {hx(entry['pwd'] or '')} {hx(out_file or '')} {1 if case['accept'] else 0} -")
        exp.append("ok")
    else:
        args = make_args(sb, out_file, case["accept"])
        args.code = "1-abc"
        args.zeromode = False
        args.allocate = False
        args.code_length = 2
        args.appid = None
        args.debug_state = None
        args.listen = False
        args.transit_helper = ""
        args.launch_tor = False
        args.tor_control_port = None
        lines.append(f"args {hx(sb.cwd)} {hx(out_file or '')} {1 if case['accept'] else 0} - {hx(proc)}")
        exp.append("ok")
    given = user_options(args)

    made = []
    base = cmd_receive.Receiver
    real_init = base.__init__
    permission = []

    def init(self, *a, **kw):
        made.append(self)
        return real_init(self, *a, **kw)

    viol, late, seq = [], [], []
    for i, st in enumerate(steps):
        name = sb.subst(st["name"])
        fault = st.get("fault", "none")
        out_was_dir = bool(out_set and os.path.isdir(out_abs))
        would_be, placeable = place_pre(st, sb, name, out_set, out_abs, out_was_dir)
        before = sb.snapshot()
        sync(before)
        members = [[sb.subst(m[0], would_be if placeable else sb.cwd + "/nodest")] + list(m[1:]) for m in st.get("members", [])]
        if st["mode"] == "file":
            body = b"new data %d" % i
            offer = {"file": {"filename": name, "filesize": len(body)}}
            payload = body[:4] if fault == "dropped" else body
        else:
            body = build_zip(members)
            offer = {"directory": {"mode": st.get("zipmode", "zipfile/deflated"), "dirname": name, "zipsize": len(body),
                                   "numbytes": 9 * len(members), "numfiles": len(members)}}
            payload = body[:-3] if fault == "dropped" else (b"\x00" * len(body) if fault == "badzip" else body)
        dropped = fault == "dropped"
        opts_before = user_options(args)
        args.stdout, args.stderr = io.StringIO(), io.StringIO()
        w = FakeWormhole([{"transit": {"abilities-v1": [{"type": "direct-tcp-v1"}], "hints-v1": []}}, {"offer": offer}])
        prompt = Prompt(st.get("answer", "y"))
        rx = StepReactor()
        spy = Spy()
        result = []
        del made[:], permission[:]
        with warnings.catch_warnings():
            warnings.simplefilter("ignore")
            with mock.patch.object(cmd_receive, "create", return_value=w), \
                    mock.patch.object(cmd_receive, "TransitReceiver", fake_transit_receiver(payload)), \
                    prompt.installed(), rx.installed(), \
                    mock.patch.object(base, "__init__", init), \
                    hooked_send_permission(permission), \
                    contextlib.redirect_stderr(io.StringIO()), spy.installed():
                # the real entry point of the command: receive(args) -> Receiver(args).go(); then as many turns of the
                # reactor as whatever it returned needs
                d = defer.maybeDeferred(cmd_receive.receive, args, reactor=rx)
                d.addCallbacks(lambda _: result.append(None), lambda f: result.append(f.value))
                rx.pump(lambda: bool(result))
        if not result:
            raise RuntimeError("cmd_receive.receive() did not finish (its Deferred never fired and the reactor has nothing left to run)")
        if permission_sent(w) and not permission:
            permission.append(True)
        final = result[0]
        outcome = "ok" if final is None else canon_exc(final)
        announced = getattr(made[-1], "abs_destname", None) if made else None
        succeeded = final is None
        refused = final is not None and not permission and isinstance(final, TransferError)
        seq.append("ok" if succeeded else ("refused" if refused else "failed"))
        tags.append(f"multi:step{i + 1}:{st['mode']}:{seq[-1]}")
        tags.extend(rx.tags())
        tags.extend(prompt.tags(before, announced, seq[-1]))
        after = sb.snapshot()
        opts_after = user_options(args)

        # --- the same operation through the model: args threaded from receive to receive
        if announced is not None:
            for p in (announced, announced + ".tmp"):
                if p not in believed and os_clean(p):
                    reg.append(p)
                    believed[p] = "-"
                    lines.append(f"watch {hx(p)}")
                    exp.append("ok")
        shown = f"{hx_any(args.cwd)} {hx_any(getattr(args, 'output_file', None) or '')} {1 if getattr(args, 'accept_file', False) else 0}"
        ans = hx(st.get("answer", "y"))
        if st["mode"] == "file":
            lines.append(f"recv_file {ans} {hx(name)} {1 if dropped else 0}")
            res = f"ok {hx(announced)}" if succeeded else outcome
        else:
            extracted = bool(permission) and not dropped and bool(spy.extracts) and kind_of(announced) == "d"
            lines.append(f"recv_dir {ans} {hx(st.get('zipmode', 'zipfile/deflated'))} {hx(name)} {1 if dropped else 0} {1 if extracted else 0}")
            if not permission:
                res = outcome
            elif dropped:
                res = "TransferError"
            else:
                res = f"ok {hx(announced)}"
        exp.append(f"{res} | {kinds(reg)} | {shown}")
        for p in reg:
            believed[p] = kind_of(p)

        # --- the oracle, per receive, exactly as for a single one: the options are the ones the USER gave
        nth = f"receive #{i + 1} of {len(steps)} with one Config object ({' > '.join(seq)}): "
        for sig, msg in oracle(before, after, sb.cwd, out_abs, out_was_dir, out_set, name, announced, succeeded, refused,
                               trace=spy.mutations):
            viol.append((sig, nth + msg))
        # --- and it leaves the user's options as the user gave them
        if opts_after != opts_before or opts_after != given:
            late.append(("receive-changed-user-options",
                         nth + f"(cwd, output_file, accept_file) given by the user: {given!r}; before this receive: {opts_before!r}; "
                               f"after it: {opts_after!r} — the next receive with this Config runs under options nobody gave"))
    tags.append("multi:seq:" + ">".join(seq))
    tags.append("multi:options-" + ("changed" if late else "unchanged"))
    viol.extend(late[:1])
    if viol:
        tags.append("oracle:" + viol[0][0])
    return Result(lines, exp, viol, tags, nontrivial=True)


def run_case(case):
    k = case["kind"]
    if k == "path":
        return run_path(case)
    if k == "recv":
        return run_recv(case)
    if k == "zip":
        return run_zip(case)
    if k in ("go", "entry"):
        return run_go(case)
    if k == "multi":
        return run_multi(case)
    raise ValueError(k)


def search(rng, seconds, seeds):
    import time
    t0 = time.time()
    for c in seeds:
        yield c, run_case(c)
    while time.time() - t0 < seconds:
        for c in cases(rng, "quick"):
            yield c, run_case(c)
            if time.time() - t0 > seconds:
                return


def shrink(case):
    if case.get("kind") == "multi":
        steps = case["steps"]
        for i in range(len(steps)):
            if len(steps) > 1:
                c = dict(case)
                c["steps"] = steps[:i] + steps[i + 1:]
                yield c
        for simpler in (dict(via="args"), dict(fs="same"), dict(output="unset"), dict(accept=True)):
            if all(case.get(k) == v for k, v in simpler.items()):
                continue
            c = dict(case)
            c.update(simpler)
            c.pop("pwd", None) if c["via"] == "args" else None
            yield c
        for i, st in enumerate(steps):
            for simpler in (dict(pretmp="none"), dict(fault="none"), dict(answer="y"), dict(link=None), dict(members=MULTI_MEMBERS),
                            dict(name=st["name"].split("/")[-1] or st["name"])):
                if all(st.get(k) == v for k, v in simpler.items()) or (st["mode"] != "dir" and "members" in simpler):
                    continue
                c = dict(case)
                c["steps"] = [dict(x) for x in steps]
                c["steps"][i].update(simpler)
                yield c
        return
    if case.get("kind") in ("recv", "go", "entry"):
        ms = case.get("members") or []
        for i in range(len(ms)):
            c = dict(case)
            c["members"] = ms[:i] + ms[i + 1:]
            yield c
        if case.get("level") not in ("full", "go"):
            return
        for simpler in (dict(output="unset"), dict(output="dir"), dict(accept=True), dict(pre="none"), dict(zipmode="zipfile/deflated")):
            if all(case.get(k) == v for k, v in simpler.items()):
                continue
            c = dict(case)
            c.update(simpler)
            yield c
        nm = case["name"]
        for cand in (nm.strip("/"), nm.replace("//", "/"), "/".join(nm.split("/")[1:]), "/".join(nm.split("/")[:-2] + nm.split("/")[-1:])):
            if cand != nm:
                c = dict(case)
                c["name"] = cand
                yield c
    elif case.get("kind") == "zip":
        ms = case["members"]
        for i in range(len(ms)):
            c = dict(case)
            c["members"] = ms[:i] + ms[i + 1:]
            yield c
