"""C12 — Dilation L2 framing/encryption/encoding: correspondence + oracle on the real code."""
from unittest import mock

from zope.interface import alsoProvides

from wormhole._dilation import connection as dc
from wormhole._dilation.connection import (DilatedConnectionProtocol, Disconnect, KCM, Ping, Pong, Open, Data, Close,
                                           Ack, encode_record, parse_record)
from wormhole._dilation.encode import to_be4, from_be4
from wormhole._dilation.roles import LEADER, FOLLOWER
from wormhole._interfaces import IDilationConnector, IDilationManager

from ..core import Result
from ..fakes import ToyNoise, FakeTransport, hx
from ..util import automat_state

ID = "C12"
PROP_MODULES = ["WV.Props.C12"]
TRUSTED = ["Noise NNpsk0 (noiseprotocol is not installed; an ideal nonce-indexed AEAD interface in Lean, a toy AEAD in the harness)",
           "UTF-8 codec (validity predicate abstract in the theorems)",
           "Twisted: an exception leaving dataReceived drops the connection"]
RULE = ("record codec cases (7 types x boundary fields), be4 boundary values, frame sealing at payload sizes around "
        "0/65519/65520/2*65519, and whole-connection byte streams (relay/no relay, leader/follower) under random and "
        "1-byte chunkings with single-point corruptions; non-trivial = reaches a record/frame/error branch; "
        "distinct = distinct canonical output traces")

MAXP = 65519
BOUND = [0, 1, 255, 256, 65535, 65536, 2**31, 2**32 - 1]


def show_rec(r):
    if isinstance(r, KCM):
        return "kcm"
    if isinstance(r, Ping):
        return "ping " + hx(r.ping_id)
    if isinstance(r, Pong):
        return "pong " + hx(r.ping_id)
    if isinstance(r, Open):
        return f"open {r.seqnum} {r.scid} {hx(r.subprotocol.encode('utf8'))}"
    if isinstance(r, Data):
        return f"data {r.seqnum} {r.scid} {hx(r.data)}"
    if isinstance(r, Close):
        return f"close {r.seqnum} {r.scid}"
    if isinstance(r, Ack):
        return f"ack {r.resp_seqnum}"
    raise TypeError(r)


def mk_rec(spec):
    k = spec[0]
    if k == "kcm":
        return KCM()
    if k == "ping":
        return Ping(bytes.fromhex(spec[1]))
    if k == "pong":
        return Pong(bytes.fromhex(spec[1]))
    if k == "open":
        return Open(spec[1], spec[2], bytes.fromhex(spec[3]).decode("utf8"))
    if k == "data":
        return Data(spec[1], spec[2], bytes.fromhex(spec[3]))
    if k == "close":
        return Close(spec[1], spec[2])
    if k == "ack":
        return Ack(spec[1])
    raise ValueError(spec)


def rand_rec(rng, wide=False):
    def num():
        if wide and rng.random() < 0.15:
            return rng.choice([2**32, 2**32 + 5, 2**40])
        return rng.choice(BOUND) if rng.random() < 0.5 else rng.randrange(2**32)
    k = rng.choice(["kcm", "ping", "pong", "open", "data", "close", "ack"])
    if k == "kcm":
        return ["kcm"]
    if k in ("ping", "pong"):
        return [k, bytes(rng.randrange(256) for _ in range(4)).hex()]
    if k == "open":
        name = rng.choice(["", "a", "proto", "é", "名前", "x" * 40, "\U0001f600z"])
        return ["open", num(), num(), name.encode("utf8").hex()]
    if k == "data":
        n = rng.choice([0, 1, 2, 9, 100])
        return ["data", num(), num(), bytes(rng.randrange(256) for _ in range(n)).hex()]
    if k == "close":
        return ["close", num(), num()]
    return ["ack", num()]


def cases(rng, tier):
    n = 1 if tier == "quick" else 12
    out = []
    # corpus: boundary payload sizes for sealing
    for size in [0, 1, MAXP - 1, MAXP, MAXP + 1, 2 * MAXP, 2 * MAXP + 1]:
        out.append(dict(kind="seal", sizes=[size, 3, size]))
    out.append(dict(kind="be4", values=BOUND + [2**32, 2**32 + 1, 2**33]))
    for _ in range(60 * n):
        out.append(dict(kind="codec", rec=rand_rec(rng, wide=True)))
    for _ in range(40 * n):
        ln = rng.choice([0, 1, 2, 5, 8, 9, 10, 12, 20])
        b = bytes([rng.choice([0, 1, 2, 3, 4, 5, 6, 7, 255])] + [rng.randrange(256) for _ in range(ln)])
        if rng.random() < 0.2:
            b = b""
        out.append(dict(kind="parse", data=b.hex()))
    for _ in range(60 * n):
        recs = [rand_rec(rng) for _ in range(rng.randrange(0, 5))]
        recs = [r for r in recs if r[0] != "kcm"]
        if rng.random() < 0.15:
            recs.append(["data", 1, 2, bytes(rng.randrange(256) for _ in range(rng.choice([MAXP - 9, MAXP - 8, 2 * MAXP]))).hex()])
        out.append(dict(kind="conn", relay=rng.random() < 0.4, leader=rng.random() < 0.5, recs=recs,
                        chunk=rng.choice(["all", "one", "rand", "rand", "frames"]),
                        select_after=rng.choice([0, 1, 2, 99]),
                        mut=rng.choice([None, None, "flip", "flip", "trunc", "insert", "badpro", "badrelay", "swap", "dupkcm"]),
                        mseed=rng.randrange(10**6)))
    return out


def _catch(f):
    try:
        return f()
    except Exception as e:
        return type(e).__name__


def run_case(case):
    k = case["kind"]
    if k == "be4":
        lines, exp = [], []
        for v in case["values"]:
            lines.append(f"be4 {v}")
            r = _catch(lambda: hx(to_be4(v)))
            exp.append(r)
            if v < 2**32:
                lines.append(f"unbe4 {r}")
                exp.append(str(from_be4(bytes.fromhex(r))))
        for h in ["-", "00", "000000", "0000000001"]:
            lines.append(f"unbe4 {h}")
            exp.append(_catch(lambda: str(from_be4(bytes.fromhex(h) if h != "-" else b""))))
        return Result(lines, exp, tags=["be4"])
    if k == "codec":
        spec = case["rec"]
        r = mk_rec(spec)
        line = "enc " + show_rec(r)
        e = _catch(lambda: hx(encode_record(r)))
        lines, exp, viol = [line], [e], []
        tags = ["codec:" + spec[0]]
        if e not in ("ValueError",):
            lines.append("parse " + e)
            back = _catch(lambda: show_rec(parse_record(bytes.fromhex(e))))
            exp.append(back)
            if back != show_rec(r):
                viol.append(("codec-roundtrip", f"parse(encode({show_rec(r)})) = {back}"))
        else:
            tags.append("codec:ValueError")
        return Result(lines, exp, viol, tags)
    if k == "parse":
        b = bytes.fromhex(case["data"])
        r = _catch(lambda: show_rec(parse_record(b)))
        return Result(["parse " + hx(b)], [r], tags=["parse:" + (r.split(" ")[0])])
    if k == "seal":
        lines, exp = [], []
        f = mock.Mock()
        alsoProvides(f, dc.IFramer)
        n = ToyNoise()
        rec = dc._Record(f, n, LEADER)
        for size in case["sizes"]:
            payload = bytes((i * 7 + size) % 256 for i in range(max(size - 9, 0)))
            r = Data(5, 6, payload) if size >= 9 else None
            msg = encode_record(r) if r else bytes(range(size))
            # drive the real send_record by patching encode_record's result size via a Data record
            if r is None:
                with mock.patch.object(dc, "encode_record", return_value=msg):
                    rec.send_record(object())
            else:
                rec.send_record(r)
            body = f.send_frame.call_args[0][0]
            lines.append("seal " + hx(msg))
            exp.append(hx(body))
        return Result(lines, exp, tags=["seal"])
    if k == "conn":
        return run_conn(case)
    raise ValueError(k)


def frame(b):
    return to_be4(len(b)) + b


def run_conn(case):
    import random
    rng = random.Random(case["mseed"])
    leader = case["leader"]
    role = LEADER if leader else FOLLOWER
    from wormhole._dilation.connector import PROLOGUE_LEADER, PROLOGUE_FOLLOWER
    inbound = PROLOGUE_FOLLOWER if leader else PROLOGUE_LEADER
    outbound = PROLOGUE_LEADER if leader else PROLOGUE_FOLLOWER
    # honest peer's byte stream, built with the real sender-side code and the toy noise
    peer_noise = ToyNoise()
    pieces = []   # (kind, bytes)
    if case["relay"]:
        pieces.append(("relay", b"ok\n"))
    pieces.append(("prologue", inbound))
    pieces.append(("handshake", frame(peer_noise.write_message())))
    ptx = FakeTransport()
    pfr = dc._Framer(ptx, inbound, outbound)
    pfr._can_send_frames = True
    prec = dc._Record(pfr, peer_noise, FOLLOWER if leader else LEADER)
    recs = [KCM()] + [mk_rec(s) for s in case["recs"]]
    for r in recs:
        prec.send_record(r)
        pieces.append(("rec", ptx.written.pop()))
    mut = case["mut"]
    first_bad_piece = None     # index of the first piece that is not delivered intact
    must_drop = False
    if mut == "swap" and len(pieces) >= (5 if case["relay"] else 4):
        i = len(pieces) - 2
        pieces[i], pieces[i + 1] = pieces[i + 1], pieces[i]
        first_bad_piece = i
        must_drop = True
    elif mut == "dupkcm":
        i = [j for j, p in enumerate(pieces) if p[0] == "rec"][0]
        pieces.insert(i + 1, pieces[i])
        first_bad_piece = i + 1
        must_drop = True
    stream = b"".join(p[1] for p in pieces)
    offs = [0]
    for p in pieces:
        offs.append(offs[-1] + len(p[1]))

    def piece_of(pos):
        for i in range(len(pieces)):
            if offs[i] <= pos < offs[i + 1]:
                return i
        return len(pieces)
    if mut == "flip":
        pos = rng.randrange(len(stream))
        stream = stream[:pos] + bytes([stream[pos] ^ (1 << rng.randrange(8))]) + stream[pos + 1:]
        first_bad_piece = piece_of(pos)
        kind = pieces[first_bad_piece][0]
        in_len_prefix = kind in ("handshake", "rec") and pos - offs[first_bad_piece] < 4
        must_drop = not in_len_prefix
    elif mut == "trunc":
        pos = rng.randrange(len(stream))
        stream = stream[:pos]
        first_bad_piece = piece_of(pos)
    elif mut == "insert":
        pos = rng.randrange(len(stream) + 1)
        stream = stream[:pos] + bytes([rng.randrange(256)]) + stream[pos:]
        first_bad_piece = piece_of(pos)
    elif mut == "badpro":
        wrong = rng.choice([outbound, b"Magic-Wormhole Dilation Handshake v2 Leader\n\n", b"\n", b"GET / HTTP/1.0\r\n\r\n", inbound[:-1] + b"x"])
        i = 1 if case["relay"] else 0
        stream = stream[:offs[i]] + wrong + stream[offs[i + 1]:]
        first_bad_piece = i
        must_drop = b"\n" in wrong or len(wrong) >= len(inbound)
        if inbound.startswith(wrong):
            must_drop = False
    elif mut == "badrelay" and case["relay"]:
        wrong = rng.choice([b"no\n", b"ok", b"okk\n", b"\n", b"bad relay\n"])
        stream = wrong + stream[offs[1]:]
        first_bad_piece = 0
        must_drop = wrong != b"ok"
    # chunking
    ch = case["chunk"]
    if ch == "all":
        chunks = [stream]
    elif ch == "one":
        chunks = [stream[i:i + 1] for i in range(len(stream))] if len(stream) < 600 else None
    elif ch == "frames":
        chunks = [p[1] for p in pieces] if mut is None else None
    else:
        chunks = None
    if chunks is None:
        chunks, i = [], 0
        while i < len(stream):
            n = rng.choice([1, 2, 3, 4, 5, 7, 50, 1000, 70000])
            chunks.append(stream[i:i + n])
            i += n

    # the real connection under test
    conn = mock.Mock()
    alsoProvides(conn, IDilationConnector)
    mgr = mock.Mock()
    alsoProvides(mgr, IDilationManager)
    got = []
    mgr.got_record = lambda r: got.append(r)
    from wormhole.eventual import EventualQueue
    from twisted.internet.task import Clock
    eq = EventualQueue(Clock())
    noise = ToyNoise()
    p = DilatedConnectionProtocol(eq, role, "desc", conn, noise, outbound, inbound)
    t = FakeTransport()
    p.transport = t
    if case["relay"]:
        p.use_relay(b"please relay\n")
    p.connectionMade()

    def summary():
        fr = p._record._framer
        hs = frame(b"hs") in t.written
        kcm = frame(b"\x00" + bytes([1]) * 16) in t.written  # toy tag of (nonce 0, b"\0") = 0*7+0+1
        return (f"{automat_state(fr, 'm')} {automat_state(p._record, 'n')} {automat_state(p, 'm')} buf={len(fr._buffer)} "
                f"hs={'true' if hs else 'false'} kcm={'true' if kcm else 'false'} cand={'true' if conn.add_candidate.called else 'false'} "
                f"queued={len(p._inbound_record_queue)} mgr=[{'; '.join(show_rec(r) for r in got)}]")

    lines = [f"new {1 if case['relay'] else 0} {1 if leader else 0} {hx(inbound)}"]
    exp = ["ok"]
    dead = None
    selected = False
    nsel = 0
    tags = ["conn:" + ("relay" if case["relay"] else "direct"), "conn:" + ("leader" if leader else "follower"),
            "chunk:" + ch, "mut:" + str(mut)]
    for c in chunks:
        lines.append("data " + hx(c))
        if dead:
            exp.append("dead")
            continue
        lost_before = t.lost
        try:
            p.dataReceived(c)
            if t.lost > lost_before:
                dead = "Disconnect"
                exp.append("Disconnect " + summary())
            else:
                exp.append(summary())
        except Exception as e:
            dead = type(e).__name__
            exp.append(dead + " " + summary())
        if not dead and not selected and conn.add_candidate.called:
            nsel += 1
            if nsel > case["select_after"]:
                p.select(mgr)
                selected = True
                lines.append("select")
                exp.append(summary())
    if not dead and not selected and conn.add_candidate.called:
        p.select(mgr)
        selected = True
        lines.append("select")
        exp.append(summary())
    if dead:
        tags.append("dead:" + dead)
    # ---- oracle: the property on the real run
    viol = []
    sent = [show_rec(r) for r in recs[1:]]
    delivered = [show_rec(r) for r in got]
    if mut is None:
        if delivered != sent or dead:
            viol.append(("lossless", f"honest stream: sent {sent[:4]}… delivered {delivered[:4]}… dead={dead}"))
    else:
        # records whose frames arrived intact before the first manipulated piece
        base = 3 if case["relay"] else 2   # pieces before KCM: [relay] prologue handshake
        intact = max(0, (first_bad_piece if first_bad_piece is not None else len(pieces)) - base - 1)
        if mut == "insert" or mut == "trunc":
            pass
        if delivered != sent[:len(delivered)] or (len(delivered) > intact and mut not in ("insert", "trunc")):
            viol.append(("manipulated-delivered", f"mut={mut} delivered {delivered[:4]} beyond intact prefix {intact} of {sent[:4]}"))
        if mut in ("insert", "trunc") and delivered != sent[:len(delivered)]:
            viol.append(("manipulated-delivered", f"mut={mut} delivered {delivered[:4]} not a prefix of {sent[:4]}"))
        if must_drop and not dead:
            viol.append(("not-dropped", f"mut={mut} at piece {first_bad_piece}: connection was not dropped"))
    return Result(lines, exp, viol, tags)


def search(rng, seconds, seeds):
    import time
    t0 = time.time()
    for c in seeds:
        yield c, run_case(c)
    while time.time() - t0 < seconds:
        for c in cases(rng, "quick"):
            yield c, run_case(c)
            if time.time() - t0 > seconds:
                return


def shrink(case):
    if case.get("kind") == "conn":
        recs = case["recs"]
        for i in range(len(recs)):
            c = dict(case)
            c["recs"] = recs[:i] + recs[i + 1:]
            yield c
        if case["chunk"] != "all":
            c = dict(case)
            c["chunk"] = "all"
            yield c
